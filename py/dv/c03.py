"""C03 - trees stay well-formed arborescences under every history of mutating operations.

Reusable parts (imported by C07/C08 as `from dv import c03`):
  Session            a real dendropy Tree built from a spec tree, with creation-order node ids
  Session.apply(op)  the op interpreter on the real library (op = JSON list, see OP FORMS)
  Session.snapshot() pointer dump from the seed after a step (+ rooting flag, traversals, problems)
  c_op / c_case      Coq terms of Model/HeapOps.v `op` and Model/C03Model.v `case`
  gen_history        op histories with arguments drawn from the live state
"""
import itertools
import json
import random
import time

from dv import core, trees
from dv.core import cz, cnat, cbool, clist, copt, cpair

HEADER = ("From DV Require Import Model.PyPrims Model.Tree Model.Heap Model.HeapOps Model.C03Bip Model.C03BipObj Model.C03Model.\n"
          "From Coq Require Import ZArith List. Import ListNotations. Open Scope Z_scope.")

UNIT = trees.UNIT

# --------------------------------------------------------------------------------------------
# creation-order ids for nodes the library constructs itself (model: `next h`)
# --------------------------------------------------------------------------------------------

_STAMP = {"on": False, "next": 0, "reg": None}
_PATCHED = [False]


def _patch_node_init():
    if _PATCHED[0]:
        return
    from dendropy.datamodel.treemodel import _node
    orig = _node.Node.__init__

    def init(self, *a, **kw):
        orig(self, *a, **kw)
        if _STAMP["on"]:
            self._dv_id = _STAMP["next"]
            _STAMP["reg"][self._dv_id] = self
            _STAMP["next"] += 1

    _node.Node.__init__ = init
    # the pair chosen by max_pairwise_distance_taxa depends on set iteration order: record it
    from dendropy.calculate import phylogeneticdistance as pd
    orig_max = pd.PhylogeneticDistanceMatrix.max_pairwise_distance_taxa

    def max_pair(self, *a, **kw):
        r = orig_max(self, *a, **kw)
        f = _STAMP.get("force_pair")
        if f is not None and r is not None:
            # the pair is picked by iterating a set hashed by id(): replay the choice recorded when the
            # history was generated, provided it is one the implementation could have made (same maximum)
            try:
                d = self._taxon_phylogenetic_distances
                if d[f[0]][f[1]] == d[r[0]][r[1]]:
                    r = (f[0], f[1])
            except KeyError:
                pass
        _STAMP["maxpair"] = r
        return r

    pd.PhylogeneticDistanceMatrix.max_pairwise_distance_taxa = max_pair
    _PATCHED[0] = True


class RecRng(random.Random):
    """seeded generator that records its draws at the level the library calls it"""

    def __init__(self, seed):
        super().__init__(seed)
        self.log = []

    def sample(self, population, k, **kw):
        idx = super().sample(range(len(population)), k)
        self.log.append(["sample", idx])
        return [population[i] for i in idx]

    def choice(self, seq):
        i = super().randrange(len(seq))
        self.log.append(["choice", i])
        return seq[i]

    def shuffle(self, x):
        idx = list(range(len(x)))
        super().shuffle(idx)
        self.log.append(["shuffle", idx])
        x[:] = [x[i] for i in idx]

    def randrange(self, *a, **kw):
        v = super().randrange(*a, **kw)
        self.log.append(["randrange", v])
        return v


class Poison:
    """replacement of dendropy.utility.GLOBAL_RNG: any stray use is an error"""

    def __getattr__(self, name):
        raise RuntimeError("GLOBAL_RNG used (%s)" % name)


MAXN = 4000   # bound on every walk (cycles)


class Session:
    def __init__(self, spec, rooted, ntaxa, labels=None, cs=None):
        """labels/cs: a label pool for the namespace (labels[i] is the label of taxon i; labels may collide,
        exactly or under case folding) and the namespace's is_case_sensitive flag; default t0.. in a default
        (case-insensitive) namespace"""
        import dendropy
        _patch_node_init()
        _STAMP["on"] = False
        if labels is None:
            self.ns, self.taxa = trees.make_namespace(ntaxa)
            self.labels, self.cs = default_labels(ntaxa), False
        else:
            assert len(labels) == ntaxa
            self.ns = dendropy.TaxonNamespace(is_case_sensitive=bool(cs))
            self.taxa = [self.ns.new_taxon(label=l) for l in labels]
            self.labels, self.cs = list(labels), bool(cs)
        self.taxon_index = {id(t): i for i, t in enumerate(self.taxa)}
        self.tree, by_id = trees.build_dendropy(spec, self.taxa, is_rooted=rooted, namespace=self.ns)
        self.reg = dict(by_id)
        self.detached = []          # ids of clean detached subtree roots (removed by an explicit op)
        _STAMP["reg"] = self.reg
        _STAMP["next"] = max(by_id) + 1
        _STAMP["on"] = True

    def close(self):
        _STAMP["on"] = False

    def nd(self, i):
        return self.reg[i]

    def lab(self, l):
        return None if l is None else "L%d" % l

    def L(self, e):
        return None if e is None else e * UNIT

    # ---- the op interpreter on the real library --------------------------------------------
    def apply(self, op):
        """returns aux dict (scripts / observed nondeterministic choices); raises what the library raises"""
        import dendropy
        t = self.tree
        k = op[0]
        nd = self.nd
        aux = self.aux = {}
        if k == "AddChild":
            nd(op[1]).add_child(nd(op[2]))
        elif k == "InsertChild":
            nd(op[1]).insert_child(op[2], nd(op[3]))
        elif k == "NewChild":
            nd(op[1]).new_child(taxon=None if op[2] is None else self.taxa[op[2]], label=self.lab(op[3]),
                                edge_length=self.L(op[4]))
        elif k == "InsertNewChild":
            nd(op[1]).insert_new_child(op[2], taxon=None if op[3] is None else self.taxa[op[3]],
                                       label=self.lab(op[4]), edge_length=self.L(op[5]))
        elif k == "RemoveChild":
            nd(op[1]).remove_child(nd(op[2]), suppress_unifurcations=op[3])
        elif k == "SetChildNodes":
            nd(op[1]).set_child_nodes([nd(i) for i in op[2]])
        elif k == "SetParentNode":
            nd(op[1]).parent_node = None if op[2] is None else nd(op[2])
        elif k == "CollapseClade":
            nd(op[1]).collapse_clade()
        elif k == "EdgeCollapse":
            nd(op[1]).edge.collapse(adjust_collapsed_head_children_edge_lengths=op[2])
        elif k == "EdgeInvert":
            nd(op[1]).edge.invert()
        elif k == "SetRooted":
            t.is_rooted = op[1]
        elif k == "SetUnrooted":
            t.is_unrooted = op[1]
        elif k == "Deroot":
            t.deroot()
        elif k == "CollapseBasal":
            t.collapse_basal_bifurcation(set_as_unrooted_tree=op[1])
        elif k == "PolytomizeRoot":
            t.polytomize_root(set_as_unrooted_tree=op[1])
        elif k == "Encode":
            t.encode_bipartitions(suppress_unifurcations=op[1], collapse_unrooted_basal_bifurcation=op[2])
        elif k == "ReseedAt":
            t.reseed_at(nd(op[1]), update_bipartitions=op[2], collapse_unrooted_basal_bifurcation=op[3],
                        suppress_unifurcations=op[4])
        elif k == "ToOutgroup":
            t.to_outgroup_position(nd(op[1]), update_bipartitions=op[2], suppress_unifurcations=op[3])
        elif k == "RerootAtNode":
            t.reroot_at_node(nd(op[1]), update_bipartitions=op[2], suppress_unifurcations=op[3],
                             collapse_unrooted_basal_bifurcation=op[4])
        elif k == "RerootAtEdge":
            t.reroot_at_edge(nd(op[1]).edge, length1=self.L(op[2]), length2=self.L(op[3]),
                             update_bipartitions=op[4], suppress_unifurcations=op[5])
        elif k == "RerootAtMidpoint":
            _STAMP["maxpair"] = None
            _STAMP["force_pair"] = None if len(op) < 5 or not op[4] else (self.taxa[op[4][0]], self.taxa[op[4][1]])
            try:
                t.reroot_at_midpoint(update_bipartitions=op[1], suppress_unifurcations=op[2],
                                     collapse_unrooted_basal_bifurcation=op[3])
            finally:
                _STAMP["force_pair"] = None
                mp = _STAMP.get("maxpair")
                aux["pair"] = None if not mp else [self.taxon_index[id(mp[0])], self.taxon_index[id(mp[1])]]
        elif k == "SuppressUnifurcations":
            # update_bipartitions=True only edits the stored encoding list (no structural effect): the model's
            # OSuppressUnifurcations has no flag, the oracle checks the list against a fresh encoding
            t.suppress_unifurcations(update_bipartitions=(len(op) > 1 and bool(op[1])))
        elif k == "CollapseUnweighted":
            t.collapse_unweighted_edges(threshold=op[1] * UNIT, update_bipartitions=op[2])
        elif k == "ResolvePolytomies":
            rng = None if op[2] is None else RecRng(op[2])
            try:
                t.resolve_polytomies(limit=op[1], update_bipartitions=op[3], rng=rng)
            finally:
                if rng is not None:
                    aux["script"] = rng.log
        elif k == "PruneSubtree":
            t.prune_subtree(nd(op[1]), update_bipartitions=op[2], suppress_unifurcations=op[3])
        elif k == "FilterLeafNodes":
            keep = set(op[1])
            t.filter_leaf_nodes(lambda x: getattr(x, "_dv_id", None) in keep, recursive=op[2],
                                update_bipartitions=op[3], suppress_unifurcations=op[4])
        elif k == "PruneLeavesWithoutTaxa":
            t.prune_leaves_without_taxa(recursive=op[1], update_bipartitions=op[2], suppress_unifurcations=op[3])
        elif k == "PruneNodes":
            t.prune_nodes([nd(i) for i in op[1]], prune_leaves_without_taxa=op[2], update_bipartitions=op[3],
                          suppress_unifurcations=op[4])
        elif k == "PruneTaxa":
            t.prune_taxa([self.taxa[i] for i in op[1]], update_bipartitions=op[2], suppress_unifurcations=op[3],
                         is_apply_filter_to_leaf_nodes=op[4], is_apply_filter_to_internal_nodes=op[5])
        elif k == "RetainTaxa":
            t.retain_taxa([self.taxa[i] for i in op[1]], update_bipartitions=op[2], suppress_unifurcations=op[3])
        elif k == "PruneTaxaLabels":
            t.prune_taxa_with_labels(list(op[1]), update_bipartitions=op[2], suppress_unifurcations=op[3],
                                     is_apply_filter_to_leaf_nodes=op[4], is_apply_filter_to_internal_nodes=op[5])
        elif k == "RetainTaxaLabels":
            t.retain_taxa_with_labels(list(op[1]), update_bipartitions=op[2], suppress_unifurcations=op[3])
        elif k in ("ExtractWithLabels", "ExtractWithoutLabels"):
            # returns a NEW tree: its nodes are not nodes of the session's heap (no creation-order stamps)
            on = _STAMP["on"]
            _STAMP["on"] = False
            try:
                fn = t.extract_tree_with_taxa_labels if k == "ExtractWithLabels" else t.extract_tree_without_taxa_labels
                other = fn(list(op[1]), suppress_unifurcations=op[2])
                ex = {"same_namespace": other.taxon_namespace is t.taxon_namespace, "is_self": other is t}
                if other.seed_node is None:
                    ex["tree"], ex["problems"] = None, []
                else:
                    sp, pr = trees.dump_dendropy(other, self.taxon_index, alloc=trees.IdAlloc(2 * 10 ** 6),
                                                 label_index=self.label_index, max_nodes=MAXN)
                    ex["problems"] = pr
                    ex["leaf_taxa"] = leaf_taxa(sp)
                    ex["foreign_taxa"] = sum(1 for n in trees.preorder(sp) if n["taxon"] == -1)
                    ex["internal_taxon"] = internal_with_taxon(sp)
                    ex["n"] = len(trees.preorder(sp))
                aux["extract"] = ex
            finally:
                _STAMP["on"] = on
        elif k == "Ladderize":
            t.ladderize(ascending=op[1])
        elif k == "Reorder":
            t.reorder(ascending=op[1])
        elif k == "RandomlyRotate":
            rng = RecRng(op[1])
            try:
                t.randomly_rotate(rng=rng)
            finally:
                aux["script"] = rng.log
        elif k == "RandomlyReorient":
            rng = RecRng(op[1])
            try:
                t.randomly_reorient(rng=rng, update_bipartitions=op[2])
            finally:
                aux["script"] = rng.log
        elif k == "ShuffleTaxa":
            rng = RecRng(op[2])
            try:
                t.shuffle_taxa(include_internal_nodes=op[1], rng=rng)
            finally:
                aux["script"] = rng.log
        else:
            raise RuntimeError("unknown op %r" % (op,))
        return aux

    # ---- observation -----------------------------------------------------------------------
    def label_index(self, s):
        return int(s[1:]) if isinstance(s, str) and s[:1] == "L" and s[1:].isdigit() else -1

    def snapshot(self, with_traversals=True):
        """pointer dump from the seed: spec tree + pointer problems + rooting flag + what the library's own
        traversals visit"""
        t = self.tree
        alloc = trees.IdAlloc(10 ** 6)
        try:
            spec, problems = trees.dump_dendropy(t, self.taxon_index, alloc=alloc, label_index=self.label_index,
                                                 max_nodes=MAXN)
        except RecursionError as e:
            return {"tree": None, "problems": ["pointer walk does not terminate: %s" % e], "rooted": t._is_rooted}
        snap = {"tree": spec, "problems": problems, "rooted": t._is_rooted}
        if with_traversals:
            trav = {}
            for name, it in (("preorder", t.preorder_node_iter), ("postorder", t.postorder_node_iter),
                             ("levelorder", t.levelorder_node_iter), ("leaf", t.leaf_node_iter)):
                try:
                    trav[name] = [alloc.of(n) for n in itertools.islice(it(), MAXN)]
                except Exception as e:
                    trav[name] = "raised %s" % type(e).__name__
            snap["trav"] = trav
            try:
                t._debug_tree_is_valid()
                snap["selfcheck"] = None
            except Exception as e:
                snap["selfcheck"] = "%s: %s" % (type(e).__name__, str(e)[:120])
        return snap

    def pointers(self):
        """wave 8: the WHOLE pointer structure, not only what is reachable from the seed: for every node object the
        session ever registered (nodes of the tree, detached subtrees, garbage) its parent pointer, its child list,
        its edge's head and tail, edge length and taxon; plus the tree's seed and rooting flag.  Compared before/after
        an operation the library REFUSED (clause: a refused operation changes nothing)."""
        name = {id(n): i for i, n in self.reg.items()}

        def nm(x):
            return None if x is None else name.get(id(x), -1)
        rows = []
        for i in sorted(self.reg):
            n = self.reg[i]
            e = n._edge
            rows.append([i, nm(n._parent_node), [nm(c) for c in n._child_nodes[:MAXN]],
                         nm(None if e is None else e._head_node), nm(None if e is None else e.tail_node),
                         None if e is None else repr(e.length),
                         None if n.taxon is None else self.taxon_index.get(id(n.taxon), -1)])
        return {"seed": nm(self.tree._seed_node), "rooted": self.tree._is_rooted, "nodes": rows}

    def enc_dump(self):
        """Tree.bipartition_encoding as [(owner node id, leafset mask)] in list order; the owner of a Bipartition
        object is the node whose edge carries it (-1: no registered node does)"""
        owner = {}
        for i, n in self.reg.items():
            b = n.edge._bipartition
            if b is not None:
                owner.setdefault(id(b), i)
        return [[owner.get(id(b), -1), b._leafset_bitmask] for b in (self.tree.bipartition_encoding or [])]

    def bip_check(self):
        """after an op run with update_bipartitions=True: do the per-edge leafset masks and the encoding list
        agree with a naive recomputation on the structure as it is now?  returns None or text"""
        t = self.tree
        ns = self.ns

        def mask(node, depth=0):
            if depth > 500:
                raise RecursionError
            if not node._child_nodes:
                return ns.taxon_bitmask(node.taxon) if node.taxon is not None else 0
            m = 0
            for c in node._child_nodes:
                m |= mask(c, depth + 1)
            return m

        want = []
        for n in t.postorder_node_iter():
            m = mask(n)
            b = n.edge._bipartition
            if b is None or b._leafset_bitmask != m:
                return "edge of node %s carries leafset mask %s, a fresh encoding gives %s" % (
                    getattr(n, "_dv_id", "?"), None if b is None else b._leafset_bitmask, m)
            want.append(m)
        enc = t.bipartition_encoding
        got = sorted(b._leafset_bitmask for b in (enc or []))
        if len(got) != len(want):
            return "bipartition_encoding has %d entries for %d edges (masks %s, a fresh encoding gives %s)" % (
                len(got), len(want), got, sorted(want))
        if got != sorted(want):
            return "bipartition_encoding lists masks %s, a fresh encoding gives %s" % (got, sorted(want))
        edge_bips = set(id(n.edge._bipartition) for n in t.postorder_node_iter())
        if any(id(b) not in edge_bips for b in enc):
            return "bipartition_encoding holds a Bipartition object that no edge of the tree carries"
        return None

    def bip_objects(self):
        """object level of the stored encoding (wave 7): every edge of the tree carries its OWN Bipartition object
        and tree.bipartition_encoding holds exactly those objects, each once.  Identities are canonicalised (number
        of first occurrence along the postorder edge walk; the objects stay alive - the tree holds them - while
        they are numbered).  returns (dump, None or text)"""
        t = self.tree
        num = {}
        edges = []
        full = []
        for n in t.postorder_node_iter():
            b = n.edge._bipartition
            if b is not None:
                num.setdefault(id(b), len(num))
            edges.append([getattr(n, "_dv_id", -1), None if b is None else num[id(b)]])
            full.append([edges[-1][0], -1] if b is None else
                        [edges[-1][0], num[id(b)], -1 if b._split_bitmask is None else b._split_bitmask,
                         -1 if b._leafset_bitmask is None else b._leafset_bitmask,
                         {None: 0, False: 1, True: 2}.get(b._is_rooted, 3)])
        enc = [num.setdefault(id(b), len(num)) for b in (t.bipartition_encoding or [])]
        dump = {"edges": full, "enc": enc}
        seen = {}
        for nid, k in edges:
            if k is None:
                return dump, "edge of node %s carries no Bipartition object" % nid
            if k in seen:
                return dump, ("the edges of nodes %s and %s carry ONE Bipartition object (a fresh encoding builds one "
                              "per edge)" % (seen[k], nid))
            seen[k] = nid
        if len(set(enc)) != len(enc):
            return dump, "bipartition_encoding lists one Bipartition object twice (object numbers %s)" % enc
        if set(enc) != set(seen):
            return dump, ("bipartition_encoding does not hold exactly the edges' Bipartition objects: edge objects %s, "
                          "listed objects %s" % (sorted(seen), enc))
        return dump, None

    def bip_fresh(self, unordered=False):
        """stored encoding = FRESH encoding (wave 7): (split_bitmask, leafset_bitmask, is_rooted) of every edge's
        Bipartition in postorder, and of tree.bipartition_encoding in list order (unordered: as a multiset), against
        encode_bipartitions (no structural flags) run on a deep copy of the tree as it is now.  returns None or text"""
        t = self.tree
        on = _STAMP["on"]
        _STAMP["on"] = False          # the copy's nodes are not nodes of the session's heap
        try:
            fresh = t.clone(depth=1)
            fresh.encode_bipartitions(suppress_unifurcations=False, collapse_unrooted_basal_bifurcation=False)
        finally:
            _STAMP["on"] = on

        def sig(b):
            return None if b is None else [b._split_bitmask, b._leafset_bitmask, b._is_rooted]
        got_nodes = list(itertools.islice(t.postorder_node_iter(), MAXN))
        want_nodes = list(itertools.islice(fresh.postorder_node_iter(), MAXN))
        if len(got_nodes) != len(want_nodes) or fresh._is_rooted != t._is_rooted:
            return None               # the copy is not the tree (copying is another property's business)
        for g, w in zip(got_nodes, want_nodes):
            if len(g._child_nodes) != len(w._child_nodes) or g.taxon is not w.taxon:
                return None
        for g, w in zip(got_nodes, want_nodes):
            a, b = sig(g.edge._bipartition), sig(w.edge._bipartition)
            if a != b:
                return ("edge of node %s carries (split_bitmask, leafset_bitmask, is_rooted) = %s; a fresh encoding of "
                        "the resulting tree (is_rooted %s) gives %s" % (getattr(g, "_dv_id", "?"), a, t._is_rooted, b))
        got = [sig(b) for b in (t.bipartition_encoding or [])]
        want = [sig(b) for b in fresh.bipartition_encoding]
        if sorted(got, key=repr) != sorted(want, key=repr):
            return ("bipartition_encoding holds (split_bitmask, leafset_bitmask, is_rooted) %s; a fresh encoding of the "
                    "resulting tree (is_rooted %s) gives %s" % (got, t._is_rooted, want))
        if got != want and not unordered:
            return ("bipartition_encoding lists %s in this order; a fresh encoding lists %s" % (got, want))
        return None


# --------------------------------------------------------------------------------------------
# label pools (namespaces in which several taxa answer to one label) and the taxa a label query designates
# --------------------------------------------------------------------------------------------

LABEL_OPS = ("PruneTaxaLabels", "RetainTaxaLabels", "ExtractWithLabels", "ExtractWithoutLabels")


def default_labels(ntaxa):
    return ["t%d" % i for i in range(ntaxa)]


def case_labels(case):
    """(labels, is_case_sensitive) of the namespace of a case"""
    if case.get("labels") is None:
        return default_labels(case["ntaxa"]), False
    return case["labels"], bool(case.get("cs"))


def designated(labels, cs, query):
    """taxon indices a list of query labels designates: EVERY taxon of the namespace whose label equals one
    of the query labels under the namespace's own rule (exact when case sensitive, after lower-casing
    otherwise).  Deliberately naive and independent of TaxonNamespace.get_taxa."""
    out = []
    for i, l in enumerate(labels):
        for q in query:
            if (l == q) if cs else (l.lower() == q.lower()):
                out.append(i)
                break
    return out


def equiv_op(op, labels, cs):
    """the taxon-object form of a label-based op (what the label methods are documented to delegate to)"""
    k = op[0]
    if k == "PruneTaxaLabels":
        return ["PruneTaxa", designated(labels, cs, op[1])] + list(op[2:])
    if k == "RetainTaxaLabels":
        return ["RetainTaxa", designated(labels, cs, op[1])] + list(op[2:])
    return op


def gen_label_pool(rng, ntaxa):
    """labels for ntaxa taxa with collisions: exact duplicates and labels differing only in case"""
    base = ["a", "b", "c", "d", "e", "f", "g", "h", "k", "m", "n", "p", "q", "r", "s", "u", "v", "w", "x", "y", "z"]
    mode = rng.choice(["case", "dup", "both", "unique-mixed-case"])
    labels = []
    for i in range(ntaxa):
        r = rng.random()
        if labels and r < 0.35 and mode != "unique-mixed-case":
            src = rng.choice(labels)
            if mode == "dup":
                labels.append(src)
            elif mode == "case":
                labels.append(src.swapcase())
            else:
                labels.append(rng.choice([src, src.swapcase(), src.upper()]))
        else:
            fresh = [b for b in base if all(b != l.lower() for l in labels)]
            l = rng.choice(fresh) if fresh else "t%d" % i
            labels.append(l.upper() if rng.random() < 0.3 else l)
    return labels, rng.random() < (0.25 if mode != "dup" else 0.5)


def gen_label_query(rng, sess, spec):
    """query labels: mostly labels of taxa in the tree (in either case), sometimes unknown ones"""
    present = sorted(set(n["taxon"] for n in trees.preorder(spec) if n["taxon"] is not None and n["taxon"] >= 0))
    pool = [sess.labels[i] for i in (present or range(len(sess.labels)))]
    q = []
    for l in pool:
        if rng.random() < 0.4:
            q.append(rng.choice([l, l, l.swapcase(), l.lower()]))
    if pool and not q and rng.random() < 0.8:
        q.append(rng.choice(pool))
    if rng.random() < 0.15:
        q.append("nosuchlabel")
    if q and rng.random() < 0.1:
        q.append(q[0])
    rng.shuffle(q)
    return q


# --------------------------------------------------------------------------------------------
# spec-tree helpers
# --------------------------------------------------------------------------------------------

def nodes_of(spec):
    return trees.preorder(spec)


def parent_map(spec):
    pm = {spec["id"]: None}
    for n in trees.preorder(spec):
        for k in n["kids"]:
            pm[k["id"]] = n["id"]
    return pm


def subtree_ids(n):
    return [x["id"] for x in trees.preorder(n)]


def leaf_taxa(spec):
    return sorted(n["taxon"] for n in trees.leaves(spec) if n["taxon"] is not None)


def internal_with_taxon(spec):
    return any(n["kids"] and n["taxon"] is not None for n in trees.preorder(spec))


def patristic_units(spec, a, b):
    pm = parent_map(spec)
    by = {n["id"]: n for n in trees.preorder(spec)}

    def up(x):
        out = []
        while x is not None:
            out.append(x)
            x = pm[x]
        return out
    ua, ub = up(a), up(b)
    common = next(x for x in ua if x in ub)
    d = 0
    for x in ua[:ua.index(common)] + ub[:ub.index(common)]:
        d += by[x]["len"] or 0
    return d


# --------------------------------------------------------------------------------------------
# history generation (arguments drawn from the live state)
# --------------------------------------------------------------------------------------------

B = lambda rng: rng.random() < 0.5
LENS = [None, 0, 256, 512, 1024, 2048, 3072]

KINDS = [
    ("ReseedAt", 8), ("RerootAtNode", 6), ("RerootAtEdge", 5), ("RerootAtMidpoint", 4), ("ToOutgroup", 6),
    ("SuppressUnifurcations", 4), ("CollapseBasal", 3), ("Deroot", 2), ("PolytomizeRoot", 2), ("Encode", 3),
    ("SetRooted", 3), ("SetUnrooted", 1),
    ("CollapseUnweighted", 4), ("EdgeCollapse", 5), ("CollapseClade", 3), ("ResolvePolytomies", 5),
    ("PruneSubtree", 6), ("FilterLeafNodes", 4), ("PruneLeavesWithoutTaxa", 3), ("PruneNodes", 2),
    ("PruneTaxa", 5), ("RetainTaxa", 4),
    ("Ladderize", 3), ("Reorder", 2), ("RandomlyRotate", 2), ("RandomlyReorient", 3), ("ShuffleTaxa", 2),
    ("RemoveChild", 6), ("NewChild", 5), ("InsertNewChild", 3), ("AddChild", 4), ("InsertChild", 4),
    ("SetChildNodes", 2), ("SetParentNode", 3),
    ("PruneTaxaLabels", 2), ("RetainTaxaLabels", 2), ("ExtractWithLabels", 1), ("ExtractWithoutLabels", 1),
    ("Refused", 12),
]

# wave 8: histories aimed at the error paths: about every second operation is one the API must refuse (gen_refused);
# the others are operations that walk parent pointers / re-attach detached subtrees, so that damage a refused call
# left behind shows in the NEXT operation as well
REFUSED_KINDS = [
    ("Refused", 30), ("PruneSubtree", 5), ("ReseedAt", 5), ("RerootAtNode", 3), ("RerootAtEdge", 3), ("ToOutgroup", 3),
    ("RemoveChild", 6), ("AddChild", 5), ("InsertChild", 3), ("SetParentNode", 3), ("EdgeCollapse", 3), ("Encode", 3),
    ("SuppressUnifurcations", 2), ("NewChild", 2), ("CollapseBasal", 1), ("PruneTaxa", 2),
]

# histories over a label pool with collisions: mostly the label-based selectors, a few structural ops in between
# (no Reorder: it sorts by label and the model ranks the default labels)
LABEL_KINDS = [
    ("PruneTaxaLabels", 8), ("RetainTaxaLabels", 8), ("ExtractWithLabels", 5), ("ExtractWithoutLabels", 5),
    ("PruneTaxa", 1), ("RetainTaxa", 1), ("ReseedAt", 2), ("SuppressUnifurcations", 1), ("NewChild", 3),
    ("PruneSubtree", 1), ("Ladderize", 1), ("Encode", 1), ("ShuffleTaxa", 1), ("RemoveChild", 1), ("Refused", 1),
]


# wave 7: histories aimed at the stored-encoding clause: mostly operations that take update_bipartitions (asked for
# with probability 0.85), between operations that change the rooting flag or leave unifurcations / polytomies behind
UB_KINDS = [
    ("ReseedAt", 5), ("RerootAtNode", 8), ("RerootAtEdge", 8), ("RerootAtMidpoint", 3), ("ToOutgroup", 5),
    ("SuppressUnifurcations", 6), ("CollapseUnweighted", 3), ("ResolvePolytomies", 3), ("PruneSubtree", 4),
    ("FilterLeafNodes", 2), ("PruneLeavesWithoutTaxa", 2), ("PruneNodes", 2), ("PruneTaxa", 3), ("RetainTaxa", 3),
    ("RandomlyReorient", 2),
    ("Encode", 5), ("SetRooted", 6), ("SetUnrooted", 1), ("Deroot", 1), ("NewChild", 3), ("RemoveChild", 3),
    ("EdgeCollapse", 2), ("CollapseBasal", 1), ("Refused", 3),
]


def detached_nodes(sess, live):
    """ids of the registered nodes inside the clean detached subtrees (the session's "other trees")"""
    name = {id(n): i for i, n in sess.reg.items()}
    out = []
    for d in sess.detached:
        stack = [sess.reg[d]]
        while stack and len(out) < 200:
            n = stack.pop()
            i = name.get(id(n))
            if i is not None and i not in live and i not in out:
                out.append(i)
                stack.extend(n._child_nodes)
    return out


def gen_refused(rng, sess, spec):
    """wave 8: an operation the API must REFUSE (a documented error on the argument): remove_child with a node that
    is not a child of the receiver (a child of another node / the receiver itself / the receiver's parent / the seed /
    a node of a detached subtree, i.e. of another tree), Edge.collapse of a leaf edge, to_outgroup_position /
    prune_subtree / reroot_at_edge of the seed (seed edge), add_child of the node itself or of its own parent,
    prune_nodes of a list that starts with the seed.  None when the state offers no such argument."""
    nodes = trees.preorder(spec)
    ids = [n["id"] for n in nodes]
    by = {n["id"]: n for n in nodes}
    pm = parent_map(spec)
    seed = spec["id"]
    nonseed = [i for i in ids if pm[i] is not None]
    leaves = [i for i in nonseed if not by[i]["kids"]]
    ub, su = rng.random() < 0.3, rng.random() < 0.5
    r = rng.random()
    if r < 0.6:
        sub = rng.choice(["other", "other", "other", "self", "parent", "seed", "foreign", "foreign"])
        if sub == "other":
            c = rng.choice(nonseed) if nonseed else None
            cand = [i for i in ids if c is not None and i != pm[c] and i != c]
            if not cand:
                return None
            # receivers that make the damage matter: the node's sibling, its grandparent, its own child, anything
            near = [i for i in cand if pm[i] == pm[c] or pm[pm[c]] == i or pm[i] == c]
            return ["RemoveChild", rng.choice(near) if near and rng.random() < 0.6 else rng.choice(cand), c, su]
        if sub == "self":
            x = rng.choice(ids)
            return ["RemoveChild", x, x, su]
        if sub == "parent":
            if not nonseed:
                return None
            x = rng.choice(nonseed)
            return ["RemoveChild", x, pm[x], su]
        if sub == "seed":
            return ["RemoveChild", rng.choice(ids), seed, su]
        det = detached_nodes(sess, set(ids))
        if not det:
            return None
        return ["RemoveChild", rng.choice(ids), rng.choice(det), su]
    if r < 0.68:
        return ["EdgeCollapse", rng.choice(leaves), B(rng)] if leaves else None
    if r < 0.76:
        return ["ToOutgroup", seed, ub, su]
    if r < 0.84:
        return ["PruneSubtree", seed, ub, su]
    if r < 0.88:
        return ["RerootAtEdge", seed, rng.choice(LENS), rng.choice(LENS), ub, su]
    if r < 0.96:
        x = rng.choice(ids)
        if pm[x] is not None and B(rng):
            return ["AddChild", x, pm[x]]
        return ["AddChild", x, x]
    rest = rng.sample(nonseed, min(len(nonseed), rng.randint(0, 2)))
    return ["PruneNodes", [seed] + rest, B(rng), ub, su]


def gen_op(rng, sess, spec, kinds=KINDS, allow_leaf_reseed=False, p_ub=0.3):
    """one op with valid arguments for the current state (spec = current dump), or None"""
    nodes = trees.preorder(spec)
    ids = [n["id"] for n in nodes]
    by = {n["id"]: n for n in nodes}
    pm = parent_map(spec)
    internal = [n["id"] for n in nodes if n["kids"]]
    leaves = [n["id"] for n in nodes if not n["kids"]]
    nonseed = [i for i in ids if pm[i] is not None]
    internal_nonseed = [i for i in internal if pm[i] is not None]
    ntaxa = len(sess.taxa)
    k = rng.choices([a for a, _ in kinds], [w for _, w in kinds])[0]
    ub = rng.random() < p_ub
    su = rng.random() < 0.6
    cb = rng.random() < 0.6
    if k == "Refused":
        return gen_refused(rng, sess, spec)
    if k == "ReseedAt":
        pool = ids if allow_leaf_reseed else (internal or ids[:1])
        return [k, rng.choice(pool), ub, cb, su]
    if k == "RerootAtNode":
        pool = ids if allow_leaf_reseed else (internal or ids[:1])
        return [k, rng.choice(pool), ub, su, cb]
    if k == "RerootAtEdge":
        if not nonseed:
            return None
        return [k, rng.choice(nonseed), rng.choice(LENS), rng.choice(LENS), ub, su]
    if k == "RerootAtMidpoint":
        lt = [by[i]["taxon"] for i in leaves]
        if len(leaves) < 2 or None in lt or len(set(lt)) != len(lt):
            return None
        # keep halves exact: every pairwise distance must be an even number of units
        for a, b in itertools.combinations(leaves, 2):
            if patristic_units(spec, a, b) % 2:
                return None
        return [k, ub, su, cb]
    if k == "ToOutgroup":
        if not nonseed:
            return None
        return [k, rng.choice(nonseed), ub, su]
    if k == "SuppressUnifurcations":
        return [k, rng.random() < max(0.5, p_ub)]
    if k == "Deroot":
        return [k]
    if k in ("CollapseBasal", "PolytomizeRoot"):
        return [k, B(rng)]
    if k == "Encode":
        return [k, su, cb]
    if k == "SetRooted":
        return [k, rng.choice([None, True, False])]
    if k == "SetUnrooted":
        return [k, B(rng)]
    if k == "CollapseUnweighted":
        return [k, rng.choice([0, 0, 256, 1024]), ub]
    if k == "EdgeCollapse":
        if not internal:
            return None
        return [k, rng.choice(internal), B(rng)]
    if k == "CollapseClade":
        return [k, rng.choice(ids)]
    if k == "ResolvePolytomies":
        return [k, rng.choice([2, 2, 3]), rng.choice([None, rng.randrange(10 ** 6)]), ub]
    if k == "PruneSubtree":
        if not nonseed:
            return None
        return [k, rng.choice(nonseed), ub, su]
    if k == "FilterLeafNodes":
        keep = [i for i in ids if rng.random() < 0.7]
        if not any(i in keep for i in leaves) and rng.random() < 0.8:
            keep.append(rng.choice(leaves))
        return [k, keep, B(rng), ub, su]
    if k == "PruneLeavesWithoutTaxa":
        return [k, B(rng), ub, su]
    if k == "PruneNodes":
        if not nonseed:
            return None
        # distinct nodes none of which is inside another's subtree
        cand = rng.sample(nonseed, min(len(nonseed), rng.randint(1, 3)))
        chosen = []
        for c in cand:
            sub = set(subtree_ids(by[c]))
            if not any(x in sub for x in chosen) and not any(c in subtree_ids(by[x]) for x in chosen):
                chosen.append(c)
        return [k, chosen, B(rng), ub, su]
    if k == "PruneTaxa":
        present = sorted(set(n["taxon"] for n in nodes if n["taxon"] is not None))
        pool = list(range(ntaxa))
        taxa = [x for x in pool if rng.random() < 0.3]
        return [k, taxa, ub, su, rng.random() < 0.9, rng.random() < 0.2]
    if k == "RetainTaxa":
        taxa = [x for x in range(ntaxa) if rng.random() < 0.7]
        return [k, taxa, ub, su]
    if k == "PruneTaxaLabels":
        return [k, gen_label_query(rng, sess, spec), ub, su, rng.random() < 0.9, rng.random() < 0.2]
    if k == "RetainTaxaLabels":
        return [k, gen_label_query(rng, sess, spec), ub, su]
    if k in ("ExtractWithLabels", "ExtractWithoutLabels"):
        return [k, gen_label_query(rng, sess, spec), su]
    if k in ("Ladderize", "Reorder"):
        return [k, B(rng)]
    if k == "RandomlyRotate":
        return [k, rng.randrange(10 ** 6)]
    if k == "RandomlyReorient":
        return [k, rng.randrange(10 ** 6), ub]
    if k == "ShuffleTaxa":
        return [k, B(rng), rng.randrange(10 ** 6)]
    if k == "RemoveChild":
        if not nonseed:
            return None
        c = rng.choice(nonseed)
        return [k, pm[c], c, B(rng)]
    if k == "NewChild":
        return [k, rng.choice(ids), rng.choice([None, rng.randrange(ntaxa)]), rng.choice([None, None, rng.randrange(50)]),
                rng.choice(LENS)]
    if k == "InsertNewChild":
        p = rng.choice(ids)
        return [k, p, rng.randint(0, len(by[p]["kids"]) + 1), rng.choice([None, rng.randrange(ntaxa)]),
                rng.choice([None, None, rng.randrange(50)]), rng.choice(LENS)]
    if k == "AddChild":
        if not sess.detached:
            return None
        return [k, rng.choice(ids), rng.choice(sess.detached)]
    if k == "InsertChild":
        p = rng.choice(ids)
        if sess.detached and B(rng):
            c = rng.choice(sess.detached)
        elif by[p]["kids"]:
            c = rng.choice(by[p]["kids"])["id"]      # move a child to another position
        else:
            return None
        return [k, p, rng.randint(0, len(by[p]["kids"]) + 1), c]
    if k == "SetChildNodes":
        if not internal:
            return None
        p = rng.choice(internal)
        ks = [c["id"] for c in by[p]["kids"]]
        rng.shuffle(ks)
        return [k, p, ks]
    if k == "SetParentNode":
        if not nonseed:
            return None
        c = rng.choice(nonseed)
        sub = set(subtree_ids(by[c]))
        cand = [i for i in ids if i not in sub]
        q = rng.choice(cand + [None])
        return [k, c, q]
    return None


def note_detached(sess, op, err, before, after):
    """bookkeeping of clean detached subtree roots (usable as arguments of AddChild/InsertChild)"""
    k = op[0]
    live = set(n["id"] for n in trees.preorder(after)) if after else set()
    sess.detached = [d for d in sess.detached if d not in live]
    if err is None and before is not None:
        gone = None
        if k == "RemoveChild" and not op[3]:
            gone = op[2]
        elif k == "PruneSubtree":
            gone = op[1]
        elif k == "SetParentNode" and op[2] is None:
            gone = op[1]
        if gone is not None and gone not in live:
            sess.detached.append(gone)


def gen_history(rng, spec, rooted, ntaxa, nops, kinds=KINDS, allow_leaf_reseed=False, labels=None, cs=None, p_ub=0.3):
    """runs the real library to draw arguments from the live state; returns the concrete op list"""
    sess = Session(spec, rooted, ntaxa, labels=labels, cs=cs)
    ops = []
    cur = spec
    try:
        tries = 0
        while len(ops) < nops and tries < nops * 6:
            tries += 1
            op = gen_op(rng, sess, cur, kinds, allow_leaf_reseed, p_ub)
            if op is None:
                continue
            err = None
            try:
                with core.alarm(10):
                    sess.apply(op)
            except Exception as e:
                err = core.exc_enum(e)
            try:
                snap = sess.snapshot(with_traversals=False)
            except ValueError:
                break                     # a length left the dyadic grid: stop the history before this op
            if op[0] == "RerootAtMidpoint":
                op = op[:4] + [sess.aux.get("pair")]
            ops.append(op)
            if snap["tree"] is None or snap["problems"]:
                break                     # ill-formed: the oracle will report it; do not build on it
            note_detached(sess, op, err, cur, snap["tree"])
            cur = snap["tree"]
    finally:
        sess.close()
    case = {"init": spec, "rooted": rooted, "ntaxa": ntaxa, "ops": ops}
    if labels is not None:
        case["labels"], case["cs"] = list(labels), bool(cs)
    return case


# --------------------------------------------------------------------------------------------
# observation of a case on the real library
# --------------------------------------------------------------------------------------------

def observe(case):
    sess = Session(case["init"], case["rooted"], case["ntaxa"], labels=case.get("labels"), cs=case.get("cs"))
    out = []
    try:
        for op in case["ops"]:
            err = None
            aux = {}
            wants_ub = UB_POS.get(op[0]) is not None and len(op) > UB_POS[op[0]] and op[UB_POS[op[0]]] is True
            if wants_ub:
                # the property speaks about trees whose encoding was current: make it so (no structural effect
                # with both flags off)
                try:
                    sess.tree.encode_bipartitions(suppress_unifurcations=False, collapse_unrooted_basal_bifurcation=False)
                except Exception:
                    wants_ub = False
            ptrs0 = sess.pointers()
            try:
                with core.alarm(10):
                    aux = sess.apply(op)
            except Exception as e:
                err = core.exc_enum(e)
                aux = dict(getattr(sess, "aux", {}))
                aux["msg"] = "%s: %s" % (type(e).__name__, str(e)[:100])
            snap = sess.snapshot()
            snap["err"] = err
            snap["aux"] = aux
            if err is not None:
                # a call that raised: the whole pointer structure before and after it (every registered node, also
                # the ones no longer / not reachable from the seed)
                snap["ptrs_before"], snap["ptrs"] = ptrs0, sess.pointers()
            if err is None and wants_ub and snap["tree"] is not None and not snap["problems"]:
                try:
                    snap["bip"] = sess.bip_check()
                except Exception as e:
                    snap["bip"] = "bipartition check raised %s" % type(e).__name__
                if not (op[0] == "PruneNodes" and not op[2] and not library_variant()[1]):   # flag ignored there before the repair
                    snap["enc"] = sess.enc_dump()
                skip = op[0] == "PruneNodes" and not op[2] and not library_variant()[1]
                if not snap["bip"] and not skip:
                    try:
                        snap["bipobj"], snap["bipalias"] = sess.bip_objects()
                    except Exception as e:
                        snap["bipalias"] = "object walk raised %s" % type(e).__name__
                    try:
                        # randomly_reorient re-draws the child orders AFTER the encoding (to_outgroup_position, then
                        # randomly_rotate): same objects and values, listed in the postorder of the tree before the
                        # rotation - the list is compared as a multiset there (observation, reported; not a finding)
                        snap["bipfresh"] = sess.bip_fresh(unordered=(op[0] == "RandomlyReorient"))
                    except Exception as e:
                        snap["bipfresh"] = "fresh encoding of a copy raised %s: %s" % (type(e).__name__, str(e)[:80])
            elif err is None and op[0] == "Encode" and snap["tree"] is not None and not snap["problems"]:
                # the encoding operation itself: object level only (it IS the fresh encoding)
                try:
                    snap["bipobj"], snap["bipalias"] = sess.bip_objects()
                except Exception as e:
                    snap["bipalias"] = "object walk raised %s" % type(e).__name__
            out.append(snap)
            if snap["tree"] is None or snap["problems"]:
                break
    finally:
        sess.close()
    return out


# position of the update_bipartitions flag in the op forms
UB_POS = {"SuppressUnifurcations": 1, "ReseedAt": 2, "ToOutgroup": 2, "RerootAtNode": 2, "RerootAtEdge": 4, "RerootAtMidpoint": 1,
          "CollapseUnweighted": 2, "ResolvePolytomies": 3, "PruneSubtree": 2, "FilterLeafNodes": 3,
          "PruneLeavesWithoutTaxa": 2, "PruneNodes": 3, "PruneTaxa": 2, "RetainTaxa": 2, "RandomlyReorient": 2,
          "PruneTaxaLabels": 2, "RetainTaxaLabels": 2}


# --------------------------------------------------------------------------------------------
# oracle: the property stated naively on the implementation's observations
# --------------------------------------------------------------------------------------------

# exceptions the code raises on purpose (explicit raise/assert with a message) or argument-domain errors
def documented(op, err, before):
    k = op[0]
    by = {n["id"]: n for n in trees.preorder(before)}
    pm = parent_map(before)
    if k in ("RemoveChild", "EdgeCollapse") and op[1] not in by:
        return False
    if k == "PruneSubtree" and err == "TypeErr":
        return op[1] == before["id"]
    if k in ("FilterLeafNodes", "PruneLeavesWithoutTaxa", "PruneTaxa", "RetainTaxa", "PruneNodes") and err == "OtherErr":
        # SeedNodeDeletionException (filter_leaf_nodes raises it today; the other members of the family would
        # after the repair proposed for key prune-reaches-seed-attribute-error) or prune_nodes' explicit Exception
        return True
    if k == "RemoveChild" and err == "ValueErr":
        return op[2] not in [c["id"] for c in by[op[1]]["kids"]]
    if k == "EdgeCollapse" and err == "ValueErr":
        return not by[op[1]]["kids"]
    if k == "ToOutgroup" and err == "AssertErr":
        return op[1] == before["id"]
    if k == "RerootAtEdge" and err == "AttrErr":
        return op[1] == before["id"]                        # the seed's edge is not an edge of the tree
    if k == "RerootAtMidpoint" and err in ("TypeErr", "AssertErr"):
        # needs edge lengths: None on the path / single leaf
        return any(n["len"] is None for n in trees.preorder(before) if n["id"] != before["id"]) \
            or len(trees.leaves(before)) < 2
    if k in ("AddChild", "NewChild") and err == "AssertErr":
        # "assert node is not self" / "assert self._parent_node is not node"
        return (op[1] == op[2] or (op[1] in pm and pm[op[1]] == op[2])) if k == "AddChild" else False
    if k == "PruneNodes" and err == "OtherErr":
        return before["id"] in op[1]
    if k == "ShuffleTaxa" and err == "AssertErr":
        tx = [n["taxon"] for n in trees.preorder(before) if n["taxon"] is not None]
        return len(set(tx)) != len(tx)                       # the same taxon on two nodes
    if k == "RandomlyReorient" and err == "AssertErr":
        return len(by) == 1                                  # to_outgroup_position on the only node
    return False


def refusal(op, before):
    """wave 8: argument classes that the API refuses AT ENTRY with a documented error (explicit raise / assert on the
    argument before anything is written): (expected exception, class name) or None.  For these the oracle demands the
    exception AND an unchanged pointer structure (every registered node)."""
    k = op[0]
    by = {n["id"]: n for n in trees.preorder(before)}
    pm = parent_map(before)
    seed = before["id"]
    if k == "RemoveChild" and op[1] in by and op[2] not in [c["id"] for c in by[op[1]]["kids"]]:
        c = op[2]
        sub = ("self" if c == op[1] else "own-parent" if pm.get(op[1]) == c else "seed" if c == seed else
               "child-of-another-node" if c in by else "node-not-in-tree")
        return "ValueErr", "remove_child-non-child:" + sub
    if k == "EdgeCollapse" and op[1] in by and op[1] != seed and not by[op[1]]["kids"]:
        return "ValueErr", "edge-collapse-leaf"
    if k == "ToOutgroup" and op[1] == seed:
        return "AssertErr", "to_outgroup-seed"
    if k == "PruneSubtree" and op[1] == seed:
        return "TypeErr", "prune_subtree-seed"
    if k == "RerootAtEdge" and op[1] == seed:
        return "AttrErr", "reroot_at_edge-seed-edge"
    if k == "AddChild" and op[1] in by and (op[2] == op[1] or pm.get(op[1]) == op[2]):
        return "AssertErr", "add_child-" + ("self" if op[2] == op[1] else "own-parent")
    if k == "PruneNodes" and op[1] and op[1][0] == seed:
        return "OtherErr", "prune_nodes-seed-first"
    return None


def ptr_diff(a, b):
    """what differs between two Session.pointers() dumps, as text"""
    out = []
    for f in ("seed", "rooted"):
        if a[f] != b[f]:
            out.append("tree.%s %s -> %s" % (f, a[f], b[f]))
    ra = {r[0]: r for r in a["nodes"]}
    rb = {r[0]: r for r in b["nodes"]}
    fields = ("", "_parent_node", "_child_nodes", "edge.head_node", "edge.tail_node", "edge.length", "taxon")
    for i in sorted(set(ra) | set(rb)):
        if i not in ra or i not in rb:
            out.append("node %d %s" % (i, "created" if i not in ra else "no longer registered"))
            continue
        for j in range(1, 7):
            if ra[i][j] != rb[i][j]:
                out.append("node %d %s %s -> %s" % (i, fields[j], ra[i][j], rb[i][j]))
    return out


def documented_extract(op, err, before, labels, cs):
    """extract_subtree raises SeedNodeDeletionException / a bare ValueError (explicit raises) when no leaf of the
    source passes the filter"""
    des = set(designated(labels, cs, op[1]))
    keep = [n for n in trees.leaves(before)
            if n["taxon"] is None or ((n["taxon"] in des) == (op[0] == "ExtractWithLabels"))]
    return err in ("OtherErr", "ValueErr") and not keep


def expected_leaf_taxa(op, before):
    """multiset of leaf taxa the operation should leave, or None when the op is not a pure
    remover/keeper (adding children, taxon shuffles are handled separately)"""
    k = op[0]
    by = {n["id"]: n for n in trees.preorder(before)}
    cur = leaf_taxa(before)
    if k in ("PruneSubtree", "RemoveChild"):
        c = op[1] if k == "PruneSubtree" else op[2]
        if c not in by or by[c] is before:
            return cur
        rm = leaf_taxa(by[c])
        out = list(cur)
        for x in rm:
            out.remove(x)
        return out
    if k == "PruneNodes":
        out = list(cur)
        for c in op[1]:
            if c in by and by[c] is not before:
                for x in leaf_taxa(by[c]):
                    if x in out:
                        out.remove(x)
        return out
    if k == "PruneTaxa":
        if not op[4]:
            return cur if not op[5] else None
        return [x for x in cur if x not in set(op[1])]
    if k == "RetainTaxa":
        return [x for x in cur if x in set(op[1])]
    if k == "FilterLeafNodes":
        keep = set(op[1])
        return sorted(n["taxon"] for n in trees.leaves(before) if n["taxon"] is not None and n["id"] in keep)
    if k in ("NewChild", "InsertNewChild", "AddChild", "InsertChild", "SetParentNode", "SetChildNodes"):
        return None
    if k in ("ReseedAt", "RerootAtNode", "ToOutgroup", "RandomlyReorient"):
        return None if k == "RandomlyReorient" else cur
    return cur


def outgroup_class(op, snap, before):
    """to_outgroup_position(og) (directly or through randomly_reorient) on a tree with unifurcations: which
    of the two known failure classes does the argument fall in?  returns key or None"""
    og = None
    if op[0] == "ToOutgroup" and op[3]:
        og = op[1]
    elif op[0] == "RandomlyReorient":
        pick = next((e[1][0] for e in (snap.get("aux") or {}).get("script", []) if e[0] == "sample"), None)
        pre = [n["id"] for n in trees.preorder(before)]
        if pick is not None and pick < len(pre):
            og = pre[pick]
    by = {n["id"]: n for n in trees.preorder(before)}
    if og is None or og not in by or og == before["id"]:
        return None
    if op[0] == "RandomlyReorient" and by[og]["kids"]:
        return None
    if len(by[og]["kids"]) == 1:
        return "to_outgroup-outgroup-is-unifurcation"
    if parent_map(before)[og] == before["id"] and len(before["kids"]) == 1:
        return "to_outgroup-parent-is-unifurcation-seed"
    return None


def problem_kinds(problems):
    kinds = set()
    for p in problems:
        if "seed node has a parent" in p:
            kinds.add("seed-has-parent")
        elif "reached twice" in p:
            kinds.add("shared")
        elif "parent pointer" in p:
            kinds.add("parent-mismatch")
        elif "edge.head_node" in p:
            kinds.add("edge-head")
        elif "edge.tail_node" in p:
            kinds.add("edge-tail")
        elif "does not terminate" in p:
            kinds.add("walk-diverges")
        else:
            kinds.add("other")
    return "+".join(sorted(kinds))


def outcome_tag(snap):
    """the observed failure mode: how the call ended and in what state it left the tree.  A known-finding key is
    <argument class>:<outcome tag>, so any OTHER outcome on the same argument class has an unlisted key"""
    how = "returned" if snap["err"] is None else snap["err"]
    if snap["tree"] is None or snap["problems"]:
        return "%s-%s" % (how, problem_kinds(snap["problems"]))
    return "%s-wellformed" % how


# keys used before they carried the outcome: accepted only for exactly the outcome the unchanged library shows
LEGACY_KEYS = {
    "add_child-attached-node:returned-parent-mismatch+shared": "ill-formed:add_child-attached-node",
    "insert_child-attached-node:returned-parent-mismatch+shared": "ill-formed:insert_child-attached-node",
    "set_child_nodes-attached-node:returned-parent-mismatch+shared": "ill-formed:set_child_nodes-attached-node",
    "to_outgroup-parent-is-unifurcation-seed:returned-seed-has-parent": "to_outgroup-parent-is-unifurcation-seed",
    "to_outgroup-outgroup-is-unifurcation:ValueErr-wellformed": "to_outgroup-outgroup-is-unifurcation",
    "prune-reaches-seed:AttrErr-wellformed": "prune-reaches-seed-attribute-error",
    "prune_nodes-ignores-update_bipartitions:returned-wellformed-stale-masks": "prune_nodes-ignores-update_bipartitions",
}


def final_key(key):
    known = core.load_known("C03")
    if key in known or key not in LEGACY_KEYS:
        return key
    return LEGACY_KEYS[key] if LEGACY_KEYS[key] in known else key


def oracle_extract(op, snap, before, labels, cs, where):
    """extract_tree_with(out)_taxa_labels: self untouched (checked by the caller through the leaf-taxa clause and
    the model), the NEW tree well formed, in the same namespace, and its leaf taxa are exactly the leaf taxa of
    self that the labels designate (with) / do not designate (without)"""
    ex = (snap.get("aux") or {}).get("extract")
    name = op[0]
    if snap["err"] is not None or ex is None:
        return None
    if ex.get("is_self") or not ex.get("same_namespace"):
        return ("%s the extracted tree %s" % (where, "is the tree itself" if ex.get("is_self") else
                                              "is not in the namespace of the source tree"), "extract-namespace:" + name)
    if ex.get("tree", 0) is None:
        return ("%s the extracted tree has no seed node" % where, "extract-no-seed:" + name)
    if ex["problems"]:
        return ("%s the extracted tree is not a well-formed arborescence: %s" % (where, "; ".join(ex["problems"][:3])),
                "ill-formed-extract:" + name)
    if ex.get("foreign_taxa"):
        return ("%s the extracted tree carries taxa that are not in the namespace" % where, "extract-foreign-taxa:" + name)
    if internal_with_taxon(before) or ex.get("internal_taxon"):
        return None
    des = set(designated(labels, cs, op[1]))
    cur = leaf_taxa(before)
    want = [x for x in cur if (x in des) == (name == "ExtractWithLabels")]
    if sorted(ex["leaf_taxa"]) != sorted(want):
        return ("%s leaf taxa of the extracted tree are %s; the labels %s designate taxa %s (labels of the namespace: %s, "
                "case sensitive: %s), so it should have %s" % (where, sorted(ex["leaf_taxa"]), op[1], sorted(des),
                                                                labels, cs, sorted(want)), "leaf-taxa:" + name)
    return None


def oracle_steps(case, obs, probe_key=None):
    before = case["init"]
    labels, cs = case_labels(case)
    flag_after = case["rooted"]
    for step, (op, snap) in enumerate(zip(case["ops"], obs)):
        flag_before, flag_after = flag_after, snap.get("rooted")
        name = op[0]
        lop = op
        op = equiv_op(op, labels, cs)      # label-based selectors are judged as the taxon-based op on the designated taxa
        ename = op[0]
        where = "after step %d %s" % (step, json.dumps(lop)[:160])
        key = probe_key or name
        if (snap["problems"] or snap["err"] == "ValueErr") and not probe_key:
            oc = outgroup_class(op, snap, before)
            if oc:
                what = ("; ".join(snap["problems"][:2]) if snap["problems"]
                        else "raised %s" % (snap["aux"].get("msg")))
                return ("%s to_outgroup_position with suppress_unifurcations=True: the unifurcation suppression "
                        "inside reseed_at deleted %s before the outgroup was repositioned: %s"
                        % (where, "the outgroup node" if "outgroup-is" in oc else "the outgroup's parent (the seed)", what),
                        "%s:%s" % (oc, outcome_tag(snap)))
        # wave 8: a refused operation changes nothing (the whole pointer structure, every registered node)
        rf = None if probe_key else refusal(op, before)
        if rf:
            if snap["err"] is None:
                return ("%s the call returned although its argument is in the refused class %s (documented: %s)"
                        % (where, rf[1], rf[0]), "not-refused:%s:%s" % (name, rf[1]))
            d = ptr_diff(snap["ptrs_before"], snap["ptrs"]) if snap.get("ptrs") is not None else []
            if d:
                return ("%s the call was refused (%s) but did not leave the objects as they were: %s"
                        % (where, snap["aux"].get("msg"), "; ".join(d[:4])),
                        "refused-op-changed-state:%s:%s" % (name, rf[1]))
        if snap["tree"] is None:
            return ("%s: %s" % (where, snap["problems"][0]),
                    ("%s:%s" % (probe_key, outcome_tag(snap))) if probe_key else "cyclic:" + key)
        if snap["problems"]:
            return ("%s the tree is not a well-formed arborescence: %s" % (where, "; ".join(snap["problems"][:3])),
                    ("%s:%s" % (probe_key, outcome_tag(snap))) if probe_key else "ill-formed:" + key)
        after = snap["tree"]
        ids = [n["id"] for n in trees.preorder(after)]
        if len(set(ids)) != len(ids):
            return ("%s a node is reachable twice" % where, "shared:" + key)
        trav = snap.get("trav") or {}
        want = {"preorder": ids, "postorder": [n["id"] for n in trees.postorder(after)],
                "leaf": [n["id"] for n in trees.leaves(after)], "levelorder": ids}
        for tn, got in trav.items():
            if not isinstance(got, list) or sorted(got) != sorted(want[tn]):
                return ("%s %s traversal visits %s, reachable nodes are %s" % (where, tn, got, sorted(want[tn])),
                        "traversal-%s:%s" % (tn, key))
        if snap.get("selfcheck"):
            return ("%s Tree._debug_tree_is_valid fails: %s" % (where, snap["selfcheck"]), "selfcheck:" + key)
        err = snap["err"]
        if err == "Hang":
            return ("%s the call did not return within 10 s" % where, "hang:" + key)
        if err is not None and not (documented_extract(lop, err, before, labels, cs) if name.startswith("Extract")
                                    else documented(op, err, before)):
            if err == "AttrErr" and ename in ("PruneTaxa", "RetainTaxa", "PruneLeavesWithoutTaxa", "PruneNodes") \
                    and "remove_child" in (snap["aux"].get("msg") or ""):
                return ("%s raised AttributeError ('NoneType' object has no attribute 'remove_child') because the "
                        "node to prune is the seed (every leaf pruned, or the seed's own taxon selected), instead of "
                        "a documented error such as filter_leaf_nodes' SeedNodeDeletionException" % where,
                        "prune-reaches-seed:%s" % outcome_tag(snap))
            return ("%s raised an undocumented %s (%s)" % (where, err, snap["aux"].get("msg")),
                    "undocumented-%s:%s" % (err, key))
        # leaf taxa multiset
        tainted = internal_with_taxon(before) or internal_with_taxon(after)
        exp = expected_leaf_taxa(op, before)
        if name in ("ExtractWithLabels", "ExtractWithoutLabels"):
            v = oracle_extract(lop, snap, before, labels, cs, where)
            if v:
                return v
        leafreseed = name in ("ReseedAt", "RerootAtNode") and not next(
            n for n in trees.preorder(before) if n["id"] == op[1])["kids"]
        if exp is not None and not tainted and not leafreseed:
            got = leaf_taxa(after)
            ok = (got == sorted(exp)) if err is None else (all(got.count(x) <= leaf_taxa(before).count(x) for x in got))
            if not ok:
                extra = ""
                if name in LABEL_OPS:
                    extra = " (labels %s designate taxa %s; labels of the namespace: %s, case sensitive: %s)" % (
                        lop[1], op[1], labels, cs)
                return ("%s leaf taxa are %s, the operation was asked to leave %s%s" % (where, got, sorted(exp), extra),
                        "leaf-taxa:" + key)
        if name == "ShuffleTaxa" and err is None and leaf_taxa(after) != leaf_taxa(before) and not op[1]:
            return ("%s shuffle_taxa changed the multiset of leaf taxa" % where, "leaf-taxa:" + key)
        if snap.get("bip"):
            if ename == "PruneNodes" and not op[2]:
                return ("%s prune_nodes(prune_leaves_without_taxa=False) ignores update_bipartitions=True: %s"
                        % (where, snap["bip"]), "prune_nodes-ignores-update_bipartitions:%s-stale-masks" % outcome_tag(snap))
            return ("%s update_bipartitions=True: %s" % (where, snap["bip"]), "bipartitions-stale:" + key)
        if snap.get("bipalias"):
            return ("%s %s: %s" % (where, "encode_bipartitions" if name == "Encode" else "update_bipartitions=True",
                                   snap["bipalias"]), "bipartition-object-shared:" + key)
        if snap.get("bipfresh"):
            return ("%s update_bipartitions=True (is_rooted before the call: %s): %s" % (where, flag_before, snap["bipfresh"]),
                    "bipartitions-not-fresh:" + key)
        before = after
    return None


def oracle(case, obs):
    v = oracle_steps(case, obs, case.get("probe"))
    return None if v is None else (v[0], final_key(v[1]))


# --------------------------------------------------------------------------------------------
# Coq terms
# --------------------------------------------------------------------------------------------

def oz(x):
    return copt(x, cz)


def ob(x):
    return copt(x, cbool)


def zl(l):
    return clist([cz(x) for x in l])


def nl(l):
    return clist([cnat(x) for x in l])


def label_ranks(ntaxa):
    """taxon index -> rank (>=1) of its label 't<i>' in Python string order"""
    order = sorted(range(ntaxa), key=lambda i: "t%d" % i)
    return {t: r + 1 for r, t in enumerate(order)}


def c_op(op, aux, ntaxa):
    k = op[0]
    a = op[1:]
    if k == "AddChild":
        return "(OAddChild %s %s)" % (cz(a[0]), cz(a[1]))
    if k == "InsertChild":
        return "(OInsertChild %s %s %s)" % (cz(a[0]), cnat(a[1]), cz(a[2]))
    if k == "NewChild":
        return "(ONewChild %s %s %s %s)" % (cz(a[0]), oz(a[1]), oz(a[2]), oz(a[3]))
    if k == "InsertNewChild":
        return "(OInsertNewChild %s %s %s %s %s)" % (cz(a[0]), cnat(a[1]), oz(a[2]), oz(a[3]), oz(a[4]))
    if k == "RemoveChild":
        return "(ORemoveChild %s %s %s)" % (cz(a[0]), cz(a[1]), cbool(a[2]))
    if k == "SetChildNodes":
        return "(OSetChildNodes %s %s)" % (cz(a[0]), zl(a[1]))
    if k == "SetParentNode":
        return "(OSetParentNode %s %s)" % (cz(a[0]), oz(a[1]))
    if k == "CollapseClade":
        return "(OCollapseClade %s)" % cz(a[0])
    if k == "EdgeCollapse":
        return "(OEdgeCollapse %s %s)" % (cz(a[0]), cbool(a[1]))
    if k == "EdgeInvert":
        return "(OEdgeInvert %s)" % cz(a[0])
    if k == "SetRooted":
        return "(OSetRooted %s)" % ob(a[0])
    if k == "SetUnrooted":
        return "(OSetUnrooted %s)" % cbool(a[0])
    if k == "Deroot":
        return "ODeroot"
    if k == "CollapseBasal":
        return "(OCollapseBasal %s)" % cbool(a[0])
    if k == "PolytomizeRoot":
        return "(OPolytomizeRoot %s)" % cbool(a[0])
    if k == "Encode":
        return "(OEncode %s %s)" % (cbool(a[0]), cbool(a[1]))
    if k == "ReseedAt":
        return "(OReseedAt %s %s %s %s)" % (cz(a[0]), cbool(a[1]), cbool(a[2]), cbool(a[3]))
    if k == "ToOutgroup":
        return "(OToOutgroup %s %s %s)" % (cz(a[0]), cbool(a[1]), cbool(a[2]))
    if k == "RerootAtNode":
        return "(ORerootAtNode %s %s %s %s)" % (cz(a[0]), cbool(a[1]), cbool(a[2]), cbool(a[3]))
    if k == "RerootAtEdge":
        return "(ORerootAtEdge %s %s %s %s %s)" % (cz(a[0]), oz(a[1]), oz(a[2]), cbool(a[3]), cbool(a[4]))
    if k == "RerootAtMidpoint":
        pair = aux.get("pair") or [-1, -1]
        return "(ORerootAtMidpoint %s %s %s %s %s)" % (cz(pair[0]), cz(pair[1]), cbool(a[0]), cbool(a[1]), cbool(a[2]))
    if k == "SuppressUnifurcations":
        return "OSuppressUnifurcations"
    if k == "CollapseUnweighted":
        return "(OCollapseUnweighted %s %s)" % (cz(a[0]), cbool(a[1]))
    if k == "ResolvePolytomies":
        if a[1] is None:
            sc = "None"
        else:
            # log = per polytomy: one sample, then one choice per attached child
            per = []
            for ent in aux.get("script", []):
                if ent[0] == "sample":
                    per.append([ent[1], []])
                elif ent[0] == "choice":
                    per[-1][1].append(ent[1])
            sc = "(Some %s)" % clist([cpair(nl(s), nl(c)) for s, c in per])
        return "(OResolvePolytomies %s %s %s)" % (cz(a[0]), sc, cbool(a[2]))
    if k == "PruneSubtree":
        return "(OPruneSubtree %s %s %s)" % (cz(a[0]), cbool(a[1]), cbool(a[2]))
    if k == "FilterLeafNodes":
        return "(OFilterLeafNodes %s %s %s %s)" % (zl(a[0]), cbool(a[1]), cbool(a[2]), cbool(a[3]))
    if k == "PruneLeavesWithoutTaxa":
        return "(OPruneLeavesWithoutTaxa %s %s %s)" % (cbool(a[0]), cbool(a[1]), cbool(a[2]))
    if k == "PruneNodes":
        return "(OPruneNodes %s %s %s %s)" % (zl(a[0]), cbool(a[1]), cbool(a[2]), cbool(a[3]))
    if k == "PruneTaxa":
        return "(OPruneTaxa %s %s %s %s %s)" % (zl(a[0]), cbool(a[1]), cbool(a[2]), cbool(a[3]), cbool(a[4]))
    if k == "RetainTaxa":
        return "(ORetainTaxa %s %s %s %s)" % (zl(range(ntaxa)), zl(a[0]), cbool(a[1]), cbool(a[2]))
    if k == "Ladderize":
        return "(OLadderize %s)" % cbool(a[0])
    if k == "Reorder":
        rk = label_ranks(ntaxa)
        return "(OReorder %s %s)" % (cbool(a[0]), clist([cpair(cz(t), cz(r)) for t, r in sorted(rk.items())]))
    if k == "RandomlyRotate":
        perms = [e[1] for e in aux.get("script", []) if e[0] == "shuffle"]
        return "(ORandomlyRotate %s)" % clist([nl(p) for p in perms])
    if k == "RandomlyReorient":
        log = aux.get("script", [])
        pick = next((e[1][0] for e in log if e[0] == "sample"), 0)
        perms = [e[1] for e in log if e[0] == "shuffle"]
        return "(ORandomlyReorient %s %s %s)" % (cnat(pick), clist([nl(p) for p in perms]), cbool(a[1]))
    if k == "ShuffleTaxa":
        draws = [e[1] for e in aux.get("script", []) if e[0] == "randrange"]
        return "(OShuffleTaxa %s %s)" % (cbool(a[0]), nl(draws))
    raise ValueError(op)


_VARIANT = {}


def library_variant():
    """which form the repaired sites have in the library under test (probed once per process):
    (seed guard raises SeedNodeDeletionException, prune_nodes honours its flags, to_outgroup_position re-orders first)"""
    if "v" not in _VARIANT:
        import dendropy
        from dendropy.utility import error as dperr
        t = dendropy.Tree.get(data="(A,B)r;", schema="newick")
        try:
            t.prune_taxa_with_labels(["A", "B"])
            guard = False
        except dperr.SeedNodeDeletionException:
            guard = True
        except Exception:
            guard = False
        t = dendropy.Tree.get(data="((A,B)x,(C,D)y)r;", schema="newick")
        t.prune_nodes([t.find_node_with_taxon_label("A")], suppress_unifurcations=True)
        tail = all(len(n._child_nodes) != 1 for n in t.preorder_node_iter())
        # to_outgroup_position: outgroup moved to the front BEFORE reseed_at (repair 1c81f78b)?  With the old order a
        # one-child outgroup is suppressed inside reseed_at and remove_child then raises ValueError
        t = dendropy.Tree.get(data="(((A:1):2,B:2):3,C:1);", schema="newick")
        og = [n for n in t.preorder_node_iter() if len(n._child_nodes) == 1][0]
        try:
            t.to_outgroup_position(og, suppress_unifurcations=True)
            ogfirst = t.seed_node._parent_node is None
        except Exception:
            ogfirst = False
        _VARIANT["v"] = (guard, tail, ogfirst)
    return _VARIANT["v"]


def oenc(x):
    return 0 if x is None else 2 * x + 1


def enc_tree(t, out=None):
    out = [] if out is None else out
    out.extend([t["id"], len(t["kids"]), oenc(t["len"]), oenc(t["taxon"]), oenc(t["label"])])
    for k in t["kids"]:
        enc_tree(k, out)
    return out


def zflat(l):
    return "[" + ";".join(str(x) if x >= 0 else "(%d)" % x for x in l) + "]"


def c_case(case, obs):
    steps = []
    labels, cs = case_labels(case)
    for op, snap in zip(case["ops"], obs):
        if snap["tree"] is None or snap["problems"]:
            break                 # ill-formed states are the oracle's business; the model stops here
        if op[0] in ("ExtractWithLabels", "ExtractWithoutLabels"):
            continue              # builds a new tree, self is not touched (the next step's dump shows it): oracle only
        # label-based selectors: the model runs the taxon-based op on the taxa the labels designate
        op = equiv_op(op, labels, cs)
        enc = snap.get("enc")
        c_enc = "None" if enc is None else "(Some [%s])" % ";".join("(%d,%d)" % (a, b) if a >= 0 else "((%d),%d)" % (a, b)
                                                                    for a, b in enc)
        incr = op[0] == "SuppressUnifurcations" and len(op) > 1 and bool(op[1])
        bo = snap.get("bipobj")
        c_obj = "None" if bo is None else "(Some ([%s], %s))" % (";".join(zflat(e) for e in bo["edges"]), zflat(bo["enc"]))
        # wave 8: after a call that raised, every registered node's parent pointer and child list (all ids are
        # registered ones: otherwise no claim)
        pt = snap.get("ptrs")
        c_ptrs = "None"
        if pt is not None and all(r[1] != -1 and -1 not in r[2] for r in pt["nodes"]):
            c_ptrs = "(Some [%s])" % ";".join("(%d,(%d,%s))" % (r[0], oenc(r[1]), zflat(r[2])) for r in pt["nodes"])
        steps.append("(mkStep %s %s %s %s %s %s %s %s)" % (c_op(op, snap["aux"], case["ntaxa"]),
                                                           "None" if snap["err"] is None else "(Some %s)" % snap["err"],
                                                           zflat(enc_tree(snap["tree"])), ob(snap["rooted"]),
                                                           cbool(incr), c_enc, c_obj, c_ptrs))
    g, tl, ogf = library_variant()
    return "(mkCase (mkVariants %s %s %s) %s %s %s)" % (cbool(g), cbool(tl), cbool(ogf), trees.c_tree(case["init"]),
                                                       ob(case["rooted"]), clist(steps))


def to_coq(case, obs):
    if case.get("probe"):
        # probes are judged by the oracle only (the resulting state may be cyclic)
        return "(mkCase (mkVariants false false false) %s %s [])" % (trees.c_tree(case["init"]), ob(case["rooted"]))
    return c_case(case, obs)


# --------------------------------------------------------------------------------------------
# case generators
# --------------------------------------------------------------------------------------------

def random_case(rng, max_leaves, max_ops, label_pool=None):
    n = rng.randint(1, max_leaves) if rng.random() < 0.9 else rng.randint(1, 3)
    lengths = rng.choice(["dyadic", "dyadic", "int", "mixed", "none", "positive", "unit"])
    spec = trees.gen_tree(rng, n, lengths=lengths, unifurcations=rng.choice([0.0, 0.0, 0.15]),
                          internal_labels=rng.choice([0.0, 0.3]))
    if rng.random() < 0.15:
        # some leaves without taxon
        for lf in trees.leaves(spec):
            if rng.random() < 0.3:
                lf["taxon"] = None
    if rng.random() < 0.1:
        spec["len"] = None
    rooted = rng.choice([None, True, False])
    ntaxa = n + rng.randint(0, 2)
    if label_pool is None:
        label_pool = rng.random() < 0.12
    if label_pool:
        # a namespace in which several taxa answer to one label (duplicates, labels differing only in case, with the
        # namespace case sensitive or not): histories of mostly label-based selectors
        labels, cs = gen_label_pool(rng, ntaxa)
        return gen_history(rng, spec, rooted, ntaxa, rng.randint(1, min(max_ops, 6)), kinds=LABEL_KINDS,
                           labels=labels, cs=cs)
    # reseed_at / reroot_at_node at a LEAF is outside the documented domain (F19) but must still leave a
    # well-formed tree: exercised in a third of the histories
    return gen_history(rng, spec, rooted, ntaxa, rng.randint(1, max_ops), allow_leaf_reseed=rng.random() < 0.33)


def ub_case(rng, max_leaves=8, max_ops=4, rooted=Ellipsis):
    """wave 7: a short history of mostly update_bipartitions=True operations (see UB_KINDS) from a tree in each of
    the three rooting states; unifurcations in half of the starting trees"""
    n = rng.randint(2, max_leaves)
    spec = trees.gen_tree(rng, n, lengths=rng.choice(["dyadic", "int", "unit", "positive"]),
                          unifurcations=rng.choice([0.0, 0.2]), internal_labels=0.0)
    if rooted is Ellipsis:
        rooted = rng.choice([None, True, False])
    return gen_history(rng, spec, rooted, n + rng.randint(0, 1), rng.randint(1, max_ops), kinds=UB_KINDS, p_ub=0.85)


def refused_case(rng, max_leaves=8, max_ops=6):
    """wave 8: a history in which about half of the operations are refused ones (REFUSED_KINDS)"""
    n = rng.randint(2, max_leaves)
    spec = trees.gen_tree(rng, n, lengths=rng.choice(["dyadic", "int", "unit", "none", "mixed"]),
                          unifurcations=rng.choice([0.0, 0.0, 0.2]), internal_labels=0.0)
    return gen_history(rng, spec, rng.choice([None, True, False]), n + rng.randint(0, 1), rng.randint(2, max_ops),
                       kinds=REFUSED_KINDS, allow_leaf_reseed=rng.random() < 0.2)


def probe_cases():
    """operations outside the guarded domain, exercised separately and judged by the oracle alone"""
    out = []
    shape = [[[], []], [[], []]]
    for rooted in (None, True):
        spec = trees.shape_to_tree(shape, lengths=lambda r: 1024)
        # ids: 0 root, 1 (2 3), 4 (5 6)
        out.append({"init": spec, "rooted": rooted, "ntaxa": 4, "ops": [["AddChild", 4, 2]],
                    "probe": "add_child-attached-node"})
        out.append({"init": spec, "rooted": rooted, "ntaxa": 4, "ops": [["InsertChild", 4, 0, 2]],
                    "probe": "insert_child-attached-node"})
        out.append({"init": spec, "rooted": rooted, "ntaxa": 4, "ops": [["SetChildNodes", 4, [5, 6, 2]]],
                    "probe": "set_child_nodes-attached-node"})
    return out


def small_scope_cases(max_leaves, depth, rng, per_state=None):
    """every shape with <= max_leaves leaves x every op sequence of the given depth over the alphabet
    `alphabet(state)`; yields cases (ops are concrete)"""
    for n in range(1, max_leaves + 1):
        for shape in trees.all_shapes(n):
            for rooted in (None, True, False):
                spec = trees.shape_to_tree(shape, lengths=lambda r: r.choice([512, 1024, 2048]), rng=random.Random(n))
                for seq in enum_histories(spec, rooted, n, depth, rng, per_state):
                    yield {"init": spec, "rooted": rooted, "ntaxa": n, "ops": seq}


def alphabet(spec, ntaxa, detached):
    nodes = trees.preorder(spec)
    pm = parent_map(spec)
    ids = [n["id"] for n in nodes]
    by = {n["id"]: n for n in nodes}
    internal = [i for i in ids if by[i]["kids"]]
    ops = [["SuppressUnifurcations", False], ["SuppressUnifurcations", True], ["Deroot"], ["Ladderize", True], ["Ladderize", False], ["Reorder", False],
           ["Encode", True, True], ["Encode", False, False], ["CollapseUnweighted", 512, False], ["ResolvePolytomies", 2, None, False],
           ["ResolvePolytomies", 2, 7, False], ["PruneLeavesWithoutTaxa", True, False, True],
           ["RandomlyRotate", 3], ["RandomlyReorient", 5, False], ["ShuffleTaxa", False, 11], ["SetRooted", True],
           ["SetRooted", False], ["PolytomizeRoot", True]]
    lt = [n["taxon"] for n in trees.leaves(spec)]
    if len(lt) >= 2 and None not in lt and len(set(lt)) == len(lt):
        ops.append(["RerootAtMidpoint", False, True, True, None])
    for i in ids:
        if by[i]["kids"]:
            ops.append(["ReseedAt", i, False, True, True])
            ops.append(["ReseedAt", i, False, False, False])
            ops.append(["RerootAtNode", i, False, True, True])
            ops.append(["RerootAtNode", i, True, False, False])
            ops.append(["EdgeCollapse", i, False])
            ops.append(["CollapseClade", i])
        ops.append(["NewChild", i, None, None, 1024])
        if pm[i] is not None:
            ops.append(["ToOutgroup", i, False, True])
            ops.append(["RerootAtEdge", i, 512, 512, False, True])
            ops.append(["RerootAtEdge", i, 512, 512, True, False])
            ops.append(["PruneSubtree", i, False, True])
            ops.append(["PruneSubtree", i, True, False])
            ops.append(["RemoveChild", pm[i], i, True])
            ops.append(["RemoveChild", pm[i], i, False])
            ops.append(["SetParentNode", i, None])
        for d in detached:
            ops.append(["AddChild", i, d])
    # wave 8: refused calls (see gen_refused): one wrong receiver per node, the node itself, the seed-only refusals
    seed = spec["id"]
    for i in ids:
        if pm[i] is not None:
            wrong = [p for p in ids if p != pm[i] and p != i]
            if wrong:
                ops.append(["RemoveChild", wrong[(i + len(ids)) % len(wrong)], i, False])
            ops.append(["RemoveChild", i, pm[i], True])
    ops.append(["RemoveChild", seed, seed, False])
    ops.append(["PruneSubtree", seed, False, True])
    ops.append(["ToOutgroup", seed, False, True])
    ops.append(["AddChild", seed, seed])
    for d in detached[:1]:
        ops.append(["RemoveChild", seed, d, False])
    for x in range(ntaxa):
        ops.append(["PruneTaxa", [x], False, True, True, False])
        ops.append(["RetainTaxa", [y for y in range(ntaxa) if y != x], False, True])
    ops.append(["RetainTaxa", [], False, True])
    if len(ids) > 1:
        ops.append(["FilterLeafNodes", ids[:-1], True, False, True])
    return ops


def enum_histories(spec, rooted, ntaxa, depth, rng, per_state=None):
    """depth-first enumeration; the real library is re-run from scratch along each prefix"""
    def states_after(prefix):
        sess = Session(spec, rooted, ntaxa)
        cur = spec
        try:
            for op in prefix:
                err = None
                try:
                    with core.alarm(10):
                        sess.apply(op)
                except Exception as e:
                    err = core.exc_enum(e)
                try:
                    snap = sess.snapshot(with_traversals=False)
                except ValueError:
                    return None, None
                if snap["tree"] is None or snap["problems"]:
                    return None, None
                note_detached(sess, op, err, cur, snap["tree"])
                cur = snap["tree"]
            return cur, list(sess.detached)
        finally:
            sess.close()

    def rec(prefix, d):
        if d == 0:
            yield list(prefix)
            return
        cur, det = states_after(prefix)
        if cur is None:
            yield list(prefix)
            return
        al = alphabet(cur, ntaxa, det)
        if per_state is not None and len(al) > per_state:
            al = rng.sample(al, per_state)
        for op in al:
            yield from rec(prefix + [op], d - 1)

    yield from rec([], depth)


# --------------------------------------------------------------------------------------------
# search (used when a proof or the correspondence breaks) and the check entry
# --------------------------------------------------------------------------------------------

def search(ctx, budget_s):
    t0 = time.time()
    rng = random.Random(ctx.seed + 77)
    n = 0
    while time.time() - t0 < budget_s and n < 20000:
        case = (ub_case(rng) if n % 4 == 2 else refused_case(rng) if n % 4 == 0 else
                random_case(rng, 12, 12, label_pool=(n % 3 == 1) or None))
        obs = observe(case)
        v = oracle(case, obs)
        n += 1
        if v:
            ctx.violation(v[0], {"case": case}, key=v[1])
            if ctx.violations:
                return
    ctx.notes.append("search: %d further histories through the oracle, no unlisted violation" % n)


def nontrivial(case, obs):
    return len(obs) >= 2 and len(trees.preorder(case["init"])) >= 4


def sample_fn(case, obs):
    return {"init": trees.newick(case["init"]), "rooted": case["rooted"], "ops": case["ops"][:6],
            "errors": [s["err"] for s in obs][:6]}


def run(tier, seed, replay=None):
    ctx = core.Ctx("C03", tier, seed)
    ctx.assumptions = [
        "model coq/Model/Heap.v + HeapOps.v is a hand transcription of _node.py/_edge.py/_tree.py mutators; tied by this correspondence run (pointer dump compared after EVERY step)",
        "edge lengths are dyadic (k*2^-10) so binary64 +,- are exact; midpoint rooting only on trees whose pairwise distances are even multiples of the unit",
        "update_bipartitions=True is modelled structurally (collapse/suppress side effects); the masks are checked by the oracle against a naive recomputation, not by the model",
        "generator-consumed-while-mutating loops: visiting order fixed at loop entry in the model (see HeapOps.v header)",
        "rng draws and the pair returned by max_pairwise_distance_taxa are inputs of the model",
    ]
    if replay:
        r = json.load(open(replay))["replay"]
        case = r["case"]
        obs = observe(case)
        print("oracle:", oracle(case, obs))
        for op, s in zip(case["ops"], obs):
            print(op, "->", s["err"], None if s["tree"] is None else trees.newick(s["tree"]), s["problems"])
        return 0
    ok = core.proof_stage(ctx, ["Props/C03.vo", "Props/C03Gen.vo"], gen_needed=("Mutators", "Bipartition"))
    ok = core.proof_stage(ctx, ["Props/C03Gen.vo"], props_file="Props/C03Gen.v", gen_needed=("Mutators", "Bipartition")) and ok
    if not ok:
        core.broken_proof(ctx, search)
    import dendropy.utility
    cases = list(probe_cases())
    if tier == "quick":
        cases += [random_case(ctx.rng, 9, 8) for _ in range(550)]
        cases += [random_case(ctx.rng, 30, 25) for _ in range(50)]
        cases += [ub_case(ctx.rng, rooted=(None, True, False)[i % 3]) for i in range(150)]
        cases += [refused_case(ctx.rng) for _ in range(150)]
        small = list(small_scope_cases(3, 2, ctx.rng, per_state=None))
        cases += ctx.rng.sample(small, 800)
    else:
        cases += [random_case(ctx.rng, 10, 10) for _ in range(4000)]
        cases += [random_case(ctx.rng, 30, 25) for _ in range(500)]
        cases += [ub_case(ctx.rng, 10, 6, rooted=(None, True, False)[i % 3]) for i in range(3000)]
        cases += [refused_case(ctx.rng, 10, 8) for _ in range(2000)]
        cases += list(small_scope_cases(4, 2, ctx.rng, per_state=None))
        cases += [c for c in small_scope_cases(5, 2, ctx.rng, per_state=9) if len(trees.leaves(c["init"])) == 5]
        cases += list(small_scope_cases(3, 3, ctx.rng, per_state=11))
    for c in cases:
        ctx.count("leaves=%d" % len(trees.leaves(c["init"])))
        ctx.count("rooted=%s" % c["rooted"])
        for o in c["ops"]:
            ctx.count(o[0])
    core.corr_stage(ctx, cases, observe, to_coq, HEADER, "case_ok", oracle=oracle, show_fn="case_run",
                    nontrivial=nontrivial, search=search, shard=125 if tier == "quick" else 250, sample_fn=sample_fn)
    return ctx.finish(level="proof",
                      rule="op histories on the real library with arguments drawn from the live state (all flags toggled, "
                           "rooting None/True/False, trees with polytomies/unifurcations/missing lengths/missing taxa); "
                           "quick: 550 histories <=8 ops on <=9 leaves + 50 histories <=25 ops on <=30 leaves + 800 sampled "
                           "depth-2 histories from every shape <=3 leaves; thorough: 4000+500 random histories, "
                           "every depth-2 history over the per-state op alphabet from every shape <=4 leaves, depth 2 with "
                           "sampled alphabets (9 per state) for 5 leaves and depth 3 (11 per state) on <=3 leaves; a third of "
                           "the random histories also re-seed at leaves (F19); about 12% of the random histories run over a "
                           "label pool with collisions (duplicate labels, labels differing only in case, namespace case "
                           "sensitive or not) and use the label-based selectors prune/retain_taxa_with_labels, "
                           "extract_tree_with(out)_taxa_labels (oracle: leaf taxa change exactly by ALL taxa the labels "
                           "designate under the namespace's rule; model: the taxon-based op on those taxa); pointer dump, rooting flag and exception class "
                           "compared with the model after every step; wave 8: about 8% of the random operations, half of the "
                           "operations of 150 (thorough 2000) dedicated histories and several letters of the small-scope alphabet are "
                           "calls the API must REFUSE (remove_child of a non-child: child of another node / the receiver itself / its "
                           "parent / the seed / a node of a detached subtree; Edge.collapse of a leaf edge; to_outgroup_position / "
                           "prune_subtree / reroot_at_edge of the seed; add_child of the node itself / its parent; prune_nodes starting "
                           "with the seed): the documented exception is caught, every registered node's parent pointer, child list, "
                           "edge head/tail, length and taxon are compared before/after (oracle) and with the heap the model's error "
                           "outcome carries, and the history goes on; non-trivial = >=2 executed ops on a tree with >=4 nodes; "
                           "distinct by full case content")
