"""C15 - every traversal visits each node / edge exactly once, in its defining order.

The traversal machines of the model are GENERATED from the source (py/dv/gen_traversals.py ->
coq/Gen/Traversals.v); the theorems of coq/Props/C15.v are proved about the generated definitions.
The correspondence run validates the translator: every iterator of Tree and Node is run on random
trees (single node, unifurcations, polytomies up to width 50), every/ sampled start nodes, random
filter predicates (with non-bool truth values) and callback sets, and the id sequence is compared
with the generated model evaluated by vm_compute.  The oracle is an independent naive recursive
statement of each defining order on the harness's own spec tree.
"""
import json
import random
import time
import warnings

from dv import core, trees
from dv.core import cz, clist, copt, cbool

IMPORTS = ("From DV Require Import Model.PyPrims Model.Tree Model.C15Prims Model.C15Model.\n"
           "From Coq Require Import ZArith List. Import ListNotations. Open Scope Z_scope.")

# name, level, method, flags, takes filter, element kind
KINDS = [
    ("KN_preorder_iter", "N", "preorder_iter", [], True, "node"),
    ("KN_preorder_internal", "N", "preorder_internal_node_iter", ["exclude_seed_node"], True, "node"),
    ("KN_postorder_iter", "N", "postorder_iter", [], True, "node"),
    ("KN_postorder_internal", "N", "postorder_internal_node_iter", ["exclude_seed_node"], True, "node"),
    ("KN_levelorder_iter", "N", "levelorder_iter", [], True, "node"),
    ("KN_level_order_iter", "N", "level_order_iter", [], True, "node"),
    ("KN_inorder_iter", "N", "inorder_iter", [], True, "node"),
    ("KN_leaf_iter", "N", "leaf_iter", [], True, "node"),
    ("KN_child_node_iter", "N", "child_node_iter", [], True, "node"),
    ("KN_child_edge_iter", "N", "child_edge_iter", [], True, "edge"),
    ("KN_ancestor_iter", "N", "ancestor_iter", ["inclusive"], True, "node"),
    ("KN_ageorder_iter", "N", "ageorder_iter", ["include_leaves", "descending"], True, "node"),
    ("KN_age_order_iter", "N", "age_order_iter", ["include_leaves", "descending"], True, "node"),
    ("KN_apply", "N", "apply", ["cb_before", "cb_after", "cb_leaf"], False, "event"),
    ("KN_iter", "N", "__iter__", [], True, "node"),
    ("KN_leaf_nodes", "N", "leaf_nodes", [], False, "node"),
    ("KT_preorder_node_iter", "T", "preorder_node_iter", [], True, "node"),
    ("KT_preorder_internal_node_iter", "T", "preorder_internal_node_iter", ["exclude_seed_node"], True, "node"),
    ("KT_postorder_node_iter", "T", "postorder_node_iter", [], True, "node"),
    ("KT_postorder_internal_node_iter", "T", "postorder_internal_node_iter", ["exclude_seed_node"], True, "node"),
    ("KT_levelorder_node_iter", "T", "levelorder_node_iter", [], True, "node"),
    ("KT_level_order_node_iter", "T", "level_order_node_iter", [], True, "node"),
    ("KT_inorder_node_iter", "T", "inorder_node_iter", [], True, "node"),
    ("KT_leaf_node_iter", "T", "leaf_node_iter", [], True, "node"),
    ("KT_leaf_iter", "T", "leaf_iter", [], True, "node"),
    ("KT_ageorder_node_iter", "T", "ageorder_node_iter", ["include_leaves", "descending"], True, "node"),
    ("KT_age_order_node_iter", "T", "age_order_node_iter", ["include_leaves", "descending"], True, "node"),
    ("KT_apply", "T", "apply", ["cb_before", "cb_after", "cb_leaf"], False, "event"),
    ("KT_preorder_edge_iter", "T", "preorder_edge_iter", [], True, "edge"),
    ("KT_preorder_internal_edge_iter", "T", "preorder_internal_edge_iter", ["exclude_seed_edge"], True, "edge"),
    ("KT_postorder_edge_iter", "T", "postorder_edge_iter", [], True, "edge"),
    ("KT_postorder_internal_edge_iter", "T", "postorder_internal_edge_iter", ["exclude_seed_edge"], True, "edge"),
    ("KT_levelorder_edge_iter", "T", "levelorder_edge_iter", [], True, "edge"),
    ("KT_level_order_edge_iter", "T", "level_order_edge_iter", [], True, "edge"),
    ("KT_inorder_edge_iter", "T", "inorder_edge_iter", [], True, "edge"),
    ("KT_leaf_edge_iter", "T", "leaf_edge_iter", [], True, "edge"),
    ("KT_nodes", "T", "nodes", [], True, "node"),
    ("KT_leaf_nodes", "T", "leaf_nodes", [], False, "node"),
    ("KT_internal_nodes", "T", "internal_nodes", ["exclude_seed_node"], False, "node"),
    ("KT_edges", "T", "edges", [], True, "edge"),
    ("KT_leaf_edges", "T", "leaf_edges", [], False, "edge"),
    ("KT_internal_edges", "T", "internal_edges", ["exclude_seed_edge"], False, "edge"),
    ("KT_iter", "T", "__iter__", [], False, "node"),
    ("KT_len", "T", "__len__", [], False, "len"),
]
KIND = {k[0]: k for k in KINDS}
AGE_KINDS = {"KN_ageorder_iter", "KN_age_order_iter", "KT_ageorder_node_iter", "KT_age_order_node_iter"}

# truth values a filter function may return (the code only uses their truth value)
TRUTHY = [True, 1, "x", [0], (None,), 2.5]
FALSY = [False, 0, "", [], None, 0.0]


# ---------------------------------------------------------------------------------------------
# spec-tree helpers
# ---------------------------------------------------------------------------------------------
def node_at(t, path):
    for j in path:
        t = t["kids"][j]
    return t


def all_paths(t, prefix=()):
    out = [list(prefix)]
    for j, k in enumerate(t["kids"]):
        out.extend(all_paths(k, prefix + (j,)))
    return out


def size(t):
    return 1 + sum(size(k) for k in t["kids"])


def add_unifurcations(rng, t, p):
    """wrap random nodes in single-child parents / give leaves a single child chain"""
    def go(n):
        n["kids"] = [go(k) for k in n["kids"]]
        if rng.random() < p:
            return {"id": -1, "taxon": None, "label": None, "len": n["len"], "kids": [n]}
        return n
    return go(t)


def renumber(t):
    for i, nd in enumerate(trees.preorder(t)):
        nd["id"] = i
        nd["taxon"] = None
    return t


def random_tree(rng, big=False):
    r = rng.random()
    if r < 0.06:
        t = trees.gen_tree(rng, 1, lengths="none")
    elif r < 0.16:
        t = trees.gen_tree(rng, rng.randint(2, 50 if big else 20), shape="star", lengths="none")
    elif r < 0.40:
        t = trees.gen_tree(rng, rng.randint(2, 24 if big else 9), shape="binary", lengths="none")
    elif r < 0.50:
        t = trees.gen_tree(rng, rng.randint(2, 12), shape="caterpillar", lengths="none")
    elif r < 0.62:
        t = trees.gen_tree(rng, rng.randint(2, 40 if big else 12), shape="poly", lengths="none")
    else:
        t = trees.gen_tree(rng, rng.randint(2, 30 if big else 10), shape="mixed", lengths="none")
    if rng.random() < 0.4:
        t = add_unifurcations(rng, t, rng.choice([0.15, 0.3, 0.6]))
    if rng.random() < 0.1:
        # unifurcating root / chain
        for _ in range(rng.randint(1, 3)):
            t = {"id": -1, "taxon": None, "label": None, "len": None, "kids": [t]}
    return renumber(t)


def shape_label(t):
    ar = [len(n["kids"]) for n in trees.preorder(t)]
    tags = []
    if len(ar) == 1:
        tags.append("single-node")
    if any(a == 1 for a in ar):
        tags.append("unifurcation")
    if ar[0] == 1:
        tags.append("unifurcating-root")
    if any(a >= 10 for a in ar):
        tags.append("polytomy>=10")
    elif any(a >= 3 for a in ar):
        tags.append("polytomy")
    if all(a in (0, 2) for a in ar) and len(ar) > 1:
        tags.append("binary")
    return tags


# ---------------------------------------------------------------------------------------------
# cases
# ---------------------------------------------------------------------------------------------
def make_history(rng, base, ops=None):
    """A tree with a (possibly stale) bipartition encoding: `base` gets taxa on (most of) its tips, its
    bipartitions are encoded, then tips are grafted on / cut off WITHOUT refreshing the bipartitions.
    Everything is computed on the spec tree alone; returns (final spec tree renumbered in pre-order, hist)."""
    import copy
    base = copy.deepcopy(base)
    ntax = 0
    for lf in trees.leaves(base):
        if rng.random() < 0.8:
            lf["taxon"] = ntax
            ntax += 1
    cur = copy.deepcopy(base)
    next_id = 1 + max(nd["id"] for nd in trees.preorder(cur))
    if ops is None:
        ops = [["encode"]]
        for _ in range(rng.randint(1, 3)):
            r = rng.random()
            if r < 0.5:
                ops.append(["add", rng.choice(trees.preorder(cur))["id"], None, rng.random() < 0.7])
            elif r < 0.9:
                ops.append(["del", None])
            else:
                ops.append(["encode"])
            apply_spec_op(rng, cur, ops[-1], [next_id + len(ops), ntax + len(ops)])
    else:
        ops = [list(o) for o in ops]
        for i, o in enumerate(ops):
            apply_spec_op(rng, cur, o, [next_id + i, ntax + i])
    ops = [o for o in ops if o[0] != "skip"]
    relabel = [[nd["id"], i] for i, nd in enumerate(trees.preorder(cur))]
    final = renumber(copy.deepcopy(cur))
    return final, {"base": base, "ops": ops, "relabel": relabel}


def apply_spec_op(rng, cur, op, fresh):
    """apply one history step to the spec tree; fills in the ids the step uses"""
    if op[0] == "add":
        new_id, tx = fresh
        parent = [nd for nd in trees.preorder(cur) if nd["id"] == op[1]][0]
        op[2] = new_id
        op[3] = tx if op[3] not in (False, None) else None
        parent["kids"].append({"id": new_id, "taxon": op[3], "label": None, "len": None, "kids": []})
    elif op[0] == "del":
        cands = [(p, k) for p in trees.preorder(cur) for k in p["kids"] if not k["kids"]]
        if op[1] is not None:
            cands = [(p, k) for p, k in cands if k["id"] == op[1]]
        if not cands:
            op[0] = "skip"
            return
        p, k = rng.choice(cands)
        op[1] = k["id"]
        p["kids"].remove(k)


def make_case(rng, tree, tree_ix, kind, path, filt="random", ages=None, hist=None):
    name, level, meth, flags, takes_filter, elem = KIND[kind]
    n = size(tree)
    case = {"tree_ix": tree_ix, "tree": tree, "kind": kind, "start": list(path) if level == "N" else [],
            "flags": [rng.random() < 0.5 for _ in flags], "filter": None, "truth": rng.randrange(len(TRUTHY)),
            "ages": None, "calc_ages": False}
    if kind in ("KN_apply", "KT_apply") and rng.random() < 0.6:
        case["flags"] = [True, True, True]
    if takes_filter and filt == "random" and rng.random() < 0.6:
        p = rng.choice([0.2, 0.5, 0.8])
        case["filter"] = sorted(i for i in range(n) if rng.random() < p)
    if kind in AGE_KINDS:
        if ages is not None:
            case["ages"] = ages
        elif level == "T" and rng.random() < 0.25:
            case["calc_ages"] = True       # ages all None: Tree.ageorder_node_iter calls calc_node_ages
        else:
            hi = rng.choice([1, 2, 3, max(2, n)])
            case["ages"] = [rng.randint(0, hi) for _ in range(n)]
    if hist is not None:
        case["hist"] = hist
        if case["calc_ages"]:
            case["calc_ages"] = False
            case["ages"] = [rng.randint(0, 3) for _ in range(n)]
    return case


def cases_for_tree(rng, tree, tree_ix, starts, filt="random", hist=None):
    out = []
    for k in KINDS:
        if k[1] == "T":
            out.append(make_case(rng, tree, tree_ix, k[0], [], filt, hist=hist))
        else:
            for p in starts:
                out.append(make_case(rng, tree, tree_ix, k[0], p, filt, hist=hist))
    return out


def sample_starts(rng, tree, limit):
    paths = all_paths(tree)
    if len(paths) <= limit:
        return paths
    keep = [[]]
    # a last child, a first child, a leaf, an only child if any
    lasts = [p for p in paths if p and p[-1] == len(node_at(tree, p[:-1])["kids"]) - 1]
    onlys = [p for p in paths if p and len(node_at(tree, p[:-1])["kids"]) == 1]
    inner = [p for p in paths if p and node_at(tree, p)["kids"]]
    for pool in (lasts, onlys, inner):
        if pool:
            keep.append(rng.choice(pool))
    while len(keep) < limit:
        keep.append(rng.choice(paths))
    uniq = []
    for p in keep:
        if p not in uniq:
            uniq.append(p)
    return uniq


# ---------------------------------------------------------------------------------------------
# implementation side
# ---------------------------------------------------------------------------------------------
class Runaway(Exception):
    pass


def build_with_history(hist):
    """the dendropy tree after the history: built from the base tree (tips with taxa), bipartitions
    encoded without touching the structure, tips grafted on / cut off without updating them"""
    base, ops = hist["base"], hist["ops"]
    ntax = 1 + max([-1] + [nd["taxon"] for nd in trees.preorder(base) if nd["taxon"] is not None]
                   + [o[3] for o in ops if o[0] == "add" and o[3] is not None])
    ns, objs = trees.make_namespace(ntax)
    tree, by_old = trees.build_dendropy(base, objs, namespace=ns)
    for o in ops:
        if o[0] == "encode":
            tree.encode_bipartitions(suppress_unifurcations=False, collapse_unrooted_basal_bifurcation=False)
        elif o[0] == "add":
            kw = {} if o[3] is None else {"taxon": objs[o[3]]}
            by_old[o[2]] = by_old[o[1]].new_child(**kw)
        elif o[0] == "del":
            nd = by_old.pop(o[1])
            nd._parent_node.remove_child(nd)
    by_id = {}
    for old, new in hist["relabel"]:
        by_old[old]._dv_id = new
        by_id[new] = by_old[old]
    return tree, by_id


class mem_guard:
    """soft address-space limit of (current size + 1.5 GB) inside the block: a traversal whose work list doubles
    (level order over a child list that contains itself) ends in MemoryError instead of taking the machine down"""
    _vm = [0, 0]

    def __enter__(self):
        import resource
        g = mem_guard._vm
        if g[1] % 256 == 0:
            try:
                with open("/proc/self/status") as f:
                    for line in f:
                        if line.startswith("VmSize:"):
                            g[0] = int(line.split()[1]) * 1024
            except OSError:
                g[0] = 0
        g[1] += 1
        self.old = resource.getrlimit(resource.RLIMIT_AS)
        if g[0]:
            lim = g[0] + (1 << 29)
            if self.old[1] != resource.RLIM_INFINITY:
                lim = min(lim, self.old[1])
            resource.setrlimit(resource.RLIMIT_AS, (lim, self.old[1]))

    def __exit__(self, *a):
        import resource
        resource.setrlimit(resource.RLIMIT_AS, self.old)
        return False


def run_kind(tree, start, case, cap, alarm_s=10):
    """run the iterator / callback walk named by case["kind"] on `tree` (Tree-level kinds) or on the node `start`
    (Node-level kinds) with the case's flags, filter set and truth values; at most `cap` items (then "Hang").
    Returns (ids, err)."""
    name, level, meth, flags, takes_filter, elem = KIND[case["kind"]]
    obj = tree if level == "T" else start
    passing = None if case["filter"] is None else set(case["filter"])
    tv, fv = TRUTHY[case["truth"]], FALSY[case["truth"]]
    kwargs = {}
    events = []
    calls = [0]

    def record(e):
        events.append(e)
        if len(events) > cap:
            raise Runaway()

    def passes(i):
        calls[0] += 1
        if calls[0] > 4 * cap:        # a list-returning wrapper that does not terminate
            raise Runaway()
        return tv if i in passing else fv

    if case["kind"] in ("KN_apply", "KT_apply"):
        for fl, kw, tag in zip(case["flags"], ("before_fn", "after_fn", "leaf_fn"), (0, 2, 1)):
            if fl:
                kwargs[kw] = (lambda tg: (lambda nd: record(3 * nd._dv_id + tg)))(tag)
    else:
        for fl, fname in zip(case["flags"], flags):
            kwargs[fname] = fl
        if takes_filter and passing is not None:
            if elem == "edge":
                kwargs["filter_fn"] = lambda e: passes(e.head_node._dv_id)
            else:
                kwargs["filter_fn"] = lambda nd: passes(nd._dv_id)

    def ident(x):
        if elem == "edge":
            hn = x.head_node
            if hn.edge is not x or hn._edge is not x:
                raise RuntimeError("edge object is not the edge of its head node")
            return hn._dv_id
        return x._dv_id

    out, err = [], None
    with warnings.catch_warnings():
        warnings.simplefilter("ignore")
        try:
            with core.alarm(alarm_s), mem_guard():
                if meth == "__len__":
                    out = [len(obj)]
                elif meth == "apply":
                    obj.apply(**kwargs)
                    out = events
                else:
                    r = iter(obj) if (meth == "__iter__" and level == "T") else getattr(obj, meth)(**kwargs)
                    for x in r:
                        out.append(ident(x))
                        if len(out) > cap:
                            raise Runaway()
        except Runaway:
            out, err = (events if meth == "apply" else out)[:cap], "Hang"
        except (TimeoutError, MemoryError):
            out, err = (events if meth == "apply" else out)[:cap], "Hang"
        except RuntimeError:
            raise
        except Exception as e:
            err = core.exc_enum(e)
            if case["kind"] in ("KN_apply", "KT_apply"):
                out = events
    return out, err


def observe(case):
    import dendropy
    from dendropy.utility import deprecate
    if deprecate.DEPRECATION_WARNING_FILTER != "ignore":
        deprecate.configure_deprecation_warning_behavior("ignore")
    t = case["tree"]
    n = size(t)
    tree_units = t
    if case.get("calc_ages"):
        # ultrametric lengths: node height h (leaf 0), edge length = h(parent) - h(child), in whole units
        def h(nd):
            nd["_h"] = 0 if not nd["kids"] else 1 + max(h(k) for k in nd["kids"])
            return nd["_h"]
        tree_units = json.loads(json.dumps(t))
        h(tree_units)

        def setlen(nd, ph):
            nd["len"] = None if ph is None else (ph - nd["_h"]) * 1024
            for k in nd["kids"]:
                setlen(k, nd["_h"])
        setlen(tree_units, None)
    if case.get("hist"):
        tree, by_id = build_with_history(case["hist"])
    else:
        tree, by_id = trees.build_dendropy(tree_units, taxon_objs={})
    if case["ages"] is not None:
        for i, nd in by_id.items():
            nd.age = case["ages"][i]
    start = by_id[node_at(t, case["start"])["id"]]
    out, err = run_kind(tree, start, case, 20 * n + 50)
    obs = {"out": out, "err": err}
    if case["kind"] in AGE_KINDS:
        ages = []
        for i in range(n):
            a = by_id[i].age
            if a is None:
                ages.append(None)
            else:
                a2 = a / trees.UNIT / 1024 if case.get("calc_ages") else a
                if a2 != int(a2):
                    raise RuntimeError("non-integral age %r" % (a,))
                ages.append(int(a2))
        obs["ages"] = ages
    return obs


# ---------------------------------------------------------------------------------------------
# oracle: naive recursive statement of each defining order on the spec tree
# ---------------------------------------------------------------------------------------------
class NotBinary(Exception):
    pass


def o_pre(t):
    r = [t]
    for k in t["kids"]:
        r += o_pre(k)
    return r


def o_post(t):
    r = []
    for k in t["kids"]:
        r += o_post(k)
    return r + [t]


def o_leaves(t):
    if not t["kids"]:
        return [t]
    r = []
    for k in t["kids"]:
        r += o_leaves(k)
    return r


def o_level(t):
    # nodes by depth, each depth left to right
    depth = {}

    def go(n, d):
        depth.setdefault(d, []).append(n)
        for k in n["kids"]:
            go(k, d + 1)
    go(t, 0)
    r = []
    for d in sorted(depth):
        r += depth[d]
    return r


def o_inorder(t, acc):
    if not t["kids"]:
        acc.append(t)
    elif len(t["kids"]) == 2:
        o_inorder(t["kids"][0], acc)
        acc.append(t)
        o_inorder(t["kids"][1], acc)
    else:
        raise NotBinary()


def o_brackets(t):
    if not t["kids"]:
        return [3 * t["id"] + 1]
    r = [3 * t["id"] + 0]
    for k in t["kids"]:
        r += o_brackets(k)
    return r + [3 * t["id"] + 2]


def expected(case, obs):
    """(ids, err) the property demands, from the spec tree alone"""
    t = case["tree"]
    name, level, meth, flags, takes_filter, elem = KIND[case["kind"]]
    s = node_at(t, case["start"])
    is_seed = not case["start"]
    fl = dict(zip(flags, case["flags"]))
    passing = None if case["filter"] is None else set(case["filter"])
    ok = lambda nd: passing is None or nd["id"] in passing
    ids = lambda l: [nd["id"] for nd in l if ok(nd)]
    internal = lambda l, excl: [nd for nd in l if nd["kids"] and not (excl and is_seed and nd is s)]
    m = meth
    if m in ("preorder_iter", "preorder_node_iter", "nodes", "__iter__", "preorder_edge_iter", "edges"):
        return ids(o_pre(s)), None
    if m in ("postorder_iter", "postorder_node_iter", "postorder_edge_iter"):
        return ids(o_post(s)), None
    if m in ("preorder_internal_node_iter", "preorder_internal_edge_iter", "internal_nodes", "internal_edges"):
        return ids(internal(o_pre(s), list(fl.values())[0])), None
    if m in ("postorder_internal_node_iter", "postorder_internal_edge_iter"):
        return ids(internal(o_post(s), list(fl.values())[0])), None
    if m in ("levelorder_iter", "level_order_iter", "levelorder_node_iter", "level_order_node_iter",
             "levelorder_edge_iter", "level_order_edge_iter"):
        return ids(o_level(s)), None
    if m in ("leaf_iter", "leaf_node_iter", "leaf_nodes", "leaf_edge_iter", "leaf_edges"):
        return ids(o_leaves(s)), None
    if m == "__len__":
        return [len(o_leaves(s))], None
    if m in ("inorder_iter", "inorder_node_iter", "inorder_edge_iter"):
        acc = []
        try:
            o_inorder(s, acc)
            return ids(acc), None
        except NotBinary:
            return ids(acc), "TypeErr"
    if m in ("child_node_iter", "child_edge_iter"):
        return ids(s["kids"]), None
    if m == "ancestor_iter":
        chain = [node_at(t, case["start"][:i]) for i in range(len(case["start"]) - 1, -1, -1)]
        return ids(([s] if fl["inclusive"] else []) + chain), None
    if m in ("ageorder_iter", "age_order_iter", "ageorder_node_iter", "age_order_node_iter"):
        ages = obs["ages"]
        if any(a is None for a in ages):
            return None          # ages unset: outside the property (sort of None)
        nodes = o_pre(s)
        # stable: among equal ages the pre-order position decides, also when descending
        pos = {nd["id"]: i for i, nd in enumerate(nodes)}
        nodes = sorted(nodes, key=lambda nd: ((-ages[nd["id"]] if fl["descending"] else ages[nd["id"]]), pos[nd["id"]]))
        return ids([nd for nd in nodes if fl["include_leaves"] or nd["kids"]]), None
    if m == "apply":
        ev = o_brackets(s)
        keep = {0: case["flags"][0], 2: case["flags"][1], 1: case["flags"][2]}
        return [e for e in ev if keep[e % 3]], None
    raise RuntimeError("oracle: unknown method " + m)


def oracle(case, obs):
    exp = expected(case, obs)
    if exp is None:
        return None
    if [obs["out"], obs["err"]] != [exp[0], exp[1]]:
        meth = KIND[case["kind"]][2]
        lvl = "Tree" if KIND[case["kind"]][1] == "T" else "Node"
        how = ""
        if case.get("hist"):
            h = case["hist"]
            how = " (reached from %s by %s; ids renamed %s)" % (
                trees.newick(label_ids(h["base"]), with_len=False),
                ", ".join("encode_bipartitions" if o[0] == "encode" else
                          "new_child under %d%s" % (o[1], "" if o[3] is None else " with a taxon") if o[0] == "add"
                          else "remove leaf %d" % o[1] for o in h["ops"]),
                [p for p in h["relabel"] if p[0] != p[1]])
        what = ("%s.%s on tree %s%s, start node %s, flags %s, filter %s: visited %s%s, the defining order is %s%s"
                % (lvl, meth, trees.newick(label_ids(case["tree"]), with_len=False), how,
                   node_at(case["tree"], case["start"])["id"],
                   case["flags"], case["filter"], obs["out"], (" then " + obs["err"]) if obs["err"] else "",
                   exp[0], (" then " + exp[1]) if exp[1] else ""))
        return what, "%s.%s-order" % (lvl, meth)
    return None


def label_ids(t):
    """copy with taxon = id so trees.newick prints node ids"""
    return {"id": t["id"], "taxon": t["id"], "label": None, "len": None, "kids": [label_ids(k) for k in t["kids"]]}


# ---------------------------------------------------------------------------------------------
# Coq side
# ---------------------------------------------------------------------------------------------
def to_coq(case, obs):
    k = case["kind"]
    ctor = k if not case["flags"] else "(%s %s)" % (k, " ".join(cbool(f) for f in case["flags"]))
    filt = "None" if case["filter"] is None else "(Some %s)" % clist([cz(i) for i in case["filter"]])
    ages = obs.get("ages")
    if ages is None:
        ages_t = "[]"
    else:
        ages_t = clist(["(%s, %s)" % (cz(i), cz(a if a is not None else 0)) for i, a in enumerate(ages)])
    tree_t = "tr_%d" % case["tree_ix"] if case["tree_ix"] >= 0 and not case.get("hist") else trees.c_tree(case["tree"])
    return "(mkCase %s %s %s %s %s %s %s)" % (
        tree_t, clist(["%d%%nat" % j for j in case["start"]]), ctor, filt, ages_t,
        clist([cz(i) for i in obs["out"]]), copt(obs["err"]))


def header_for(tree_list):
    defs = ["Definition tr_%d : tree := %s." % (i, trees.c_tree(t)) for i, t in enumerate(tree_list)]
    return IMPORTS + "\n" + "\n".join(defs)


def nontrivial(case, obs):
    return size(node_at(case["tree"], case["start"])) >= 3


# ---------------------------------------------------------------------------------------------
# search (used when a proof or the correspondence breaks)
# ---------------------------------------------------------------------------------------------
def small_trees(max_leaves=4):
    """every shape with <= max_leaves leaves, plus small ones with a unifurcation on top / inside"""
    for nl in range(1, max_leaves + 1):
        for sh in trees.all_shapes(nl):
            yield renumber(trees.shape_to_tree(sh))
    for nl in (1, 2, 3):
        for sh in trees.all_shapes(nl):
            yield renumber(trees.shape_to_tree([sh]))
            if sh:
                yield renumber(trees.shape_to_tree([[x] for x in sh]))


def search(ctx, budget_s):
    t0 = time.time()
    rng = random.Random(ctx.seed + 1515)
    n = 0

    def try_tree(tree, starts, filt, hist=None):
        nonlocal n
        for case in cases_for_tree(rng, tree, -1, starts, filt, hist=hist):
            try:
                obs = observe(case)
            except Exception as e:
                ctx.violation("harness could not observe the implementation: %s: %s" % (type(e).__name__, e),
                              {"case": case}, key="observe-failed")
                continue
            n += 1
            v = oracle(case, obs)
            if v:
                ctx.violation(v[0], {"case": case, "observed": obs}, key=v[1])
        return bool(ctx.violations)

    for tree in small_trees():
        if try_tree(tree, all_paths(tree), None) or time.time() - t0 > budget_s:
            break
    if not ctx.violations:
        for tree, hist in fixed_histories(rng):
            if try_tree(tree, all_paths(tree), None, hist=hist) or time.time() - t0 > budget_s:
                break
    from dv import c15_world

    def try_world(case):
        nonlocal n
        v, k = c15_world.check_isolated(case)
        n += k
        if v:
            ctx.violation(v[0], {"case": case}, key=v[1])
        return bool(ctx.violations)

    if not ctx.violations:
        for case in c15_world.fixed_world_cases():
            if try_world(case) or time.time() - t0 > budget_s:
                break
    while not ctx.violations and time.time() - t0 < budget_s:
        if rng.random() < 0.3:
            try_world(c15_world.gen_world_case(rng, "quick"))
            continue
        tree = random_tree(rng, big=False)
        if rng.random() < 0.3:
            tree, hist = make_history(rng, tree)
            try_tree(tree, sample_starts(rng, tree, 3), "random", hist=hist)
        else:
            try_tree(tree, sample_starts(rng, tree, 4), "random")
    ctx.notes.append("search: %d iterator runs through the oracle, %d violation(s)" % (n, len(ctx.violations)))


def fixed_histories(rng):
    """small trees with an encoded, then outdated, bipartition encoding"""
    b4 = renumber(trees.shape_to_tree([[[], []], [[], []]]))          # ((1,2),(4,5)) ids 0..6
    b6 = renumber(trees.shape_to_tree([[[], []], [[[], []], [[], []]]]))
    yield make_history(random.Random(1), b4, [["encode"], ["add", 6, None, True], ["add", 6, None, True]])
    yield make_history(random.Random(2), b6, [["encode"], ["del", 2], ["del", 6]])
    yield make_history(random.Random(3), b4, [["add", 0, None, False], ["add", 0, None, False], ["encode"]])
    yield make_history(random.Random(4), b4, [["encode"], ["add", 0, None, False]])
    yield make_history(random.Random(5), renumber(trees.shape_to_tree([])), [["encode"], ["add", 0, None, True]])


def gen_overwritten():
    """True when coq/Gen/Traversals.v is not what the translator derives from this run's source"""
    import os
    from dv import gen_traversals, gen_traversals_obj
    for mod, fname in ((gen_traversals, "Traversals.v"), (gen_traversals_obj, "TraversalsObj.v")):
        try:
            want = mod.generate(core.REPO)
        except Exception:
            continue              # fail-closed stub: handled by proof_stage
        try:
            with open(os.path.join(core.COQ, "Gen", fname)) as f:
                if f.read() != want:
                    return True
        except OSError:
            return True
    return False


# ---------------------------------------------------------------------------------------------
def build_cases(ctx, tier):
    rng = ctx.rng
    tree_list, cases = [], []

    def add(tree, starts, filt="random", hist=None):
        ix = len(tree_list)
        tree_list.append(tree)
        if hist is not None:
            ctx.count("tree:with-bipartition-history")
        cs = cases_for_tree(rng, tree, ix, starts, filt, hist=hist)
        cases.extend(cs)
        for tag in shape_label(tree):
            ctx.count("tree:" + tag)
        ctx.count("tree:nodes<=%d" % (5 if size(tree) <= 5 else 20 if size(tree) <= 20 else 100))

    if tier == "quick":
        fixed = [trees.shape_to_tree([]), trees.shape_to_tree([[]]), trees.shape_to_tree([[], []]),
                 trees.shape_to_tree([[[], []], [[], []]]), trees.shape_to_tree([[[], [], []], [[]], []])]
        for t in fixed:
            add(renumber(t), all_paths(t))
        add(renumber(trees.gen_tree(rng, 50, shape="star", lengths="none")), [[], [49], [0]])
        for _ in range(9):
            t = random_tree(rng, big=rng.random() < 0.3)
            add(t, sample_starts(rng, t, 3))
        for t, hist in list(fixed_histories(rng))[:3]:
            add(t, [[]], hist=hist)
        for _ in range(3):
            t, hist = make_history(rng, random_tree(rng, big=False))
            add(t, sample_starts(rng, t, 2), hist=hist)
    else:
        for t in small_trees(5):
            add(t, all_paths(t))
        add(renumber(trees.gen_tree(rng, 50, shape="star", lengths="none")), [[], [49], [0], [25]])
        for _ in range(150):
            t = random_tree(rng, big=rng.random() < 0.4)
            add(t, sample_starts(rng, t, 6))
        for t, hist in fixed_histories(rng):
            add(t, all_paths(t), hist=hist)
        for _ in range(40):
            t, hist = make_history(rng, random_tree(rng, big=False))
            add(t, sample_starts(rng, t, 4), hist=hist)
    for c in cases:
        ctx.count("kind:" + c["kind"])
        ctx.count("filter:" + ("none" if c["filter"] is None else "set"))
        ctx.count("start:" + ("seed" if not c["start"] else "subtree"))
    return tree_list, cases


def world_stage(ctx, tier):
    """several trees in one process: histories through child_nodes()/set_child_nodes, Tree(seed_node=attached node),
    tree.seed_node = attached node, node.parent_node = other, new_child, remove_child, refused calls (wave 8), trees created later; every live
    tree re-traversed with every iterator after every step (dv.c15_world)"""
    from dv import c15_world
    cases = c15_world.fixed_world_cases()
    for _ in range(120 if tier == "quick" else 1500):
        cases.append(c15_world.gen_world_case(ctx.rng, tier))
    runs = 0
    found = 0
    for case in cases:
        c15_world.count_world(ctx, case)
        v, k = c15_world.check_isolated(case)
        runs += k
        ctx.evaluations += k
        ctx.distinct.add("world:" + core.canon(case))
        if v:
            ctx.violation(v[0], {"case": case}, key=v[1])
            found += 1
            if found >= 3:
                break
    ctx.notes.append("multi-tree histories: %d histories, %d iterator runs through the oracle" % (len(cases), runs))
    return found


def run(tier, seed, replay=None):
    ctx = core.Ctx("C15", tier, seed)
    ctx.assumptions = [
        "the traversal machines are generated from the source by py/dv/gen_traversals.py (fail closed); the meaning "
        "of the Python primitives (list pop/extend/append/reversed/index/sort, generators, while) is coq/Model/C15Prims.v",
        "Node/Edge objects are always true (no __bool__/__len__; checked by the translator), Node.edge returns _edge and "
        "Tree.seed_node returns _seed_node (checked by the translator)",
        "object graph = located nodes of a rose tree: child lists, parent pointers and identity are those of a well-formed tree (C03)",
        "age attributes are inputs of the model (read after Tree.ageorder_node_iter's optional calc_node_ages call)",
    ]
    if replay:
        r = json.load(open(replay))["replay"]
        case = r.get("case") or r.get("first_disagreeing_case")
        if case is None:
            print("replay file names broken obligations, no input:", json.dumps(r)[:2000])
            return 0
        if "world" in case:
            from dv import c15_world
            obs = c15_world.observe_world(case)
            print("history:", c15_world.describe(case, len(case["steps"])))
            print("oracle:", c15_world.oracle_world(case, obs))
            return 0
        obs = observe(case)
        print("observed:", obs)
        print("expected:", expected(case, obs))
        print("oracle:", oracle(case, obs))
        return 0
    ok = core.proof_stage(ctx, ["Props/C15.vo"], gen_needed=("Traversals",))     # Traversals.v and TraversalsObj.v
    if gen_overwritten():
        # another check running concurrently regenerates coq/Gen from its own DV_REPO: build again
        ctx.notes.append("coq/Gen/Traversals.v was overwritten by a concurrent run during the build; proof stage repeated")
        ctx.obligations = []
        ok = core.proof_stage(ctx, ["Props/C15.vo"], gen_needed=("Traversals",))
        if gen_overwritten():
            ctx.obligation("coq/Gen/Traversals.v stable during the build (no concurrent regeneration)", False)
            ok = False
    if not ok and not any(n.startswith("Gen:") for n, o in ctx.obligations if not o):
        # a compiled coq/Gen/*.vo can be stale when a concurrent run (another DV_REPO) rewrote the .v while it was being
        # compiled (the .vo ends up newer than the restored .v): force a rebuild of the generated files once
        import os
        for fname in ("Traversals.v", "TraversalsObj.v"):
            try:
                os.utime(os.path.join(core.COQ, "Gen", fname))
            except OSError:
                pass
        ctx.notes.append("proof stage repeated after touching coq/Gen/Traversals*.v (possibly stale .vo)")
        ctx.obligations = []
        ok = core.proof_stage(ctx, ["Props/C15.vo"], gen_needed=("Traversals",))
    if not ok:
        core.broken_proof(ctx, search)
    tree_list, cases = build_cases(ctx, tier)
    core.corr_stage(ctx, cases, observe, to_coq, header_for(tree_list), "case_ok", oracle=oracle,
                    show_fn="case_run", nontrivial=nontrivial, search=search, shard=250,
                    sample_fn=lambda c, o: {"kind": c["kind"], "tree": trees.newick(label_ids(c["tree"]), with_len=False),
                                            "start": c["start"], "flags": c["flags"], "filter": c["filter"], "observed": o})
    found = world_stage(ctx, tier)
    if not found and not ctx.violations:
        # the same histories against the object-level model (store of node records and list objects; mutators generated
        # from the source by gen_traversals_obj.py; generated traversal machines on the object graph of the store)
        from dv import c15_world
        wcases = c15_world.fixed_world_cases() + [c15_world.gen_world_case(ctx.rng, tier)
                                                  for _ in range(40 if tier == "quick" else 400)]
        core.corr_stage(ctx, wcases, c15_world.observe_world_coq, c15_world.to_coq_world, c15_world.HEADER_WORLD,
                        "hcase_ok", oracle=c15_world.oracle_world_coq, nontrivial=c15_world.nontrivial_world,
                        search=search, shard=12, label="object-level histories")
    return ctx.finish(
        level="proof",
        rule="every iterator of Node (at every/sampled start node) and of Tree on fixed small shapes, a 50-wide star and random "
             "trees (single node, unifurcations, unifurcating root chains, polytomies; thorough: all shapes <= 4 leaves with "
             "unifurcation variants, every start node); random filter sets with non-bool truth values, random flags, callback "
             "subsets; a case is non-trivial when the start node's subtree has >= 3 nodes; distinct by full case content; "
             "plus multi-tree histories (dv.c15_world): 1-3 small trees, 2-5 (thorough 2-8) steps among child_nodes()-copy "
             "edited and assigned back / kept, Tree(seed_node=attached node), tree.seed_node = attached node, "
             "node.parent_node = other, new_child, remove_child, new tree, and (wave 8) REFUSED calls caught by the caller "
             "(remove_child of a node that is not a child of the receiver: child of another node / itself / its parent / a seed / "
             "a node of another tree; add_child of the node itself / its parent; the spec world does not change, the pointers of "
             "every node ever created are compared before/after); after every step every live tree is "
             "traversed with every iterator kind under a step bound and compared with the recursive definition on the "
             "harness's spec world; pointer structure, list identities and caller-held lists observed as well")
