"""C16 - histories with CALLER-HELD taxon_state_sets_map objects shared between calls and trees.

The usage recommended in the notes of parsimony_score: build the taxon -> state-set-list map of a
matrix once and call fitch_down_pass / fitch_up_pass with it, on several trees, several times.  A
case holds 1-3 tree OBJECTS over one namespace, 2-4 held map objects and a sequence of steps, each
a call on one tree object with one of the held maps (or without a map, or parsimony_score, which
builds a throw-away map).  After EVERY step the contents of EVERY held map and the `state_sets`
attribute of every node of EVERY tree are observed, together with the identity of the list objects
involved (which list object a node attribute refers to: a row of a held map, or another list;
canonical numbers by first appearance, all objects kept alive during the history).

Object-level model: coq/Model/C16ObjModel.v (heap of list objects, node attribute -> object,
map row -> object); theorems Props/C16.v `scoring_never_mutates_a_list_object`,
`object_level_refines_value_level`.
"""
import copy
import random

from dv import core, trees, c16
from dv.core import cz, cbool, clist, copt, cpair, cnat

HEADER = ("From DV Require Import Model.PyPrims Model.Tree Model.C16Model Model.C16ObjModel.\n"
          "From Coq Require Import ZArith. Open Scope Z_scope.")


# --------------------------------------------------------------------------------------------
# generation
# --------------------------------------------------------------------------------------------

def gen_held_case(rng, max_leaves=9):
    n = min(rng.choice([2, 3, 4, 4, 5, 5, 6, 6, 7, 8, 9]), max_leaves)
    r = rng.random()
    if r < 0.9:
        base = trees.gen_tree(rng, n, shape="binary", lengths="none")
    else:
        base = trees.gen_tree(rng, n, shape=rng.choice(["mixed", "poly"]), lengths="none")
    specs = [base]
    for _ in range(rng.choice([0, 1, 1, 2])):
        k = rng.random()
        if k < 0.35:
            specs.append(copy.deepcopy(base))                       # a second object of the same tree
        elif k < 0.55:
            specs.append(c16.swap_copy(rng, base))
        elif k < 0.75 and n >= 2:
            specs.append(c16.reroot_copy(base, rng.randrange(1, len(trees.preorder(base)))))
        else:
            specs.append(trees.gen_tree(rng, n, shape="binary", lengths="none"))
    nm = rng.choice([1, 2, 2, 3])
    mats = [c16.gen_mat(rng, n, odd=0.04)]
    for _ in range(nm - 1):
        if rng.random() < 0.75:
            # same data type and dimensions, other data: maps are interchangeable, scores differ
            m = copy.deepcopy(mats[0])
            m["rows"] = c16.gen_rows(rng, m["dtype"], m["order"], m["nchar"])
            mats.append(m)
        else:
            mats.append(c16.gen_mat(rng, n, odd=0.04))
    nmaps = rng.choice([2, 2, 3, 4])
    maps = []
    for k in range(nmaps):
        j = k if k < nm else rng.randrange(nm)
        maps.append({"mat": j, "gam": rng.random() < 0.6})
    steps = []
    for _ in range(rng.choice([2, 3, 3, 4, 4, 5, 6])):
        ti = rng.randrange(len(specs))
        k = rng.random()
        st = {"tree": ti, "api": "DP", "map": None, "mat": None, "gam": True, "weights": None,
              "sbc": rng.random() < 0.5}
        if k < 0.72:
            st["map"] = rng.randrange(nmaps)
        elif k < 0.80:
            st["api"] = "UP"
            st["map"] = rng.randrange(nmaps) if rng.random() < 0.5 else None
            st["sbc"] = False
        elif k < 0.86:
            pass                                                      # down pass without a map
        else:
            st["api"] = "PS"
            st["mat"] = rng.randrange(nm)
            st["gam"] = rng.random() < 0.6
        if st["api"] != "UP" and rng.random() < 0.3:
            j = maps[st["map"]]["mat"] if st["map"] is not None else (st["mat"] if st["mat"] is not None else 0)
            st["weights"] = [rng.choice([0, 1, 1, 2, 3, 5]) for _ in range(mats[j]["nchar"])]
        steps.append(st)
    return {"ntaxa": n, "trees": specs, "mats": mats, "maps": maps, "steps": steps, "kind": "held"}


def demo_case():
    """the shape of seeded/C16-7: map A, map B, map A again on one tree, then map A on another tree"""
    base = trees.shape_to_tree([[[[], []], []], [[], []]])
    sym = {ch: i for i, ch in enumerate("ACGT-?NRYMWSKVHDB")}
    a = ["AAGGR", "AAGCT", "CAG-T", "CTAGN", "CTACT"]
    b = ["ACGTA", "CGTAC", "GTACG", "TACGT", "AGCTY"]
    mk = lambda seqs: {"dtype": "dna", "nchar": 5, "order": list(range(5)),
                       "rows": {str(i): [sym[ch] for ch in s] for i, s in enumerate(seqs)}}
    step = lambda ti, k: {"tree": ti, "api": "DP", "map": k, "mat": None, "gam": True, "weights": None, "sbc": True}
    return {"ntaxa": 5, "trees": [base, copy.deepcopy(base)], "mats": [mk(a), mk(b)],
            "maps": [{"mat": 0, "gam": True}, {"mat": 1, "gam": True}],
            "steps": [step(0, 0), step(0, 1), step(0, 0), step(1, 0)], "kind": "held-demo"}


# --------------------------------------------------------------------------------------------
# running the library
# --------------------------------------------------------------------------------------------

def masks(v):
    return [c16.mask(s) for s in v]


def observe_held(case):
    from dendropy.calculate import treescore
    from dendropy.model import parsimony
    ns, taxa = trees.make_namespace(case["ntaxa"])
    tindex = {id(t): i for i, t in enumerate(taxa)}

    def build_matrix(m):
        mt = c16.make_matrix(m["dtype"], ns)
        states = list(mt.default_state_alphabet)
        for x in m["order"]:
            mt.new_sequence(taxa[x], [states[s] for s in m["rows"][str(x)]])
        return mt

    mats = [build_matrix(m) for m in case["mats"]]
    held = [mats[h["mat"]].taxon_state_sets_map(gaps_as_missing=h["gam"]) for h in case["maps"]]
    tobjs = []
    for spec in case["trees"]:
        tree, by_id = trees.build_dendropy(spec, taxa, namespace=ns)
        tobjs.append((tree, [by_id[n["id"]] for n in trees.preorder(spec)]))
    keep = []
    canon = {}

    def ref(o):
        keep.append(o)                       # alive for the whole history: id() is unique
        return canon.setdefault(id(o), len(canon))

    def snapshot():
        mp = [[[tindex[id(t)], ref(row), masks(row)] for t, row in h.items()] for h in held]
        tr = []
        for _tree, order in tobjs:
            at = []
            for nd in order:
                v = getattr(nd, "state_sets", None)
                at.append(None if v is None else [ref(v), masks(v)])
            tr.append(at)
        return {"maps": mp, "trees": tr}

    def reference(st):
        """the same scoring call on a fresh tree object with a freshly built map of a freshly built matrix"""
        if st["api"] == "UP" or (st["api"] == "DP" and st["map"] is None):
            return None
        spec = case["trees"][st["tree"]]
        tree, _ = trees.build_dendropy(spec, taxa, namespace=ns)
        if st["api"] == "PS":
            j, gam = st["mat"], st["gam"]
        else:
            j, gam = case["maps"][st["map"]]["mat"], case["maps"][st["map"]]["gam"]
        mp = build_matrix(case["mats"][j]).taxon_state_sets_map(gaps_as_missing=gam)
        sbc = [] if st["sbc"] else None
        try:
            r = ["Ok", parsimony.fitch_down_pass(tree.postorder_node_iter(), taxon_state_sets_map=mp,
                                                 weights=st["weights"], score_by_character_list=sbc)]
        except Exception as e:
            r = ["Err", core.exc_enum(e)]
        return {"res": r, "sbc": None if sbc is None else list(sbc)}

    out = {"init": snapshot(), "steps": []}
    returned = []
    for st in case["steps"]:
        tree, _order = tobjs[st["tree"]]
        sbc = [] if st["sbc"] else None
        fresh_map = None
        try:
            with core.alarm(20):
                if st["api"] == "PS":
                    fresh_map = [[tindex[id(t)], masks(v)] for t, v in
                                 mats[st["mat"]].taxon_state_sets_map(gaps_as_missing=st["gam"]).items()]
                    r = treescore.parsimony_score(tree, mats[st["mat"]], gaps_as_missing=st["gam"],
                                                  weights=st["weights"], score_by_character_list=sbc)
                elif st["api"] == "DP":
                    mp = held[st["map"]] if st["map"] is not None else None
                    r = parsimony.fitch_down_pass(tree.postorder_node_iter(), taxon_state_sets_map=mp,
                                                  weights=st["weights"], score_by_character_list=sbc)
                else:
                    mp = held[st["map"]] if st["map"] is not None else None
                    parsimony.fitch_up_pass(tree.preorder_node_iter(), taxon_state_sets_map=mp)
                    r = 0
            if not isinstance(r, int) or isinstance(r, bool):
                raise RuntimeError("score is not an int: %r" % (r,))
            res = ["Ok", r]
        except RuntimeError:
            raise
        except Exception as e:
            res = ["Err", core.exc_enum(e)]
        returned.append(sbc)
        out["steps"].append({"res": res, "sbc": None if sbc is None else list(sbc), "fresh_map": fresh_map,
                             "snap": snapshot(), "ref": reference(st)})
    # the per-character lists handed back earlier, looked at again at the end of the history
    out["sbc_at_end"] = [None if s is None else list(s) for s in returned]
    return out


# --------------------------------------------------------------------------------------------
# oracle
# --------------------------------------------------------------------------------------------

def map_values(snap):
    return [[[t, v] for t, _o, v in mp] for mp in snap["maps"]]


def oracle_held(case, obs):
    init = map_values(obs["init"])
    for i, (st, o) in enumerate(zip(case["steps"], obs["steps"])):
        # a scoring call never changes the map it was given nor any other map
        now = map_values(o["snap"])
        for k in range(len(init)):
            if now[k] != init[k]:
                which = "the map it was given" if st["map"] == k else "a map it was not given"
                return ("step %d (%s on tree object %d with %s) changed held taxon_state_sets_map %d (%s): %s -> %s"
                        % (i, st["api"], st["tree"], "map %s" % st["map"] if st["map"] is not None else "no map",
                           k, which, init[k], now[k]),
                        "held-map-changed:%s:%s" % (st["api"], "given" if st["map"] == k else "other"))
    for i, (st, o) in enumerate(zip(case["steps"], obs["steps"])):
        # the score is a function of the tree and the data passed in only
        if o["ref"] is not None and (o["res"], o["sbc"]) != (o["ref"]["res"], o["ref"]["sbc"]):
            prior = [(s["api"], s["tree"], s["map"]) for s in case["steps"][:i]]
            return ("step %d (%s on tree object %d, held map %s) returned %s %s after steps %s; a fresh tree object "
                    "with a freshly built map of the same data gives %s %s"
                    % (i, st["api"], st["tree"], st["map"], o["res"], o["sbc"], prior, o["ref"]["res"], o["ref"]["sbc"]),
                    "history:held-map:%s" % st["api"])
    for i, o in enumerate(obs["steps"]):
        if o["sbc"] != obs["sbc_at_end"][i]:
            return ("the score_by_character_list handed back by step %d was %s and is %s at the end of the history"
                    % (i, o["sbc"], obs["sbc_at_end"][i]), "sbc-list-changed-later")
    return None


# --------------------------------------------------------------------------------------------
# Coq terms
# --------------------------------------------------------------------------------------------

def c_zl(l):
    return clist([cz(x) for x in l])


def c_snap(s):
    mp = clist([clist([cpair(cz(t), cpair(cz(o), c_zl(v))) for t, o, v in m]) for m in s["maps"]])
    tr = clist([clist([copt(a, lambda a: cpair(cz(a[0]), c_zl(a[1]))) for a in at]) for at in s["trees"]])
    return "(mkHSnap %s %s)" % (mp, tr)


def to_coq_held(case, obs):
    maps = clist([clist([cpair(cz(t), c_zl(v)) for t, _o, v in m]) for m in obs["init"]["maps"]])
    steps = []
    for st, o in zip(case["steps"], obs["steps"]):
        if st["api"] == "PS":
            api = "(HScore %s)" % clist([cpair(cz(t), c_zl(v)) for t, v in o["fresh_map"]])
        elif st["api"] == "DP":
            api = "(HDown %s)" % copt(st["map"], cnat)
        else:
            api = "(HUp %s)" % copt(st["map"], cnat)
        res = "(Ok %s)" % cz(o["res"][1]) if o["res"][0] == "Ok" else "(Err %s)" % o["res"][1]
        steps.append("(mkHStep %s %s %s %s %s %s %s)" % (cnat(st["tree"]), api, copt(st["weights"], c_zl),
                                                       cbool(st["sbc"]), res, copt(o["sbc"], c_zl), c_snap(o["snap"])))
    return "(mkHCase %s %s %s %s)" % (clist([trees.c_tree(t) for t in case["trees"]]), maps,
                                      c_snap(obs["init"]), clist(steps))


def nontrivial_held(case, obs):
    scores = set(o["res"][1] for o in obs["steps"] if o["res"][0] == "Ok")
    return case["ntaxa"] >= 3 and len(case["steps"]) >= 2 and any(s > 0 for s in scores)


def record(ctx, c):
    ctx.count("kind:" + c["kind"])
    ctx.count("held-tree-objects:%d" % len(c["trees"]))
    ctx.count("held-maps:%d" % len(c["maps"]))
    ctx.count("held-steps:%d" % len(c["steps"]))
    seen = set()
    for st in c["steps"]:
        ctx.count("held-api:%s/%s" % (st["api"], "map" if st["map"] is not None else ("matrix" if st["api"] == "PS" else "none")))
        if st["map"] is not None:
            if st["map"] in seen:
                ctx.count("held-map-reused")
            seen.add(st["map"])


def search_held(ctx, rng, n):
    cases = [demo_case()] + [gen_held_case(rng) for _ in range(n)]
    for case in cases:
        obs = observe_held(case)
        v = oracle_held(case, obs)
        if v:
            ctx.violation(v[0], {"case": case, "observed": {"results": [[o["res"], o["sbc"]] for o in obs["steps"]]}},
                          key=v[1])
            if ctx.violations:
                return len(cases)
    return len(cases)
