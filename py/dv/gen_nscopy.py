"""Translator for the constructor / copy protocol of TaxonNamespace (property C10).

Reads the CURRENT src/dendropy/datamodel/taxonmodel.py and compiles

    TaxonNamespace.__init__                       -> py_TaxonNamespace_init
    TaxonNamespace.__copy__                       -> py_TaxonNamespace_copy
    TaxonNamespace.populate_memo_for_taxon_namespace_scoped_copy / taxon_namespace_scoped_copy
                                                  -> py_populate_memo / py_scoped_copy

statement by statement into Gallina (coq/Gen/NamespaceCopy.v) over the run-time library
coq/Model/C10CopyPrims.v (+ the generated add_taxon / new_taxon of Gen/Namespace.v).  Driven by the
AST: the defaults of the keyword arguments, which attribute is initialised with what and in which
order (= the iteration order of __dict__), the comparisons on len(args), which method each
isinstance branch calls, the argument order of zip and the key / value of the memo assignment, the
attribute names skipped by the __dict__ loop, source and target of the deepcopy assignment, what
__copy__ passes to the constructor.  Every statement must match one of the whitelisted shapes below;
anything else raises Unsupported (py2coq writes a stub and the dependent proofs break).

Statements that only concern attributes outside the modelled state (label, comments, annotations)
are accepted in exactly the forms listed in LABEL_ONLY and rendered as comments.
"""
import ast
import os

from dv.gen_namespace import Unsupported, FIELDS, find_def, coq_str

OUTPUT = "NamespaceCopy.v"

FID = {"_taxa": "FTaxa", "_taxon_accession_index_map": "FAcc", "_accession_index_taxon_map": "FRev",
       "_current_accession_count": "FCount", "_taxon_bitmask_map": "FBm", "is_mutable": "FMut", "is_case_sensitive": "FCs"}
assert set(FID) == set(FIELDS)
UNTRACKED = ("comments",)
CMP = {ast.Gt: "Z.gtb", ast.Lt: "Z.ltb", ast.GtE: "Z.geb", ast.LtE: "Z.leb", ast.Eq: "Z.eqb"}


def dump(n):
    return ast.dump(n)


def is_name(e, n):
    return isinstance(e, ast.Name) and e.id == n


def is_attr(e, obj, attr):
    return isinstance(e, ast.Attribute) and is_name(e.value, obj) and e.attr == attr


def const_val(e):
    if isinstance(e, ast.Constant):
        v = e.value
        if v is None:
            return "VNone"
        if v is True or v is False:
            return "(VBool %s)" % ("true" if v else "false")
        if isinstance(v, int):
            return "(VInt (%d))" % v
    if isinstance(e, ast.Dict) and not e.keys:
        return "(VKw [])"
    if isinstance(e, ast.List) and not e.elts:
        return "(VList [])"
    raise Unsupported("constant %s" % dump(e))


def body_of(fn):
    b = fn.body
    if b and isinstance(b[0], ast.Expr) and isinstance(b[0].value, ast.Constant) and isinstance(b[0].value.value, str):
        b = b[1:]
    return b


def is_raise(s, exc):
    return (isinstance(s, ast.Raise) and isinstance(s.exc, ast.Call) and isinstance(s.exc.func, ast.Name)
            and s.exc.func.id == exc)


class Init(object):
    """compiler for TaxonNamespace.__init__"""

    def __init__(self, fn):
        self.fn = fn
        a = fn.args
        if [x.arg for x in a.args] != ["self"] or a.vararg is None or a.kwarg is None or a.kwonlyargs or a.defaults:
            raise Unsupported("__init__ signature")
        self.args, self.kw = a.vararg.arg, a.kwarg.arg
        self.keys = []          # tracked attributes in assignment order
        self.n = 0
        self.locals = set()

    def fresh(self):
        self.n += 1
        return "x__%d" % self.n

    def pop_call(self, e):
        """kwargs.pop("name", CONST) -> (name, default)"""
        if (isinstance(e, ast.Call) and isinstance(e.func, ast.Attribute) and is_name(e.func.value, self.kw)
                and e.func.attr == "pop" and len(e.args) == 2 and not e.keywords
                and isinstance(e.args[0], ast.Constant) and isinstance(e.args[0].value, str)):
            return e.args[0].value, const_val(e.args[1])
        return None

    def len_args_test(self, e):
        if (isinstance(e, ast.Compare) and len(e.ops) == 1 and type(e.ops[0]) in CMP
                and isinstance(e.left, ast.Call) and is_name(e.left.func, "len") and len(e.left.args) == 1
                and is_name(e.left.args[0], self.args) and isinstance(e.comparators[0], ast.Constant)
                and isinstance(e.comparators[0].value, int)):
            return "(%s (args_len v_%s) (%d))" % (CMP[type(e.ops[0])], self.args, e.comparators[0].value)
        raise Unsupported("test %s" % dump(e))

    def label_only(self, s):
        """statements that touch nothing but the label"""
        if isinstance(s, ast.Expr) and isinstance(s.value, ast.Call):
            f = s.value.func
            if (isinstance(f, ast.Attribute) and f.attr == "__init__" and isinstance(f.value, ast.Attribute)
                    and f.value.attr == "DataObject" and len(s.value.args) == 1 and is_name(s.value.args[0], "self")
                    and [k.arg for k in s.value.keywords] == ["label"]):
                return "DataObject.__init__(self, label=...)"
        if (isinstance(s, ast.If) and not s.orelse and len(s.body) == 1 and isinstance(s.body[0], ast.Assign)
                and len(s.body[0].targets) == 1 and is_attr(s.body[0].targets[0], "self", "label")
                and isinstance(s.test, ast.Compare) and isinstance(s.test.left, ast.Name) and s.test.left.id in self.locals):
            return "if %s ...: self.label = ..." % s.test.left.id
        return None

    # ---- statements; each returns Coq text of type res world given the continuation text k (a function
    #      of the current `n` / `w` variables, which are rebound by shadowing) ----

    def prologue(self, stmts, k):
        """attribute initialisation: state variable `n : ns`, keywords `v_<kw>`"""
        if not stmts:
            raise Unsupported("__init__ has no dispatch on len(args)")
        s, rest = stmts[0], stmts[1:]
        if isinstance(s, ast.If):
            missing = [a for a in FID if a not in self.keys]
            if missing:
                raise Unsupported("__init__ does not initialise %s before using the arguments" % missing)
            return "let w := view mw n in\n  " + self.dispatch(s, rest)
        if not (isinstance(s, ast.Assign) and len(s.targets) == 1):
            raise Unsupported("__init__ statement %s" % dump(s))
        t = s.targets[0]
        if isinstance(t, ast.Name):
            p = self.pop_call(s.value)
            if p is None:
                raise Unsupported("local %s = %s" % (t.id, dump(s.value)))
            self.locals.add(t.id)
            return "let '(v_%s, v_%s) := kw_pop %s %s v_%s in\n  %s" % (self.kw, t.id, coq_str(p[0]), p[1], self.kw,
                                                                       self.prologue(rest, k))
        if isinstance(t, ast.Attribute) and is_name(t.value, "self"):
            if t.attr in UNTRACKED:
                const_val(s.value)
                return "(* self.%s = ... : outside the modelled state *)\n  %s" % (t.attr, self.prologue(rest, k))
            if t.attr not in FID:
                raise Unsupported("attribute self.%s is not part of the modelled state" % t.attr)
            if t.attr in self.keys:
                raise Unsupported("self.%s initialised twice" % t.attr)
            self.keys.append(t.attr)
            p = self.pop_call(s.value)
            if p is not None:
                x = self.fresh()
                return ("let '(v_%s, %s) := kw_pop %s %s v_%s in\n  (do n <- attr_set %s %s n ;;\n  %s)"
                        % (self.kw, x, coq_str(p[0]), p[1], self.kw, FID[t.attr], x, self.prologue(rest, k)))
            return "(do n <- attr_set %s %s n ;;\n  %s)" % (FID[t.attr], const_val(s.value), self.prologue(rest, k))
        raise Unsupported("__init__ statement %s" % dump(s))

    def dispatch(self, s, rest):
        """if len(args) > 1: raise ... elif len(args) == 1: ... else: ...   followed by `if kwargs: raise`"""
        if not (len(rest) == 1 and isinstance(rest[0], ast.If) and is_name(rest[0].test, self.kw) and not rest[0].orelse
                and len(rest[0].body) == 1 and is_raise(rest[0].body[0], "TypeError")):
            raise Unsupported("__init__ must end with `if kwargs: raise TypeError(...)`")
        fin = "(fun w : world => if kw_nonempty v_%s then Err TypeErr else Ok w)" % self.kw
        return "let fin__ := %s in\n  %s" % (fin, self.branches(s))

    def branches(self, s):
        test = self.len_args_test(s.test)
        if len(s.body) == 1 and is_raise(s.body[0], "TypeError"):
            then = "Err TypeErr"
        else:
            then = self.block(s.body)
        if not s.orelse:
            els = "fin__ w"
        elif len(s.orelse) == 1 and isinstance(s.orelse[0], ast.If) and isinstance(s.orelse[0].test, ast.Compare):
            els = self.branches(s.orelse[0])
        else:
            els = self.block(s.orelse)
        return "if %s\n  then %s\n  else %s" % (test, then, els)

    def block(self, stmts):
        if not stmts:
            return "fin__ w"
        s, rest = stmts[0], stmts[1:]
        lo = self.label_only(s)
        if lo is not None:
            return "(* %s : label only *)\n  %s" % (lo, self.block(rest))
        # other = args[0]
        if (isinstance(s, ast.Assign) and len(s.targets) == 1 and isinstance(s.targets[0], ast.Name)
                and isinstance(s.value, ast.Subscript) and is_name(s.value.value, self.args)
                and isinstance(s.value.slice, ast.Constant) and isinstance(s.value.slice.value, int)):
            self.other = s.targets[0].id
            return "(do v_%s <- args_get v_%s (%d) ;;\n  %s)" % (self.other, self.args, s.value.slice.value, self.block(rest))
        # for i in other: if isinstance(i, Taxon): self.add_taxon(i) else: self.new_taxon(label=i)
        if isinstance(s, ast.For) and isinstance(s.target, ast.Name) and is_name(s.iter, getattr(self, "other", None)) and not s.orelse:
            v = s.target.id
            if not (len(s.body) == 1 and isinstance(s.body[0], ast.If)):
                raise Unsupported("body of the add loop")
            c = s.body[0]
            t = c.test
            if not (isinstance(t, ast.Call) and is_name(t.func, "isinstance") and len(t.args) == 2 and is_name(t.args[0], v)
                    and is_name(t.args[1], "Taxon")):
                raise Unsupported("add loop test %s" % dump(t))
            return ("(do xs__ <- carg_iter mw v_%s ;;\n  (do w <- py_for_w xs__ (fun v_%s w =>\n    if py_is_taxon v_%s\n    then %s\n    else %s) w ;;\n  %s))"
                    % (self.other, v, v, self.adder(c.body, v), self.adder(c.orelse, v), self.block(rest)))
        # if isinstance(other, TaxonNamespace): <copy the attributes>
        if (isinstance(s, ast.If) and not s.orelse and isinstance(s.test, ast.Call) and is_name(s.test.func, "isinstance")
                and len(s.test.args) == 2 and is_name(s.test.args[0], getattr(self, "other", None))
                and is_name(s.test.args[1], "TaxonNamespace")):
            return ("(do on__ <- carg_ns mw v_%s ;;\n  (do w <- match on__ with\n    | Some o_%s =>\n      %s\n    | None => Ok w\n    end ;;\n  %s))"
                    % (self.other, self.other, self.copy_attrs(s.body), self.block(rest)))
        raise Unsupported("__init__ statement %s" % dump(s))

    def adder(self, stmts, v):
        """self.add_taxon(i) / self.new_taxon(label=i)"""
        if not (len(stmts) == 1 and isinstance(stmts[0], ast.Expr) and isinstance(stmts[0].value, ast.Call)):
            raise Unsupported("add loop branch")
        c = stmts[0].value
        if not (isinstance(c.func, ast.Attribute) and is_name(c.func.value, "self")):
            raise Unsupported("add loop call")
        m = c.func.attr
        if m == "add_taxon" and len(c.args) == 1 and not c.keywords and is_name(c.args[0], v):
            pass
        elif m == "new_taxon" and ((len(c.args) == 1 and not c.keywords and is_name(c.args[0], v))
                                   or (not c.args and len(c.keywords) == 1 and c.keywords[0].arg == "label" and is_name(c.keywords[0].value, v))):
            pass
        else:
            raise Unsupported("add loop calls %s" % dump(c))
        return "(do (w, r__) <- py_%s w v_%s ;; Ok w)" % (m, v)

    def copy_attrs(self, stmts):
        """memo = {...}; for t1, t2 in zip(..): memo[id(..)] = ..; for k in other.__dict__: ...; annotations"""
        o = self.other
        out = []
        memo = None
        done_zip = done_dict = False
        for s in stmts:
            if (isinstance(s, ast.Assign) and len(s.targets) == 1 and isinstance(s.targets[0], ast.Name)
                    and isinstance(s.value, ast.Dict)):
                # the literal may only hold the namespace object and its list (never a Taxon)
                for kk, vv in zip(s.value.keys, s.value.values):
                    if not (isinstance(kk, ast.Call) and is_name(kk.func, "id") and len(kk.args) == 1):
                        raise Unsupported("memo literal key")
                    a = kk.args[0]
                    if not ((is_name(a, o) and is_name(vv, "self")) or (is_attr(a, o, "_taxa") and is_attr(vv, "self", "_taxa"))):
                        raise Unsupported("memo literal entry %s" % dump(kk))
                memo = s.targets[0].id
                out.append("let v_%s : list (tid * tid) := [] in" % memo)
                continue
            if isinstance(s, ast.For) and isinstance(s.target, ast.Tuple) and memo and not s.orelse:
                names = [e.id for e in s.target.elts if isinstance(e, ast.Name)]
                it = s.iter
                if not (len(names) == 2 and len(s.target.elts) == 2 and isinstance(it, ast.Call) and is_name(it.func, "zip")
                        and len(it.args) == 2 and not it.keywords):
                    raise Unsupported("memo loop header")
                srcs = []
                for a in it.args:
                    if is_attr(a, "self", "_taxa"):
                        srcs.append("(taxa (w_ns w))")
                    elif is_attr(a, o, "_taxa"):
                        srcs.append("(taxa o_%s)" % o)
                    else:
                        raise Unsupported("zip argument %s" % dump(a))
                if not (len(s.body) == 1 and isinstance(s.body[0], ast.Assign) and len(s.body[0].targets) == 1):
                    raise Unsupported("memo loop body")
                t = s.body[0].targets[0]
                if not (isinstance(t, ast.Subscript) and is_name(t.value, memo) and isinstance(t.slice, ast.Call)
                        and is_name(t.slice.func, "id") and len(t.slice.args) == 1 and isinstance(t.slice.args[0], ast.Name)
                        and t.slice.args[0].id in names and isinstance(s.body[0].value, ast.Name) and s.body[0].value.id in names):
                    raise Unsupported("memo assignment %s" % dump(s.body[0]))
                out.append("let v_%s := fold_left (fun m__ p__ => let '(v_%s, v_%s) := p__ in aset v_%s v_%s m__) (combine %s %s) v_%s in"
                           % (memo, names[0], names[1], t.slice.args[0].id, s.body[0].value.id, srcs[0], srcs[1], memo))
                done_zip = True
                continue
            if isinstance(s, ast.For) and isinstance(s.target, ast.Name) and is_attr(s.iter, o, "__dict__") and memo and not s.orelse:
                k = s.target.id
                if not (len(s.body) == 2 and isinstance(s.body[0], ast.If) and not s.body[0].orelse and len(s.body[0].body) == 1
                        and isinstance(s.body[0].body[0], ast.Continue)):
                    raise Unsupported("__dict__ loop body")
                skip = self.skip_test(s.body[0].test, k)
                a = s.body[1]
                ok = (isinstance(a, ast.Assign) and len(a.targets) == 1 and isinstance(a.targets[0], ast.Subscript)
                      and is_attr(a.targets[0].value, "self", "__dict__") and is_name(a.targets[0].slice, k)
                      and isinstance(a.value, ast.Call) and isinstance(a.value.func, ast.Attribute) and is_name(a.value.func.value, "copy")
                      and a.value.func.attr == "deepcopy" and len(a.value.args) == 2 and not a.value.keywords
                      and isinstance(a.value.args[0], ast.Subscript) and is_attr(a.value.args[0].value, o, "__dict__")
                      and is_name(a.value.args[0].slice, k) and is_name(a.value.args[1], memo))
                if not ok:
                    raise Unsupported("__dict__ loop assignment %s" % dump(a))
                keys = "[%s]" % "; ".join(FID[x] for x in self.keys)
                out.append("let w := set_ns w (fold_left (fun n__ v_%s => if %s then n__ else attr_deepcopy v_%s o_%s v_%s n__) %s (w_ns w)) in"
                           % (k, skip, memo, o, k, keys))
                done_dict = True
                continue
            if (isinstance(s, ast.Expr) and isinstance(s.value, ast.Call) and isinstance(s.value.func, ast.Attribute)
                    and is_name(s.value.func.value, "self") and s.value.func.attr in ("deep_copy_annotations_from", "copy_annotations_from")):
                out.append("(* self.%s(...) : annotations only *)" % s.value.func.attr)
                continue
            raise Unsupported("copy block statement %s" % dump(s))
        if not (done_zip and done_dict):
            raise Unsupported("copy block lacks the memo loop or the __dict__ loop")
        return "\n      ".join(out) + "\n      Ok w"

    def skip_test(self, e, k):
        if isinstance(e, ast.BoolOp) and isinstance(e.op, (ast.Or, ast.And)):
            op = "orb" if isinstance(e.op, ast.Or) else "andb"
            parts = [self.skip_test(x, k) for x in e.values]
            r = parts[0]
            for p in parts[1:]:
                r = "(%s %s %s)" % (op, r, p)
            return r
        if (isinstance(e, ast.Compare) and len(e.ops) == 1 and isinstance(e.ops[0], (ast.Eq, ast.NotEq)) and is_name(e.left, k)
                and isinstance(e.comparators[0], ast.Constant) and isinstance(e.comparators[0].value, str)):
            t = "(String.eqb (attr_name v_%s) %s)" % (k, coq_str(e.comparators[0].value))
            return t if isinstance(e.ops[0], ast.Eq) else "(negb %s)" % t
        raise Unsupported("skip test %s" % dump(e))

    def emit(self):
        body = self.prologue(body_of(self.fn), None)
        return ("(* TaxonNamespace.__init__, line %d *)\n"
                "Definition py_TaxonNamespace_init (mw : mworld) (v_%s : list carg) (v_%s : list (string * pyval)) : res world :=\n"
                "  let n := ns_blank in\n  %s.\n" % (self.fn.lineno, self.args, self.kw, body))


def gen_copy(fn):
    """def __copy__(self): return TaxonNamespace(self)"""
    b = body_of(fn)
    if not ([a.arg for a in fn.args.args] == ["self"] and len(b) == 1 and isinstance(b[0], ast.Return)
            and isinstance(b[0].value, ast.Call) and is_name(b[0].value.func, "TaxonNamespace")):
        raise Unsupported("__copy__ shape")
    c = b[0].value
    args = []
    for a in c.args:
        if not is_name(a, "self"):
            raise Unsupported("__copy__ argument %s" % dump(a))
        args.append("CNs h_self")
    kws = ["(%s, %s)" % (coq_str(k.arg), const_val(k.value)) for k in c.keywords]
    return ("(* TaxonNamespace.__copy__, line %d *)\n"
            "Definition py_TaxonNamespace_copy (mw : mworld) (h_self : nat) : res world :=\n"
            "  py_TaxonNamespace_init mw [%s] [%s].\n" % (fn.lineno, "; ".join(args), "; ".join(kws)))


def gen_scoped(pop, sc):
    """populate_memo_for_taxon_namespace_scoped_copy(self, memo) and taxon_namespace_scoped_copy(self, memo=None)"""
    b = body_of(pop)
    if [a.arg for a in pop.args.args] != ["self", "memo"] or len(b) != 2:
        raise Unsupported("populate_memo shape")
    c, r = b
    if not (isinstance(c, ast.If) and not c.orelse and isinstance(c.test, ast.Compare) and is_name(c.test.left, "memo")
            and len(c.test.ops) == 1 and isinstance(c.test.ops[0], ast.IsNot) and isinstance(c.test.comparators[0], ast.Constant)
            and c.test.comparators[0].value is None and isinstance(r, ast.Return) and is_name(r.value, "memo")):
        raise Unsupported("populate_memo statements")
    steps = []
    for s in c.body:
        if (isinstance(s, ast.Assign) and len(s.targets) == 1 and isinstance(s.targets[0], ast.Subscript) and is_name(s.targets[0].value, "memo")
                and isinstance(s.targets[0].slice, ast.Call) and is_name(s.targets[0].slice.func, "id")
                and is_name(s.targets[0].slice.args[0], "self") and is_name(s.value, "self")):
            steps.append("(* memo[id(self)] = self : the namespace object, not a Taxon *)")
            continue
        if (isinstance(s, ast.For) and isinstance(s.target, ast.Name) and is_attr(s.iter, "self", "_taxa") and len(s.body) == 1
                and not s.orelse):
            a, v = s.body[0], s.target.id
            if not (isinstance(a, ast.Assign) and len(a.targets) == 1 and isinstance(a.targets[0], ast.Subscript)
                    and is_name(a.targets[0].value, "memo") and isinstance(a.targets[0].slice, ast.Call)
                    and is_name(a.targets[0].slice.func, "id") and is_name(a.targets[0].slice.args[0], v) and is_name(a.value, v)):
                raise Unsupported("populate_memo loop body")
            steps.append("let m := fold_left (fun m__ v_%s => aset v_%s v_%s m__) (taxa n_self) m in" % (v, v, v))
            continue
        raise Unsupported("populate_memo statement %s" % dump(s))
    out = ("(* TaxonNamespace.populate_memo_for_taxon_namespace_scoped_copy, line %d *)\n"
           "Definition py_populate_memo (n_self : ns) (v_memo : option (list (tid * tid))) : option (list (tid * tid)) :=\n"
           "  match v_memo with\n  | Some m =>\n    %s\n    Some m\n  | None => None\n  end.\n\n"
           % (pop.lineno, "\n    ".join(steps)))
    b = body_of(sc)
    d = sc.args.defaults
    if not ([a.arg for a in sc.args.args] == ["self", "memo"] and len(d) == 1 and isinstance(d[0], ast.Constant) and d[0].value is None
            and len(b) == 2 and isinstance(b[0], ast.Expr) and isinstance(b[0].value, ast.Call)
            and is_attr(b[0].value.func, "self", "populate_memo_for_taxon_namespace_scoped_copy")
            and not b[0].value.args and [k.arg for k in b[0].value.keywords] == ["memo"] and is_name(b[0].value.keywords[0].value, "memo")
            and isinstance(b[1], ast.Return) and is_name(b[1].value, "self")):
        raise Unsupported("taxon_namespace_scoped_copy shape")
    out += ("(* TaxonNamespace.taxon_namespace_scoped_copy, line %d: returns the object itself *)\n"
            "Definition py_scoped_copy (h_self : nat) (n_self : ns) (v_memo : option (list (tid * tid))) : nat * option (list (tid * tid)) :=\n"
            "  let m__ := py_populate_memo n_self v_memo in\n  (h_self, m__).\n" % sc.lineno)
    return out


def plain_attribute_flags(cls):
    """is_mutable / is_case_sensitive must be plain instance attributes (no property / __setattr__ hook):
    the model's SetMutable / SetCS are bare field updates"""
    for n in cls.body:
        if isinstance(n, ast.FunctionDef) and n.name in ("__setattr__", "__getattr__", "__getattribute__"):
            raise Unsupported("TaxonNamespace defines %s" % n.name)
        if isinstance(n, ast.Assign):
            for t in n.targets:
                if isinstance(t, ast.Name) and t.id in ("is_mutable", "is_case_sensitive"):
                    raise Unsupported("TaxonNamespace.%s is a class-level attribute / property" % t.id)
        if isinstance(n, ast.FunctionDef) and n.name in ("is_mutable", "is_case_sensitive"):
            raise Unsupported("TaxonNamespace.%s is a method / property" % n.name)


def generate(repo):
    path = os.path.join(repo, "src", "dendropy", "datamodel", "taxonmodel.py")
    with open(path) as f:
        tree = ast.parse(f.read())
    cls = [n for n in tree.body if isinstance(n, ast.ClassDef) and n.name == "TaxonNamespace"]
    if len(cls) != 1:
        raise Unsupported("class TaxonNamespace")
    plain_attribute_flags(cls[0])
    get = lambda name: find_def(tree, name, "TaxonNamespace")
    out = ["(* GENERATED by py/dv/gen_nscopy.py from datamodel/taxonmodel.py -- do not edit.",
           "   Meaning of the primitives: coq/Model/C10CopyPrims.v *)",
           "From Coq Require Import ZArith List Bool String.",
           "From DV Require Import Model.PyPrims Model.C10Model Model.C10ModelExt Model.C10NsPrims Model.C10CopyModel",
           "  Model.C10CopyPrims Gen.Namespace.",
           "Import ListNotations.",
           "Open Scope Z_scope.", "",
           "(* is_mutable / is_case_sensitive are plain instance attributes (checked: no property, no __setattr__) *)", ""]
    out.append(Init(get("__init__")).emit())
    out.append(gen_copy(get("__copy__")))
    out.append(gen_scoped(get("populate_memo_for_taxon_namespace_scoped_copy"), get("taxon_namespace_scoped_copy")))
    return "\n".join(out)


if __name__ == "__main__":
    import sys
    print(generate(sys.argv[1] if len(sys.argv) > 1 else "/repo"))
