"""C10, copy protocol: histories over SEVERAL TaxonNamespace objects (constructors, copy.copy,
copy.deepcopy, taxon_namespace_scoped_copy, ==, <) - model coq/Model/C10CopyModel.v."""
import copy
import warnings

from dv import core
from dv.core import cz, cbool, clist, copt, cpair
from dv import c10 as base

MHEADER = ("From DV Require Import Model.PyPrims Model.C10Model Model.C10CopyModel.\n"
           "From Coq Require Import ZArith List. Import ListNotations. Open Scope Z_scope.")


class _Uni(object):
    def __init__(self, free):
        self.nobj = len(free)
        self.label = {i: l for i, l in enumerate(free)}


class _MSim(base._Sim):
    """one namespace of the generator's steering simulation; Taxon objects are shared"""

    def __init__(self, pool, uni, cs, mutable=True):
        self.pool = pool
        self.uni = uni
        self.label = uni.label
        self.members = []
        self.idx = {}
        self.count = 0
        self.mutable = mutable
        self.cs = cs

    nobj = property(lambda self: self.uni.nobj, lambda self, v: setattr(self.uni, "nobj", v))

    def clone(self):
        s = _MSim(self.pool, self.uni, self.cs, self.mutable)
        s.members = list(self.members)
        s.idx = dict(self.idx)
        s.count = self.count
        return s

    def deep(self):
        s = _MSim(self.pool, self.uni, self.cs, self.mutable)
        s.count = self.count
        for t in self.members:
            n = self.uni.nobj
            self.uni.nobj += 1
            self.uni.label[n] = self.uni.label[t]
            s.members.append(n)
            s.idx[n] = self.idx[t]
        return s


def gen_base_op(rng, sim, pool, others):
    """one operation of C10Model.step for the namespace `sim`; operands are steered towards its
    members, towards taxa of the OTHER namespaces (shared objects) and towards present labels"""
    def L():
        if sim.members and rng.random() < 0.6:
            l = sim.label[rng.choice(sim.members)]
            if rng.random() < 0.4:
                l = rng.choice([i for i, s in enumerate(pool) if s.lower() == pool[l].lower()])
            return l
        return rng.randrange(len(pool))

    def CS():
        return rng.choice([None, None, True, False])

    def T():
        r = rng.random()
        if sim.members and r < 0.5:
            return rng.choice(sim.members)
        foreign = [t for o in others for t in o.members]
        if foreign and r < 0.8:
            return rng.choice(foreign)
        return rng.randrange(max(1, sim.nobj))

    def mask():
        live = [sim.idx[t] for t in sim.members]
        m = 0
        for i in rng.sample(live, rng.randint(0, len(live))):
            m |= 1 << i
        if rng.random() < 0.15:
            m |= 1 << rng.randint(0, sim.count + 1)
        return m

    def batch():
        # argument of add_taxa: Taxon objects of this and of the OTHER namespaces, non-members repeated
        out = [T() for _ in range(rng.randint(0, 4))]
        non = [t for t in out if t not in sim.idx]
        if non and rng.random() < 0.6:
            for _ in range(rng.randint(1, 2)):
                out.insert(rng.randint(0, len(out)), rng.choice(non))
        elif out and rng.random() < 0.3:
            out.insert(rng.randint(0, len(out)), rng.choice(out))
        return out

    k = rng.random()
    if k < 0.10:
        return ["NewTaxon", L()]
    if k < 0.13:
        return ["AddTaxa", batch(), rng.randrange(3)]
    if k < 0.17:
        ls = [L() for _ in range(rng.randint(0, 3))]
        if ls and rng.random() < 0.4:
            ls.insert(rng.randint(0, len(ls)), rng.choice(ls))      # the same label twice in one batch
        return ["NewTaxa", ls]
    if k < 0.24:
        return ["RequireTaxon", L(), CS()]
    if k < 0.34:
        return ["AddTaxon", T(), rng.randrange(3)]
    if k < 0.44:
        return ["RemoveTaxon", T(), rng.randrange(3)]
    if k < 0.47:
        return ["RemoveLabel", L(), CS(), rng.random() < 0.6]
    if k < 0.50:
        return ["DiscardLabel", L(), CS(), rng.random() < 0.6]
    if k < 0.51:
        return ["Clear"]
    if k < 0.59:
        return ["Sort", rng.random() < 0.4]
    if k < 0.64:
        return ["Reverse"]
    if k < 0.70:
        return ["Relabel", T(), rng.randrange(len(pool))]
    if k < 0.73:
        return ["GetTaxon", L(), CS()]
    if k < 0.77:
        return ["FindAll", L(), CS()]
    if k < 0.79:
        return ["HasLabel", L(), CS()]
    if k < 0.82:
        return ["TaxonBitmask", T()]
    if k < 0.86:
        ts = rng.sample(sim.members, rng.randint(0, min(4, len(sim.members)))) if sim.members else []
        return ["TaxaBitmask", ts, rng.randrange(2)]
    if k < 0.88:
        return ["AllBitmask"]
    if k < 0.92:
        return ["BitmaskTaxa", mask()]
    if k < 0.94:
        return ["NewickGroups", mask(), rng.randrange(2)]
    if k < 0.97:
        return ["SetMutable", rng.random() < 0.5]
    return ["SetCS", rng.random() < 0.5]


def gen_mcase(rng, maxlen):
    pool = sorted(set(rng.choice(base.POOLS)))
    free = [rng.randrange(len(pool)) for _ in range(rng.randint(0, 3))]
    uni = _Uni(free)
    sims = []
    ops = []

    def kwflags():
        mut = rng.choice([None, None, None, True, False])
        cs = rng.choice([None, None, True, False])
        return mut, cs

    def construct(src, mut, cs):
        ops.append(["MConstruct", src, mut, cs])
        m = True if mut is None else mut
        c = False if cs is None else cs
        if src is None:
            sims.append(_MSim(pool, uni, c, m))
        elif src[0] == "items":
            s = _MSim(pool, uni, c, m)
            snap = (uni.nobj, dict(uni.label))
            ok = True
            for kind, v in src[1]:
                if not s.mutable and not (kind == "t" and v in s.idx):
                    ok = False
                    break
                if kind == "t":
                    s._add(v)
                else:
                    s._new(v)
            if ok:
                sims.append(s)
            else:
                uni.nobj = snap[0]
                uni.label.clear()
                uni.label.update(snap[1])
                s.label = uni.label
        else:
            o = sims[src[1]]
            if m or not o.members:
                sims.append(o.clone())

    # first namespace
    r = rng.random()
    if r < 0.6:
        items = [["l", rng.randrange(len(pool))] for _ in range(rng.randint(2, 6))]
        for i in range(len(free)):
            if rng.random() < 0.5:
                items.insert(rng.randint(0, len(items)), ["t", i])
        if items and rng.random() < 0.3:
            t = [x for x in items if x[0] == "t"]
            if t:
                items.append(list(rng.choice(t)))       # the same Taxon object twice
        construct(["items", items], None, rng.choice([None, True, False]))
    else:
        construct(None, None, rng.choice([None, True, False]))
    n = rng.randint(2, maxlen)
    while len(ops) < n:
        k = rng.random()
        if not sims:
            construct(None, None, None)
            continue
        h = rng.randrange(len(sims))
        if k < 0.70:
            # favour the most recent namespaces and their sources
            if rng.random() < 0.5:
                h = len(sims) - 1
            op = gen_base_op(rng, sims[h], pool, [s for i, s in enumerate(sims) if i != h])
            ops.append(["MOn", h, op])
            sims[h].apply(op)
        elif k < 0.78 and len(sims) < 5:
            ops.append(["MCopy", h, rng.randrange(2)])
            sims.append(sims[h].clone())
        elif k < 0.84 and len(sims) < 5:
            mut, cs = kwflags()
            construct(["ns", h], mut, cs)
        elif k < 0.90 and len(sims) < 5:
            ops.append(["MDeepCopy", h])
            sims.append(sims[h].deep())
        elif k < 0.93 and len(sims) < 5:
            mut, cs = kwflags()
            items = []
            for _ in range(rng.randint(0, 4)):
                if uni.nobj and rng.random() < 0.5:
                    items.append(["t", rng.randrange(uni.nobj)])
                else:
                    items.append(["l", rng.randrange(len(pool))])
            if items and rng.random() < 0.5:
                # the same Taxon object / the same label more than once in the initialiser
                for _ in range(rng.randint(1, 2)):
                    items.insert(rng.randint(0, len(items)), list(rng.choice(items)))
            construct(["items", items], mut, cs)
        elif k < 0.95:
            ops.append(["MScopedCopy", h])
        elif k < 0.975:
            ops.append(["MEq", h, rng.randrange(len(sims))])
        else:
            ops.append(["MLt", h, rng.randrange(len(sims))])
    return {"pool": pool, "free": free, "ops": ops, "probe": rng.random() < 0.5}


def apply_base(ns, op, pool, objs, reg):
    """one C10Model.step operation on the real namespace `ns` (several API spellings)"""
    name = op[0]
    if name == "AddTaxon":
        v = op[2] if len(op) > 2 else 0
        if v == 1:
            ns.append(objs[op[1]])
        elif v == 2:
            ns.add_taxa([objs[op[1]]])
        else:
            ns.add_taxon(objs[op[1]])
        return ["OUnit"]
    if name == "AddTaxa":
        batch = [objs[i] for i in op[1]]
        v = op[2] if len(op) > 2 else 0
        r = ns.add_taxa((t for t in batch) if v == 1 else tuple(batch) if v == 2 else batch)
        assert r is None
        return ["OUnit"]
    if name == "NewTaxon":
        return ["OTax", reg(ns.new_taxon(pool[op[1]]))]
    if name == "NewTaxa":
        return ["OTaxa", [reg(t) for t in ns.new_taxa([pool[i] for i in op[1]])]]
    if name == "RequireTaxon":
        return ["OTax", reg(ns.require_taxon(pool[op[1]], is_case_sensitive=op[2]))]
    if name == "RemoveTaxon":
        v = op[2] if len(op) > 2 else 0
        o = objs[op[1]]
        pos = [i for i, t in enumerate(ns) if t is o]
        if v == 1 and pos:
            del ns[pos[0]]
        elif v == 2:
            with warnings.catch_warnings():
                warnings.simplefilter("ignore")
                ns.remove(o)
        else:
            ns.remove_taxon(o)
        return ["OUnit"]
    if name == "RemoveLabel":
        ns.remove_taxon_label(pool[op[1]], is_case_sensitive=op[2], first_match_only=op[3])
        return ["OUnit"]
    if name == "DiscardLabel":
        ns.discard_taxon_label(pool[op[1]], is_case_sensitive=op[2], first_match_only=op[3])
        return ["OUnit"]
    if name == "Clear":
        ns.clear()
        return ["OUnit"]
    if name == "Sort":
        ns.sort(reverse=op[1])
        return ["OUnit"]
    if name == "Reverse":
        ns.reverse()
        return ["OUnit"]
    if name == "Relabel":
        objs[op[1]].label = pool[op[2]]
        return ["OUnit"]
    if name == "GetTaxon":
        t = ns.get_taxon(pool[op[1]], is_case_sensitive=op[2])
        return ["OTax", None if t is None else reg(t)]
    if name == "FindAll":
        return ["OTaxa", [reg(t) for t in ns.findall(pool[op[1]], is_case_sensitive=op[2])]]
    if name == "HasLabel":
        return ["OBool", bool(ns.has_taxon_label(pool[op[1]], is_case_sensitive=op[2]))]
    if name == "TaxonBitmask":
        return ["OInt", ns.taxon_bitmask(objs[op[1]])]
    if name == "TaxaBitmask":
        f = ns.get_taxa_bitmask if (len(op) > 2 and op[2] == 1) else ns.taxa_bitmask
        return ["OInt", f(taxa=[objs[i] for i in op[1]])]
    if name == "AllBitmask":
        return ["OInt", ns.all_taxa_bitmask()]
    if name == "BitmaskTaxa":
        return ["OTaxa", [reg(t) for t in ns.bitmask_taxa_list(op[1])]]
    if name == "NewickGroups":
        s = ns.split_as_newick_string(op[1]) if (len(op) > 2 and op[2] == 1) else ns.bitmask_as_newick_string(op[1])
        return base.parse_groups(s, pool, ns, op[1])
    if name == "SetMutable":
        ns.is_mutable = op[1]
        return ["OUnit"]
    if name == "SetCS":
        ns.is_case_sensitive = op[1]
        return ["OUnit"]
    raise RuntimeError("unknown op " + name)


def observe_m(case):
    import dendropy
    from dendropy.utility import deprecate
    if deprecate.DEPRECATION_WARNING_FILTER != "ignore":
        deprecate.configure_deprecation_warning_behavior("ignore")
    pool = case["pool"]
    objs, tid = [], {}

    def reg(t):
        if id(t) not in tid:
            tid[id(t)] = len(objs)
            objs.append(t)
        return tid[id(t)]

    for li in case["free"]:
        reg(dendropy.Taxon(label=pool[li]))
    nss = []
    res = []
    for op in case["ops"]:
        name = op[0]
        try:
            if name == "MOn":
                bop = op[2]
                refs = [bop[1]] if bop[0] in ("AddTaxon", "RemoveTaxon", "Relabel", "TaxonBitmask") else \
                       (bop[1] if bop[0] in ("TaxaBitmask", "AddTaxa") else [])
                if op[1] >= len(nss) or any(i >= len(objs) for i in refs):
                    raise base.core_skip()
                out = apply_base(nss[op[1]], bop, pool, objs, reg)
            elif name in ("MConstruct", "MCopy"):
                kw = {}
                if name == "MConstruct":
                    src, mut, cs = op[1], op[2], op[3]
                    if mut is not None:
                        kw["is_mutable"] = mut
                    if cs is not None:
                        kw["is_case_sensitive"] = cs
                else:
                    src = ["ns", op[1]]
                if src is not None and src[0] == "ns" and src[1] >= len(nss):
                    raise base.core_skip()
                if src is not None and src[0] == "items" and any(k == "t" and v >= len(objs) for k, v in src[1]):
                    raise base.core_skip()
                if name == "MCopy" and op[2] == 1:
                    new = copy.copy(nss[op[1]])
                elif name == "MCopy":
                    new = nss[op[1]].__copy__()
                elif src is None:
                    new = dendropy.TaxonNamespace(**kw)
                elif src[0] == "ns":
                    new = dendropy.TaxonNamespace(nss[src[1]], **kw)
                else:
                    new = dendropy.TaxonNamespace([objs[v] if k == "t" else pool[v] for k, v in src[1]], **kw)
                nss.append(new)
                for t in new:
                    reg(t)
                out = ["MHandle", len(nss) - 1]
            elif name == "MDeepCopy":
                if op[1] >= len(nss):
                    raise base.core_skip()
                new = copy.deepcopy(nss[op[1]])
                nss.append(new)
                for t in new:
                    reg(t)
                out = ["MHandle", len(nss) - 1]
            elif name == "MScopedCopy":
                if op[1] >= len(nss):
                    raise base.core_skip()
                memo = {}
                r = nss[op[1]].taxon_namespace_scoped_copy(memo=memo)
                hs = [i for i, n in enumerate(nss) if n is r]
                ok = bool(hs) and memo.get(id(r)) is r and len(memo) == 1 + len(r) and all(memo.get(id(t)) is t for t in r)
                out = ["MScoped", hs[0] if hs else -1, [reg(t) for t in r] if ok else [-1]]
            elif name in ("MEq", "MLt"):
                if op[1] >= len(nss) or op[2] >= len(nss):
                    raise base.core_skip()
                a, b = nss[op[1]], nss[op[2]]
                if name == "MEq":
                    v = (a == b)
                    assert (a != b) == (not v) and (hash(a) == hash(b)) == v
                else:
                    v = (a < b)
                out = ["OBool", bool(v)]
            else:
                raise RuntimeError("unknown op " + name)
        except base.core_skip:
            out = ["SKIP"]
        except Exception as e:
            out = ["OErr", core.exc_enum(e)]
        state = []
        for ns in nss:
            members = [[reg(t), base.acc_index(ns, t)] for t in ns]
            bits = [(ns.taxon_bitmask(t) if i >= 0 else -1) for t, (_r, i) in zip(ns, members)] if case.get("probe") else None
            proto = bool(len(ns) == len(members) and all(t in ns for t in ns) and all(ns[i] is t for i, t in enumerate(ns)))
            state.append({"m": members, "count": ns.all_taxa_bitmask().bit_length(), "mut": bool(ns.is_mutable),
                          "cs": bool(ns.is_case_sensitive), "labels": [pool.index(t.label) for t in ns],
                          "bits": bits, "proto": proto})
        res.append([out, state])
    return res


def normalise(case, obs):
    ops = [o for o, r in zip(case["ops"], obs) if r[0] != ["SKIP"]]
    ob = [r for r in obs if r[0] != ["SKIP"]]
    return ops, ob


# ---- oracle: stated independently on the implementation's observations ----

def oracle_m(case, obs):
    pool = case["pool"]
    ops, ob = normalise(case, obs)
    prev = []           # per namespace: the previous record
    seen = set(range(len(case["free"])))     # Taxon objects that existed before the step
    labels = {i: pool[l] for i, l in enumerate(case["free"])}
    for step, (op, (out, state)) in enumerate(zip(ops, ob)):
        name = op[0]
        target = op[1] if name == "MOn" else None
        created = len(state) > len(prev)
        if name in ("MCopy", "MDeepCopy") and out[0] != "MHandle":
            return ("%s of namespace %d failed with %s (step %d): a namespace can always be copied" % (name, op[1], out, step), "copy-failed:" + name)
        if created != (out[0] == "MHandle") or len(state) - len(prev) not in (0, 1):
            return ("step %d %s: %d namespaces before, %d after, result %s" % (step, op, len(prev), len(state), out), "namespace-count")
        for h, rec in enumerate(state):
            idx = {}
            for t, i in rec["m"]:
                if i < 0:
                    return ("namespace %d lists taxon %d without an accession index after step %d %s" % (h, t, step, op), "member-without-bit")
                if t in idx:
                    return ("namespace %d lists taxon %d twice after step %d %s" % (h, t, step, op), "duplicate-member")
                if i in idx.values():
                    return ("namespace %d: two members share accession index %d (bitmask %d) after step %d %s" % (h, i, 1 << i, step, op), "shared-bit")
                if not 0 <= i < rec["count"]:
                    return ("namespace %d: member %d has index %d outside all_taxa_bitmask (%d bits) after step %d %s" % (h, t, i, rec["count"], step, op), "bit-outside-all-taxa")
                idx[t] = i
            if rec["bits"] is not None and rec["bits"] != [1 << i for _t, i in rec["m"]]:
                return ("namespace %d: taxon_bitmask of the members is %s, their accession indices are %s (step %d %s)"
                        % (h, rec["bits"], [i for _t, i in rec["m"]], step, op), "bitmask-not-1<<index")
            if not rec["proto"]:
                return ("namespace %d: len / in / [] disagree with the member list after step %d" % (h, step), "container-protocol")
            if h < len(prev):
                p = prev[h]
                pidx = dict((t, i) for t, i in p["m"])
                for t, i in rec["m"]:
                    if t in pidx and pidx[t] != i:
                        return ("namespace %d: member taxon %d changed bit %d -> %d at step %d %s" % (h, t, pidx[t], i, step, op), "bit-changed:" + (op[2][0] if name == "MOn" else name))
                if h != target and (rec["m"] != p["m"] or rec["count"] != p["count"] or rec["mut"] != p["mut"] or rec["cs"] != p["cs"]):
                    return ("step %d %s changed namespace %d: members/bits %s -> %s, counter %d -> %d, flags %s -> %s"
                            % (step, op, h, p["m"], rec["m"], p["count"], rec["count"], (p["mut"], p["cs"]), (rec["mut"], rec["cs"])),
                            "not-independent:" + (op[2][0] if name == "MOn" else name))
                if h == target and op[2][0] in ("Sort", "Reverse"):
                    if pidx != idx or rec["count"] != p["count"]:
                        return ("%s changed bits or the counter of namespace %d at step %d" % (op[2][0], h, step), "reorder-changed-bits")
                    want = sorted([t for t, _ in p["m"]], key=lambda t: labels[t], reverse=op[2][1]) if op[2][0] == "Sort" else [t for t, _ in p["m"]][::-1]
                    if [t for t, _ in rec["m"]] != want:
                        return ("%s of namespace %d gave order %s, expected %s (step %d)" % (op[2][0], h, [t for t, _ in rec["m"]], want, step), "reorder-order")
                if h == target and op[2][0] in ("SetMutable", "SetCS"):
                    if rec["m"] != p["m"] or rec["count"] != p["count"]:
                        return ("%s changed members or bits of namespace %d at step %d" % (op[2][0], h, step), "flag-setter-changed-bits")
                    want = (op[2][1], p["cs"]) if op[2][0] == "SetMutable" else (p["mut"], op[2][1])
                    if (rec["mut"], rec["cs"]) != want:
                        return ("%s(%s) left flags %s (step %d)" % (op[2][0], op[2][1], (rec["mut"], rec["cs"]), step), "flag-setter")
                if h == target and op[2][0] == "AddTaxa":
                    pm = [t for t, _ in p["m"]]
                    new = []
                    for t in op[2][1]:
                        if t not in pm and t not in new:
                            new.append(t)
                    if p["mut"] or not new:
                        if out != ["OUnit"] or [t for t, _ in rec["m"]] != pm + new:
                            return ("namespace %d: add_taxa(%s) to members %s gave %s, members %s (step %d)" % (h, op[2][1], pm, out, [t for t, _ in rec["m"]], step), "add-taxa-batch-members")
                        if [idx[t] for t in new] != list(range(p["count"], p["count"] + len(new))) or rec["count"] != p["count"] + len(new):
                            return ("namespace %d: add_taxa(%s): new members got indices %s, counter %d -> %d (step %d)"
                                    % (h, op[2][1], [idx[t] for t in new], p["count"], rec["count"], step), "add-taxa-batch-bits")
                    elif out != ["OErr", "TypeErr"] or rec["m"] != p["m"] or rec["count"] != p["count"]:
                        return ("namespace %d: add_taxa(%s) with a non-member on an immutable namespace: %s (step %d)" % (h, op[2][1], out, step), "add-taxa-immutable")
                if h == target and not p["mut"] and op[2][0] != "SetMutable" and set(idx) - set(pidx):
                    return ("immutable namespace %d gained a member at step %d %s" % (h, step, op), "immutable-grew")
        if created:
            new = state[-1]
            members = [t for t, _ in new["m"]]
            src = None
            if name == "MCopy" or name == "MDeepCopy":
                src = op[1]
            elif name == "MConstruct" and op[1] is not None and op[1][0] == "ns":
                src = op[1][1]
            if src is not None:
                p = prev[src]
                if [i for _t, i in new["m"]] != [i for _t, i in p["m"]] or new["count"] != p["count"]:
                    return ("%s of namespace %d: the copy's bits are %s (counter %d), the original's %s (counter %d) (step %d)"
                            % (name, src, [i for _t, i in new["m"]], new["count"], [i for _t, i in p["m"]], p["count"], step), "copy-bits:" + name)
                if [pool[l] for l in new["labels"]] != [labels[t] for t, _ in p["m"]]:
                    return ("%s of namespace %d changed labels or order (step %d)" % (name, src, step), "copy-labels:" + name)
                if name == "MDeepCopy":
                    if set(members) & seen:
                        return ("deep copy shares a Taxon object with an existing namespace (step %d)" % step, "deepcopy-shared")
                elif members != [t for t, _ in p["m"]]:
                    return ("%s of namespace %d does not hold the same Taxon objects in the same order (step %d)" % (name, src, step), "copy-members")
                if name != "MConstruct" and (new["mut"], new["cs"]) != (p["mut"], p["cs"]):
                    return ("%s of namespace %d has flags %s, the original %s (step %d)" % (name, src, (new["mut"], new["cs"]), (p["mut"], p["cs"]), step), "copy-flags:" + name)
            elif name == "MConstruct":
                items = [] if op[1] is None else op[1][1]
                want_bits = list(range(len(members)))
                if [i for _t, i in new["m"]] != want_bits or new["count"] != len(members):
                    return ("TaxonNamespace(items): indices %s, counter %d (step %d)" % ([i for _t, i in new["m"]], new["count"], step), "construct-bits")
                exp = []
                for kind, v in items:
                    if kind == "l" or ("t", v) not in exp:
                        exp.append((kind, v))
                bad = len(exp) != len(members)
                for (kind, v), m, l in zip(exp, members, new["labels"]):
                    if kind == "t":
                        bad = bad or m != v
                    else:
                        bad = bad or m in seen or pool[l] != pool[v]
                if bad:
                    return ("TaxonNamespace(items) built members %s from %s (step %d)" % (members, items, step), "construct-members")
                want = (True if op[2] is None else op[2], False if op[3] is None else op[3])
                if (new["mut"], new["cs"]) != want:
                    return ("TaxonNamespace(..., is_mutable=%s, is_case_sensitive=%s) has flags %s (step %d)" % (op[2], op[3], (new["mut"], new["cs"]), step), "construct-flags")
        if name == "MScopedCopy" and out != ["MScoped", op[1], [t for t, _ in prev[op[1]]["m"]]]:
            return ("taxon_namespace_scoped_copy did not return the namespace itself with an identity memo (step %d): %s" % (step, out), "scoped-copy")
        if name == "MEq" and out != ["OBool", op[1] == op[2]]:
            return ("namespace %d == namespace %d gave %s (step %d)" % (op[1], op[2], out, step), "eq-identity")
        for rec in state:
            for (t, _), l in zip(rec["m"], rec["labels"]):
                labels[t] = pool[l]
        if name == "MOn" and op[2][0] == "Relabel":
            labels[op[2][1]] = pool[op[2][2]]
        for rec in state:
            seen.update(t for t, _ in rec["m"])
        if out[0] in ("OTax",) and out[1] is not None:
            seen.add(out[1])
        prev = state
    return None


# ---- Coq terms ----

def c_mout(o):
    if o[0] == "MHandle":
        return "(MHandle %d)" % o[1]
    if o[0] == "MScoped":
        return "(MScoped %d %s)" % (max(o[1], 0) if o[1] >= 0 else 999, clist([cz(x) for x in o[2]]))
    return "(MBase %s)" % base.c_out(o)


def c_src(s):
    if s is None:
        return "SNone"
    if s[0] == "ns":
        return "(SNs %d)" % s[1]
    return "(SItems %s)" % clist(["(ITaxon %s)" % cz(v) if k == "t" else "(ILabel %s)" % cz(v) for k, v in s[1]])


def c_mop(op):
    n = op[0]
    if n == "MOn":
        return "(MOn %d %s)" % (op[1], base.c_op(op[2]))
    if n == "MConstruct":
        return "(MConstruct %s %s %s)" % (c_src(op[1]), copt(op[2], cbool), copt(op[3], cbool))
    if n in ("MCopy", "MDeepCopy", "MScopedCopy"):
        return "(%s %d)" % (n, op[1])
    if n in ("MEq", "MLt"):
        return "(%s %d %d)" % (n, op[1], op[2])
    raise ValueError(op)


def to_coq_m(case, obs):
    pool = case["pool"]
    ops, ob = normalise(case, obs)
    low = {}
    pairs = []
    for i, s in enumerate(pool):
        l = s.lower()
        if l in pool:
            pairs.append((i, pool.index(l)))
        else:
            low.setdefault(l, 1000 + i)
            pairs.append((i, low[l]))
    lower = clist([cpair(cz(a), cz(b)) for a, b in pairs])
    free = clist([cpair(cz(i), cz(l)) for i, l in enumerate(case["free"])])

    def c_ns(rec):
        return cpair(clist([cpair(cz(t), cz(i)) for t, i in rec["m"]]),
                     cpair(cz(rec["count"]), cpair(cbool(rec["mut"]), cbool(rec["cs"]))))

    exp = clist([cpair(c_mout(o), clist([c_ns(r) for r in st])) for o, st in ob])
    return "(mkMCase %s %s %s %s)" % (lower, free, clist([c_mop(o) for o in ops]), exp)


def nontrivial_m(case, obs):
    ops, ob = normalise(case, obs)
    return len(ops) >= 3 and any(len(st) >= 2 and any(len(r["m"]) >= 2 for r in st) for _o, st in ob)


def search_m(ctx, budget_s):
    import random
    import time
    t0 = time.time()
    rng = random.Random(ctx.seed + 1077)
    n = 0
    while time.time() - t0 < budget_s and n < 20000:
        case = gen_mcase(rng, 25)
        obs = observe_m(case)
        v = oracle_m(case, obs)
        n += 1
        if v:
            ctx.violation(v[0], {"case": case, "observed": obs}, key=v[1])
            if ctx.violations:
                return
    ctx.notes.append("search (several namespaces): %d further histories through the oracle, no unlisted violation" % n)


def stage(ctx, tier):
    n = 240 if tier == "quick" else 5000
    cases = [gen_mcase(ctx.rng, 22 if tier == "quick" else 50) for _ in range(n)]

    def observe_counted(case):
        obs = observe_m(case)
        div = False
        for op, (out, state) in zip(case["ops"], obs):
            kind = op[0] if op[0] != "MOn" else "MOn:" + op[2][0]
            if op[0] == "MConstruct":
                kind += ":" + ("empty" if op[1] is None else op[1][0])
            ctx.count(kind)
            ctx.count("outcome:%s:%s" % (kind, out[1] if out[0] == "OErr" else ("skipped" if out[0] == "SKIP" else "ok")))
            # a Taxon object that is a member of two namespaces under different bits
            bit = {}
            for rec in state:
                for t, i in rec["m"]:
                    if bit.setdefault(t, i) != i:
                        div = True
        ctx.count("namespaces at the end: %d" % len(obs[-1][1]) if obs else "empty history")
        if div:
            ctx.count("history where one Taxon object has different bits in two namespaces")
        return obs

    core.corr_stage(ctx, cases, observe_counted, to_coq_m, MHEADER, "mcase_ok", oracle=oracle_m,
                    show_fn="mcase_run", nontrivial=nontrivial_m, search=search_m, shard=120,
                    label="multi-namespace correspondence",
                    sample_fn=lambda c, o: {"ops": c["ops"][:8], "pool": c["pool"]})
