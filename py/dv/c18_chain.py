"""C18 (wave 8): successive birth-death simulations that SHARE one TaxonNamespace, and the label
clauses of "N distinct taxa".

A case may carry "prior": a list of earlier simulator calls ({"sim", "b", "d", "N", "seed", "policy"}) that
are run first, in order, on the very namespace object the case's own call then receives (sizes smaller /
equal / larger than N; namespaces that already hold T<k>-style labels from the earlier run or put there by
the caller; case variants under the namespace's case rule).  For the Coq model a namespace IS its label list
(taxa are positions), so the step under test is the ordinary model case whose initial namespace is the label
list observed before the step; what is new is the history that produced it, what is observed around it
(object identities of the namespace's taxa, the earlier trees re-dumped after the step) and the oracle:

  N distinct taxa = pairwise distinct Taxon objects AND pairwise distinct label strings on the leaves; the
  supplied namespace is only extended (same objects, same order), gains no member whose label string equals
  an existing member's, and no tree returned earlier changes.
"""
import random
from fractions import Fraction

NS0_POOLS = [[], [], [], ["T1"], ["T2"], ["T3"], ["T1", "T2", "T3", "T4"], ["A", "T1"], ["x", "T2", "T5"], ["A", "B", "C"],
             ["T01", "T1"], ["A"], ["T4", "T3", "T2", "T1"], ["T2", "T4", "T6"]]
VARIANT_NS0 = [["t1"], ["t2", "A"], ["T1", "t2"], ["t1", "t2", "t3"], ["t3"]]
RATES = [("1", "0"), ("1", "0"), ("1", "1/2"), ("2", "1"), ("3", "1")]


def gen_prior(rng, sim_choices=("bd", "bd", "fbd")):
    """1-2 earlier calls; sizes 1..6"""
    out = []
    for _ in range(rng.choice([1, 1, 1, 2])):
        b, d = rng.choice(RATES)
        p = {"sim": rng.choice(sim_choices), "b": b, "d": d, "N": rng.choice([1, 2, 3, 4, 4, 5, 6]), "seed": rng.getrandbits(32)}
        r = rng.random()
        if r < 0.2:
            p["policy"] = {"unit": "high"}
        elif r < 0.35:
            p["policy"] = {"unit": "low"}
        out.append(p)
    return out


def chain_case(rng, base):
    """turn a generated bd / fbd case into one with a history on a shared namespace"""
    case = dict(base)
    if rng.random() < 0.2:
        case["ns"] = list(rng.choice(VARIANT_NS0))
    else:
        case["ns"] = list(rng.choice(NS0_POOLS))
    case["cs"] = rng.random() < 0.4
    case["prior"] = gen_prior(rng)
    if case["N"] == 0:
        case["N"] = rng.choice([2, 5, 7])
    # smaller / equal / larger than what the namespace will hold
    have = max([len(case["ns"])] + [p["N"] for p in case["prior"]])
    r = rng.random()
    if r < 0.45:
        case["N"] = have + rng.choice([1, 1, 2, 3, 4])
    elif r < 0.6:
        case["N"] = have
    elif r < 0.75:
        case["N"] = max(1, have - rng.choice([1, 2]))
    return case


def prior_rng(step, main_rng):
    """generator of an earlier call: scripted runs get their own steered scripted generator (its draws are not
    part of the case's script); real-seed runs continue on the one generator"""
    from dv.c18_rng import ScriptedRng, Chooser
    if not isinstance(main_rng, ScriptedRng):
        return main_rng
    pol = dict(step.get("policy") or {}, cap=120)
    r = ScriptedRng(chooser=Chooser(random.Random(step["seed"]), pol))
    r.chooser.owner = r
    return r


def label_problem(fn, before, after, leaf_labels):
    """labels (as STRINGS) of the taxa on the leaves / of the namespace after the call -> (what, key) or None.
    (That a case-insensitive namespace cannot tell a minted 'T1' from a held 't1' is a lookup matter outside the
    property text: coordinator's decision, DESIGN 11.7; the model states it as
    bd_labels_distinct_under_case_rule_refuted.)"""
    held = list(before)
    # two taxa of the SUPPLIED namespace that already shared a label are the caller's business
    if any(leaf_labels.count(x) > max(1, held.count(x)) for x in set(leaf_labels)):
        dup = sorted(l for l in leaf_labels if leaf_labels.count(l) > max(1, held.count(l)))
        return ("leaves carry taxa whose labels are not pairwise distinct: %s" % (dup[:6],), "leaf-labels-not-distinct:" + fn)
    new = list(after[len(before):])
    for i, l in enumerate(new):
        if l in held or l in new[:i]:
            return ("the namespace gained a second taxon labelled %r (labels before the call: %s)" % (l, before[:10]),
                    "namespace-gains-duplicate-label:" + fn)
    return None
