"""Generator for coq/Gen/NewickMeta.v (fail closed): the facts of the Newick writer / reader about tree
weights, item comments and metadata comments that coq/Model/C02Meta.v and C02MetaAnn.v transcribe.

Extracted with Python `ast` from the CURRENT source (anything of another shape raises):

  newickwriter.NewickWriter
    _write_tree             the weight token "[&W {}] " (text around the placeholder), its guard
                            `self.store_tree_weights and tree.weight is not None`, and the ORDER of the pieces in
                            stream.write("{}{}{}{}".format(rooting, weight, annotation_comments, tree_comments)),
                            followed by tree.apply(...) and stream.write(";")
    _write_node_body        the ORDER of the out.write(...) calls: tag, ":" + length, node annotations, edge
                            annotations, node comments, edge comments
    _compose_comment_string the text around the placeholder of "[{}]" and the "".join
  nexusprocessing
    format_item_annotations_as_comments   prefix / separator / suffix of the non-NHX form, the two part formats
                            "%s={%s}" and "{key}={value}", the "," joining list items
    FIGTREE_/NHX_COMMENT_FIELD_PATTERN    parsed with the `re` parser: must be (.+?)=({.+?,.+?}|.+?)(SEP|$) - the shape
                            Model/C02MetaAnn.v implements; the separator character is emitted
    parse_comment_metadata_to_annotations the prefix chain ("&&NHX:", 6, NHX) ("&&", 2, NHX) ("&", 1, FIGTREE) and the
                            value interpretation chain: "{" -> [1:-1].split(","), '"'..'"' -> [1:-1], "false", "true"
  newickreader.NewickReader._process_tree_comments
                            the weight prefixes "&W " / "&w ", the slice [2:], split("/"), the arity tests > 2 / == 2,
                            and the operand order of `tree.weight = x/y` (x = float(parts[0]), y = float(parts[1]))
"""
import ast
import os

from dv.py2coq import Unsupported, find_def

OUTPUT = "NewickMeta.v"


def _read(repo, rel):
    with open(os.path.join(repo, "src", "dendropy", rel)) as f:
        return ast.parse(f.read())


def zl(s):
    return "[" + "; ".join(str(ord(c)) for c in s) + "]"


def cstr(node, what):
    if isinstance(node, ast.Constant) and isinstance(node.value, str):
        return node.value
    raise Unsupported("%s: expected a string literal, found %s" % (what, ast.dump(node)[:100]))


def method(tree, cls, name):
    for n in ast.walk(tree):
        if isinstance(n, ast.ClassDef) and n.name == cls:
            for m in n.body:
                if isinstance(m, ast.FunctionDef) and m.name == name:
                    return m
    raise Unsupported("method %s.%s not found" % (cls, name))


def function(tree, name):
    for n in tree.body:
        if isinstance(n, ast.FunctionDef) and n.name == name:
            return n
    raise Unsupported("function %s not found" % name)


def has(src, need):
    """`need` occurs in the unparsed source, up to white space"""
    return " ".join(need.split()) in " ".join(src.split())


def fmt_call(node, what):
    """"<text>".format(args...) -> (text, args)"""
    if (isinstance(node, ast.Call) and isinstance(node.func, ast.Attribute) and node.func.attr == "format"
            and not node.keywords):
        return cstr(node.func.value, what), node.args
    raise Unsupported("%s: expected \"...\".format(...), found %s" % (what, ast.dump(node)[:100]))


def around_placeholder(text, what):
    if text.count("{}") != 1 or "{" in text.replace("{}", "") or "}" in text.replace("{}", ""):
        raise Unsupported("%s: format string %r is not <text>{}<text>" % (what, text))
    a, b = text.split("{}")
    return a, b


# ---- writer ----------------------------------------------------------------------------------------

def writer_tree(nw):
    fn = method(nw, "NewickWriter", "_write_tree")
    weight = None
    order = None
    tail = []
    for st in fn.body:
        if isinstance(st, ast.If) and ast.unparse(st.test) == "self.store_tree_weights and tree.weight is not None":
            if not (len(st.body) == 1 and isinstance(st.body[0], ast.Assign) and ast.unparse(st.body[0].targets[0]) == "weight"
                    and len(st.orelse) == 1 and ast.unparse(st.orelse[0]) == "weight = ''"):
                raise Unsupported("_write_tree: weight branch has another shape")
            text, args = fmt_call(st.body[0].value, "_write_tree weight token")
            if [ast.unparse(a) for a in args] != ["tree.weight"]:
                raise Unsupported("_write_tree: weight token formats %s" % [ast.unparse(a) for a in args])
            weight = around_placeholder(text, "_write_tree weight token")
        elif isinstance(st, ast.Expr) and isinstance(st.value, ast.Call) and ast.unparse(st.value.func) == "stream.write":
            arg = st.value.args[0]
            if order is None:
                text, args = fmt_call(arg, "_write_tree prologue")
                if text != "{}" * len(args) or not all(isinstance(a, ast.Name) for a in args):
                    raise Unsupported("_write_tree: prologue format %r" % text)
                order = [a.id for a in args]
            else:
                tail.append(cstr(arg, "_write_tree terminator"))
        elif isinstance(st, ast.Expr) and isinstance(st.value, ast.Call) and ast.unparse(st.value.func) == "tree.apply":
            if order is None:
                raise Unsupported("_write_tree: tree.apply before the prologue")
            tail.append("<apply>")
    if weight is None or order is None or tail != ["<apply>", ";"]:
        raise Unsupported("_write_tree: weight=%r order=%r tail=%r" % (weight, order, tail))
    names = {"rooting": 0, "weight": 1, "annotation_comments": 2, "tree_comments": 3}
    if sorted(order) != sorted(names):
        raise Unsupported("_write_tree: prologue pieces %r" % order)
    # annotation_comments / tree_comments must come from the expected calls
    src = ast.unparse(fn)
    for need in ("annotation_comments = nexusprocessing.format_item_annotations_as_comments(tree,",
                 "tree_comments = self._compose_comment_string(tree)"):
        if not has(src, need):
            raise Unsupported("_write_tree: missing %r" % need)
    return weight, [names[n] for n in order]


def writer_body(nw):
    fn = method(nw, "NewickWriter", "_write_node_body")
    assigns = {}
    seq = []

    def classify(arg):
        s = ast.unparse(arg)
        if s == "self._render_node_tag(node)":
            return 0
        if s == "':{}'.format(self.edge_label_compose_fn(node.edge))":
            return 1
        if s in assigns:
            return assigns[s]
        if s == "self._compose_comment_string(node)":
            return 4
        if s == "self._compose_comment_string(node.edge)":
            return 5
        raise Unsupported("_write_node_body: writes %s" % s)

    def walk(stmts, guard):
        for st in stmts:
            if isinstance(st, ast.If):
                g = ast.unparse(st.test)
                if st.orelse:
                    raise Unsupported("_write_node_body: else branch")
                walk(st.body, g)
            elif isinstance(st, ast.Assign):
                t, v = ast.unparse(st.targets[0]), ast.unparse(st.value)
                if v.startswith("nexusprocessing.format_item_annotations_as_comments(node.edge,"):
                    assigns[t] = 3
                elif v.startswith("nexusprocessing.format_item_annotations_as_comments(node,"):
                    assigns[t] = 2
                else:
                    raise Unsupported("_write_node_body: assignment %s" % v[:60])
            elif isinstance(st, ast.Expr) and isinstance(st.value, ast.Call) and ast.unparse(st.value.func) == "out.write":
                k = classify(st.value.args[0])
                want_guard = {0: None, 1: "node.edge and node.edge.length != None and (not self.suppress_edge_lengths)",
                              2: "not self.suppress_annotations", 3: "not self.suppress_annotations", 4: None, 5: None}[k]
                if guard != want_guard:
                    raise Unsupported("_write_node_body: piece %d under guard %r" % (k, guard))
                seq.append(k)
            else:
                raise Unsupported("_write_node_body: statement %s" % ast.unparse(st)[:60])
    walk(fn.body, None)
    if sorted(seq) != [0, 1, 2, 3, 4, 5]:
        raise Unsupported("_write_node_body: pieces %r" % seq)
    return seq


def writer_comment(nw):
    fn = method(nw, "NewickWriter", "_compose_comment_string")
    src = ast.unparse(fn)
    if not has(src, "if not self.suppress_item_comments and item.comments:") or not has(src, "item_comment_str = ''.join(item_comments)"):
        raise Unsupported("_compose_comment_string: guard or join changed")
    for n in ast.walk(fn):
        if isinstance(n, ast.Call) and isinstance(n.func, ast.Attribute) and n.func.attr == "append":
            text, args = fmt_call(n.args[0], "_compose_comment_string")
            if [ast.unparse(a) for a in args] != ["comment"]:
                raise Unsupported("_compose_comment_string: formats %s" % ast.unparse(n))
            return around_placeholder(text, "_compose_comment_string")
    raise Unsupported("_compose_comment_string: no append")


def annotation_format(nx):
    fn = function(nx, "format_item_annotations_as_comments")
    src = ast.unparse(fn)
    for need in ("if not annotated.annotations:\n        return ''", "items = ','.join(items)",
                 "parts.append('%s={%s}' % (key, items))", "parts.append('{key}={value}'.format(key=key, value=x))",
                 "body = separator.join(parts)", "return prefix + body + suffix"):
        if not has(src, need):
            raise Unsupported("format_item_annotations_as_comments: missing %r" % need)
    vals = None
    for n in ast.walk(fn):
        if isinstance(n, ast.If) and ast.unparse(n.test) == "nhx":
            d = {}
            for st in n.orelse:
                if isinstance(st, ast.Assign):
                    d[ast.unparse(st.targets[0])] = cstr(st.value, "annotation format")
            vals = (d["prefix"], d["separator"], d["suffix"])
    if vals is None or vals[0][:1] != "[" or vals[2] != "]" or len(vals[1]) != 1:
        raise Unsupported("format_item_annotations_as_comments: prefix/separator/suffix %r" % (vals,))
    return vals


# ---- reader ----------------------------------------------------------------------------------------

def regex_sep(rx, what):
    """the pattern must be (.+?)=({.+?,.+?}|.+?)(SEP|$); returns SEP"""
    try:
        import re._parser as sre
        import re._constants as C
    except ImportError:                      # Python < 3.11
        import sre_parse as sre
        import sre_constants as C
    p = list(sre.parse(rx))

    def lazy_any(item):
        op, av = item
        return op is C.MIN_REPEAT and av[0] == 1 and av[1] == C.MAXREPEAT and [tuple(x) for x in av[2]] == [(C.ANY, None)]

    def lit(item, ch):
        return item[0] is C.LITERAL and item[1] == ord(ch)

    def sub(item, k):
        if item[0] is not C.SUBPATTERN or item[1][0] != k:
            raise Unsupported("%s: group %d expected" % (what, k))
        return list(item[1][3])
    try:
        if len(p) != 4 or not lit(p[1], "="):
            raise Unsupported("top level")
        g1, g2, g3 = sub(p[0], 1), sub(p[2], 2), sub(p[3], 3)
        if not (len(g1) == 1 and lazy_any(g1[0])):
            raise Unsupported("group 1")
        if not (len(g2) == 1 and g2[0][0] is C.BRANCH and len(g2[0][1][1]) == 2):
            raise Unsupported("group 2")
        a, b = [list(x) for x in g2[0][1][1]]
        if not (len(a) == 5 and lit(a[0], "{") and lazy_any(a[1]) and lit(a[2], ",") and lazy_any(a[3]) and lit(a[4], "}")):
            raise Unsupported("group 2 left branch")
        if not (len(b) == 1 and lazy_any(b[0])):
            raise Unsupported("group 2 right branch")
        if not (len(g3) == 1 and g3[0][0] is C.BRANCH and len(g3[0][1][1]) == 2):
            raise Unsupported("group 3")
        s, e = [list(x) for x in g3[0][1][1]]
        if not (len(s) == 1 and s[0][0] is C.LITERAL and len(e) == 1 and e[0][0] is C.AT and e[0][1] is C.AT_END):
            raise Unsupported("group 3 branches")
        return chr(s[0][1])
    except Unsupported as ex:
        raise Unsupported("%s: regex %r is not (.+?)=({.+?,.+?}|.+?)(SEP|$): %s" % (what, rx, ex))


def metadata_reader(nx):
    pats = {}
    for st in nx.body:
        if isinstance(st, ast.Assign) and isinstance(st.targets[0], ast.Name) and st.targets[0].id.endswith("_COMMENT_FIELD_PATTERN"):
            c = st.value
            if not (isinstance(c, ast.Call) and ast.unparse(c.func) == "re.compile" and len(c.args) == 1 and not c.keywords):
                raise Unsupported("%s: not re.compile(<literal>)" % st.targets[0].id)
            pats[st.targets[0].id] = regex_sep(cstr(c.args[0], st.targets[0].id), st.targets[0].id)
    if sorted(pats) != ["FIGTREE_COMMENT_FIELD_PATTERN", "NHX_COMMENT_FIELD_PATTERN"]:
        raise Unsupported("metadata patterns: %r" % sorted(pats))
    fn = function(nx, "parse_comment_metadata_to_annotations")
    chain = []
    node = None
    for st in fn.body:
        if isinstance(st, ast.If) and ast.unparse(st.test).startswith("comment.startswith("):
            node = st
    while node is not None:
        t = node.test
        if not (isinstance(t, ast.Call) and ast.unparse(t.func) == "comment.startswith" and len(t.args) == 1):
            raise Unsupported("parse_comment_metadata_to_annotations: prefix test %s" % ast.unparse(t))
        pre = cstr(t.args[0], "metadata prefix")
        body = [ast.unparse(x) for x in node.body]
        pat = [b for b in body if b.startswith("pattern = ")]
        cut = [b for b in body if b.startswith("comment = comment[")]
        if len(body) != 2 or len(pat) != 1 or len(cut) != 1:
            raise Unsupported("parse_comment_metadata_to_annotations: branch %r" % body)
        k = int(cut[0][len("comment = comment["):-2])
        if cut[0] != "comment = comment[%d:]" % k or k != len(pre):
            raise Unsupported("parse_comment_metadata_to_annotations: slice %r for prefix %r" % (cut[0], pre))
        chain.append((pre, k, pats[pat[0][len("pattern = "):]]))
        if len(node.orelse) == 1 and isinstance(node.orelse[0], ast.If):
            node = node.orelse[0]
        else:
            if [ast.unparse(x) for x in node.orelse] != ["return annotations"]:
                raise Unsupported("parse_comment_metadata_to_annotations: final else %r" % [ast.unparse(x) for x in node.orelse])
            node = None
    src = ast.unparse(fn)
    for need in ("for match_group in pattern.findall(comment):", "key, val = match_group[:2]",
                 "if strip_leading_trailing_spaces:\n            key = key.strip()\n            val = val.strip()",
                 "if val.startswith('{'):", "val = val[1:-1].split(',')",
                 "elif val.startswith('\"') and val.endswith('\"'):\n            val = val[1:-1]",
                 "elif val.lower() == 'false':\n            val = False", "elif val.lower() == 'true':\n            val = True",
                 "annote = basemodel.Annotation(name=key, value=val)", "annotations.add(annote)"):
        if not has(src, need):
            raise Unsupported("parse_comment_metadata_to_annotations: missing %r" % need)
    return chain


def weight_reader(nr):
    fn = method(nr, "NewickReader", "_process_tree_comments")
    src = ast.unparse(fn)
    prefixes = []
    for n in ast.walk(fn):
        if isinstance(n, ast.Call) and ast.unparse(n.func) == "stripped_comment.startswith":
            prefixes.append(cstr(n.args[0], "weight prefix"))
    for need in ("stripped_comment = comment.strip()", "elif self.store_tree_weights and (", "weight_expression = stripped_comment[2:]",
                 "we_parts = weight_expression.split('/')", "if len(we_parts) > 2:\n                        raise ValueError",
                 "elif len(we_parts) == 2:", "x = float(we_parts[0])", "y = float(we_parts[1])", "tree.weight = float(we_parts[0])",
                 "tree.weight = self.default_tree_weight"):
        if not has(src, need):
            raise Unsupported("_process_tree_comments: missing %r" % need)
    div = None
    for n in ast.walk(fn):
        if isinstance(n, ast.Assign) and ast.unparse(n.targets[0]) == "tree.weight" and isinstance(n.value, ast.BinOp):
            if not (isinstance(n.value.op, ast.Div) and isinstance(n.value.left, ast.Name) and isinstance(n.value.right, ast.Name)):
                raise Unsupported("_process_tree_comments: weight quotient %s" % ast.unparse(n.value))
            div = ({"x": 0, "y": 1}[n.value.left.id], {"x": 0, "y": 1}[n.value.right.id])
    if div is None or len(prefixes) != 2 or any(len(p) != 3 for p in prefixes):
        raise Unsupported("_process_tree_comments: quotient %r prefixes %r" % (div, prefixes))
    return prefixes, div


def generate(repo):
    nx = _read(repo, "dataio/nexusprocessing.py")
    nw = _read(repo, "dataio/newickwriter.py")
    nr = _read(repo, "dataio/newickreader.py")
    (w_open, w_close), tree_order = writer_tree(nw)
    body_order = writer_body(nw)
    c_open, c_close = writer_comment(nw)
    a_prefix, a_sep, a_suffix = annotation_format(nx)
    chain = metadata_reader(nx)
    prefixes, div = weight_reader(nr)
    out = [
        "(* GENERATED by py/dv/gen_newickmeta.py from dataio/newickwriter.py, newickreader.py, nexusprocessing.py",
        "   -- do not edit.  Characters are Unicode code points (Z). *)",
        "From Coq Require Import ZArith List.",
        "Import ListNotations.",
        "Open Scope Z_scope.",
        "",
        "(* NewickWriter._write_tree: the weight token and the order of the pieces written in front of the tree",
        "   (0 rooting, 1 weight, 2 annotation comments, 3 tree comments) *)",
        "Definition gen_weight_open : list Z := %s.   (* %r *)" % (zl(w_open), w_open),
        "Definition gen_weight_close : list Z := %s.   (* %r *)" % (zl(w_close), w_close),
        "Definition gen_tree_order : list nat := [%s]." % "; ".join("%d%%nat" % k for k in tree_order),
        "",
        "(* NewickWriter._write_node_body: the order of the pieces (0 tag, 1 ':' length, 2 node annotations,",
        "   3 edge annotations, 4 node comments, 5 edge comments) *)",
        "Definition gen_body_order : list nat := [%s]." % "; ".join("%d%%nat" % k for k in body_order),
        "",
        "(* NewickWriter._compose_comment_string *)",
        "Definition gen_comment_open : list Z := %s." % zl(c_open),
        "Definition gen_comment_close : list Z := %s." % zl(c_close),
        "",
        "(* nexusprocessing.format_item_annotations_as_comments (nhx=False) *)",
        "Definition gen_ann_prefix : list Z := %s.   (* %r *)" % (zl(a_prefix), a_prefix),
        "Definition gen_ann_separator : Z := %d." % ord(a_sep),
        "Definition gen_ann_suffix : list Z := %s." % zl(a_suffix),
        "",
        "(* nexusprocessing.parse_comment_metadata_to_annotations: (prefix, characters dropped, separator of the pattern) *)",
        "Definition gen_md_chain : list (list Z * nat * Z) := [%s]." % "; ".join(
            "(%s, %d%%nat, %d)" % (zl(p), k, ord(s)) for p, k, s in chain),
        "",
        "(* NewickReader._process_tree_comments: weight comments *)",
        "Definition gen_weight_prefixes : list (list Z) := [%s]." % "; ".join(zl(p) for p in prefixes),
        "Definition gen_weight_quotient : nat * nat := (%d%%nat, %d%%nat).   (* tree.weight = part[fst] / part[snd] *)" % div,
        "",
    ]
    return "\n".join(out)
