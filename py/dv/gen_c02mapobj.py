"""Translator (property C02): WHICH look-up container a NexusTaxonSymbolMapper object reads and writes, and which
mapper every Newick reader entry point creates  ->  coq/Gen/C02MapObjGen.v
(object-level model: coq/Model/C02MapObj.v, proofs coq/Proofs/C02MapObj.v, theorems gen_mapobj_* in coq/Props/C02.v).

generate(repo) parses, with `ast`, the CURRENT text of

  src/dendropy/dataio/nexusprocessing.py   class NexusTaxonSymbolMapper: the class body (class-level bindings of the three
                                           look-up tables) and EVERY method, statement by statement, as to its effect on
                                           self.token_taxon_map / self.label_taxon_map / self.number_taxon_map:
                                             self.F = <dict literal | call>     -> (KBind, F)   a newly created container
                                             self.F.clear() / self.F[k] = v      -> (KMut, F)    in-place change
                                             self.<method>(...)                  -> inlined
                                             if / else                           -> both paths;   for / while -> 0 and 1 rounds
                                             raise                               -> the path ends without an object
                                           anything else that mentions one of the three names (aliasing `self.F = self.G`,
                                           `cls.F`, `type(self).F`, del, augmented assignment, passing the container to a
                                           call other than the constructor of a new container ...) raises Unsupported
  src/dendropy/dataio/newickreader.py      NewickReader._read: the mapper it creates (class, enable_lookup_by_taxon_number,
                                           case_sensitive)
  src/dendropy/dataio/newickyielder.py     NewickTreeDataYielder._yield_items_from_stream: the mapper it creates and the shape
                                           of its loop (parse one statement with that mapper's require_taxon_for_symbol,
                                           stop at None, yield)
  src/dendropy/dataio/nexusyielder.py      NexusTreeDataYielder._yield_items_from_stream: the Newick fall-back's mapper
  + no other module of dendropy/dataio reaches into the three tables.

Trusted: a dict literal, a call of container.CaseInsensitiveDict and TaxonNamespace.label_taxon_map() each return a NEW
container object (the latter builds one in a loop: datamodel/taxonmodel.py).
"""
import ast
import os

from dv.py2coq import Unsupported

OUTPUT = "C02MapObjGen.v"

FIELDS = {"token_taxon_map": "FTok", "label_taxon_map": "FLab", "number_taxon_map": "FNum"}
CLASS = "NexusTaxonSymbolMapper"
MAXDEPTH = 4


def _read(repo, rel):
    with open(os.path.join(repo, "src", "dendropy", rel), encoding="utf-8") as f:
        return ast.parse(f.read())


def find_class(tree, name):
    for n in tree.body:
        if isinstance(n, ast.ClassDef) and n.name == name:
            return n
    raise Unsupported("class %s not found" % name)


def methods_of(cls):
    return {n.name: n for n in cls.body if isinstance(n, ast.FunctionDef)}


def self_field(n):
    """self.F for a tracked F -> Coq field name"""
    if isinstance(n, ast.Attribute) and isinstance(n.value, ast.Name) and n.value.id == "self" and n.attr in FIELDS:
        return FIELDS[n.attr]
    return None


def mentions(n):
    """does the subtree mention a tracked table in any way"""
    exempt = set()      # the METHOD TaxonNamespace.label_taxon_map() of the managed namespace
    for sub in ast.walk(n):
        if (isinstance(sub, ast.Call) and isinstance(sub.func, ast.Attribute) and sub.func.attr == "label_taxon_map"
                and ast.unparse(sub.func.value) == "self._taxon_namespace" and not sub.args and not sub.keywords):
            exempt.add(id(sub.func))
    for sub in ast.walk(n):
        if isinstance(sub, ast.Attribute) and sub.attr in FIELDS and id(sub) not in exempt:
            return True
        if isinstance(sub, ast.Name) and sub.id in FIELDS:
            return True
        if isinstance(sub, ast.Constant) and isinstance(sub.value, str) and sub.value in FIELDS:
            return True        # getattr / setattr / __dict__ by name
    return False


def reads_only(n):
    """an expression that mentions the tables only as self.F[...] look-ups / `in` tests / len(): no effect, no alias"""
    for sub in ast.walk(n):
        if isinstance(sub, (ast.Name, ast.Constant)) and mentions(sub):
            return False
    # every tracked Attribute must be the .value of a Subscript (Load) or an operand of `in`
    parents = {}
    for p in ast.walk(n):
        for c in ast.iter_child_nodes(p):
            parents[id(c)] = p
    for sub in ast.walk(n):
        if isinstance(sub, ast.Attribute) and sub.attr in FIELDS:
            if self_field(sub) is None:
                return False
            p = parents.get(id(sub))
            if isinstance(p, ast.Subscript) and p.value is sub and isinstance(p.ctx, ast.Load):
                continue
            if isinstance(p, ast.Compare) and all(isinstance(o, (ast.In, ast.NotIn)) for o in p.ops) and sub in p.comparators:
                continue
            return False
    return True


def fresh_container(v):
    """an expression that creates a new container object"""
    if isinstance(v, ast.Dict) and not v.keys:
        return True
    if isinstance(v, ast.Call):
        fn = ast.unparse(v.func)
        if fn in ("container.CaseInsensitiveDict", "dict"):
            return all(not mentions(a) for a in v.args) and not v.keywords
        if fn == "self._taxon_namespace.label_taxon_map" and not v.args and not v.keywords:
            return True
    return False


class Paths:
    def __init__(self, methods):
        self.methods = methods

    def block(self, stmts, depth):
        """-> list of (effects, ended) paths; ended: 'raise' | 'return' | None"""
        paths = [([], None)]
        for st in stmts:
            nxt = []
            for eff, ended in paths:
                if ended:
                    nxt.append((eff, ended))
                    continue
                for e2, end2 in self.stmt(st, depth):
                    nxt.append((eff + e2, end2))
            paths = nxt
            if len(paths) > 64:
                raise Unsupported("too many paths")
        return paths

    def call_effects(self, call, depth):
        """self.<method>(...) with arguments that do not mention the tables"""
        if (isinstance(call.func, ast.Attribute) and isinstance(call.func.value, ast.Name) and call.func.value.id == "self"
                and call.func.attr in self.methods):
            if any(mentions(a) for a in call.args) or any(mentions(k.value) for k in call.keywords):
                raise Unsupported("table passed to %s" % call.func.attr)
            if depth >= MAXDEPTH:
                raise Unsupported("call depth")
            out = []
            for eff, ended in self.block(self.methods[call.func.attr].body, depth + 1):
                out.append((eff, "raise" if ended == "raise" else None))
            return out
        return None

    def stmt(self, st, depth):
        if isinstance(st, ast.Expr) and isinstance(st.value, ast.Constant):
            return [([], None)]
        if isinstance(st, ast.Pass):
            return [([], None)]
        if isinstance(st, ast.Raise):
            if st.exc is not None and mentions(st.exc):
                raise Unsupported("raise mentions a table")
            return [([], "raise")]
        if isinstance(st, ast.Return):
            if st.value is None:
                return [([], "return")]
            if isinstance(st.value, ast.Call):
                c = self.call_effects(st.value, depth)
                if c is not None:
                    return [(e, end or "return") for e, end in c]
            if mentions(st.value) and not reads_only(st.value):
                raise Unsupported("return %s" % ast.unparse(st.value))
            return [([], "return")]
        if isinstance(st, ast.Expr) and isinstance(st.value, ast.Call):
            call = st.value
            # self.F.clear()
            if isinstance(call.func, ast.Attribute) and self_field(call.func.value) and call.func.attr in ("clear", "update", "pop", "setdefault"):
                if any(mentions(a) for a in call.args):
                    raise Unsupported(ast.unparse(st))
                return [([("KMut", self_field(call.func.value))], None)]
            c = self.call_effects(call, depth)
            if c is not None:
                return c
            if mentions(call):
                raise Unsupported("call %s" % ast.unparse(call))
            return [([], None)]
        if isinstance(st, ast.Assign):
            if len(st.targets) != 1:
                raise Unsupported("multiple targets")
            t = st.targets[0]
            f = self_field(t)
            if f is not None:
                if not fresh_container(st.value):
                    raise Unsupported("self.%s bound to %s (not a newly created container)" % (t.attr, ast.unparse(st.value)))
                return [([("KBind", f)], None)]
            if isinstance(t, ast.Subscript) and self_field(t.value) is not None:
                if mentions(t.slice) or mentions(st.value):
                    raise Unsupported(ast.unparse(st))
                return [([("KMut", self_field(t.value))], None)]
            if mentions(t):
                raise Unsupported("assignment target %s" % ast.unparse(t))
            if isinstance(st.value, ast.Call):
                c = self.call_effects(st.value, depth)
                if c is not None:
                    return c
            if mentions(st.value) and not reads_only(st.value):
                raise Unsupported("value %s" % ast.unparse(st.value))
            return [([], None)]
        if isinstance(st, ast.If):
            if mentions(st.test) and not reads_only(st.test):
                raise Unsupported("test %s" % ast.unparse(st.test))
            return self.block(st.body, depth) + self.block(st.orelse, depth)
        if isinstance(st, (ast.For, ast.While)):
            hd = st.iter if isinstance(st, ast.For) else st.test
            if mentions(hd) or st.orelse:
                raise Unsupported("loop head %s" % ast.unparse(hd))
            once = self.block(st.body, depth)
            if any(k == "KBind" for eff, _ in once for k, _f in eff):
                raise Unsupported("a table is re-bound inside a loop")
            return [([], None)] + [(eff, end if end in ("raise", "return") else None) for eff, end in once]
        if isinstance(st, ast.Try):
            if st.finalbody or st.orelse:
                raise Unsupported("try/finally")
            out = self.block(st.body, depth)
            for h in st.handlers:
                out = out + self.block(h.body, depth)
            return out
        if mentions(st):
            raise Unsupported("statement %s" % type(st).__name__)
        if isinstance(st, (ast.AugAssign, ast.Delete, ast.With, ast.Global, ast.Nonlocal, ast.FunctionDef, ast.ClassDef)):
            raise Unsupported("statement %s" % type(st).__name__)
        return [([], None)]


def mapper_shapes(tree):
    cls = find_class(tree, CLASS)
    class_tables = []
    for n in cls.body:
        if isinstance(n, ast.FunctionDef):
            continue
        if isinstance(n, ast.Expr) and isinstance(n.value, ast.Constant):
            continue
        if isinstance(n, (ast.Assign, ast.AnnAssign)):
            targets = n.targets if isinstance(n, ast.Assign) else [n.target]
            for t in targets:
                for sub in ast.walk(t):
                    if isinstance(sub, ast.Name) and sub.id in FIELDS:
                        class_tables.append(FIELDS[sub.id])
            v = n.value
            if v is not None and mentions(v):
                raise Unsupported("class-level value mentions a table")
            continue
        if mentions(n):
            raise Unsupported("class-level statement mentions a table")
    ms = methods_of(cls)
    for name, fn in ms.items():
        for d in fn.decorator_list:
            raise Unsupported("decorated method %s" % name)
    p = Paths(ms)
    shapes = {}
    for name, fn in ms.items():
        paths = [eff for eff, ended in p.block(fn.body, 0) if ended != "raise"]
        uniq = []
        for e in paths:
            if e not in uniq:
                uniq.append(e)
        shapes[name] = uniq
    if "__init__" not in shapes:
        raise Unsupported("no __init__")
    # the rest of the module must not reach into the tables
    for n in tree.body:
        if n is cls:
            continue
        if mentions(n):
            raise Unsupported("module-level code outside the class mentions a table")
    # base classes could bring class-level tables
    if [ast.unparse(b) for b in cls.bases] not in ([], ["object"]):
        raise Unsupported("base classes %s" % [ast.unparse(b) for b in cls.bases])
    return class_tables, shapes


def ctor_call(fn, what):
    """the single `taxon_symbol_mapper = nexusprocessing.NexusTaxonSymbolMapper(...)` of a function"""
    found = []
    for sub in ast.walk(fn):
        if isinstance(sub, ast.Assign) and len(sub.targets) == 1 and isinstance(sub.targets[0], ast.Name) \
                and sub.targets[0].id == "taxon_symbol_mapper":
            found.append(sub.value)
    if len(found) != 1:
        raise Unsupported("%s: %d bindings of taxon_symbol_mapper" % (what, len(found)))
    return found[0]


def by_number_of(call, what, callee):
    if not (isinstance(call, ast.Call) and ast.unparse(call.func) == callee and not call.args):
        raise Unsupported("%s: mapper created by %s" % (what, ast.unparse(call)[:80]))
    kw = {k.arg: k.value for k in call.keywords}
    if set(kw) - {"taxon_namespace", "enable_lookup_by_taxon_number", "case_sensitive"}:
        raise Unsupported("%s: keywords %s" % (what, sorted(kw)))
    v = kw.get("enable_lookup_by_taxon_number")
    if v is None:
        raise Unsupported("%s: enable_lookup_by_taxon_number left to the callee's default" % what)
    if not (isinstance(v, ast.Constant) and isinstance(v.value, bool)):
        raise Unsupported("%s: enable_lookup_by_taxon_number=%s" % (what, ast.unparse(v)))
    if "case_sensitive" in kw and not ast.unparse(kw["case_sensitive"]).endswith("case_sensitive_taxon_labels"):
        raise Unsupported("%s: case_sensitive=%s" % (what, ast.unparse(kw["case_sensitive"])))
    return v.value


def find_method(tree, cls, name):
    c = find_class(tree, cls)
    m = methods_of(c)
    if name not in m:
        raise Unsupported("%s.%s not found" % (cls, name))
    return m[name]


def yield_loop_shape(fn):
    """while True: tree = <reader>._parse_tree_statement(nexus_tokenizer=.., tree_factory=.., taxon_symbol_map_fn=
    taxon_symbol_mapper.require_taxon_for_symbol); if tree is None: break; yield tree"""
    loops = [s for s in fn.body if isinstance(s, ast.While)]
    if len(loops) != 1 or ast.unparse(loops[0].test) != "True" or len(loops[0].body) != 3:
        raise Unsupported("yielder loop")
    a, b, c = loops[0].body
    if not (isinstance(a, ast.Assign) and isinstance(a.value, ast.Call) and ast.unparse(a.targets[0]) == "tree"
            and ast.unparse(a.value.func).endswith("._parse_tree_statement")):
        raise Unsupported("yielder loop: %s" % ast.unparse(a)[:80])
    kw = {k.arg: ast.unparse(k.value) for k in a.value.keywords}
    if a.value.args or kw.get("taxon_symbol_map_fn") != "taxon_symbol_mapper.require_taxon_for_symbol" \
            or set(kw) != {"nexus_tokenizer", "tree_factory", "taxon_symbol_map_fn"}:
        raise Unsupported("yielder loop: arguments %s" % kw)
    if ast.unparse(b) != "if tree is None:\n    break":
        raise Unsupported("yielder loop: %s" % ast.unparse(b)[:80])
    if ast.unparse(c) != "yield tree":
        raise Unsupported("yielder loop: %s" % ast.unparse(c)[:80])
    if fn.body.index(loops[0]) != len(fn.body) - 1:
        raise Unsupported("statements after the yielder loop")
    return True


def cb(b):
    return "true" if b else "false"


def generate(repo):
    nx = _read(repo, "dataio/nexusprocessing.py")
    class_tables, shapes = mapper_shapes(nx)
    nr = _read(repo, "dataio/newickreader.py")
    ny = _read(repo, "dataio/newickyielder.py")
    xy = _read(repo, "dataio/nexusyielder.py")
    ctor = "nexusprocessing.NexusTaxonSymbolMapper"
    read_flag = by_number_of(ctor_call(find_method(nr, "NewickReader", "_read"), "NewickReader._read"), "NewickReader._read", ctor)
    yfn = find_method(ny, "NewickTreeDataYielder", "_yield_items_from_stream")
    yield_flag = by_number_of(ctor_call(yfn, "NewickTreeDataYielder"), "NewickTreeDataYielder._yield_items_from_stream", ctor)
    yield_loop_shape(yfn)
    xfn = find_method(xy, "NexusTreeDataYielder", "_yield_items_from_stream")
    alt_flag = by_number_of(ctor_call(xfn, "NexusTreeDataYielder"), "NexusTreeDataYielder._yield_items_from_stream (Newick fall-back)",
                            "self._get_taxon_symbol_mapper")
    # no other dataio module reaches into the tables
    ddir = os.path.join(repo, "src", "dendropy", "dataio")
    for fn in sorted(os.listdir(ddir)):
        if fn.endswith(".py") and fn != "nexusprocessing.py":
            with open(os.path.join(ddir, fn), encoding="utf-8") as f:
                t = ast.parse(f.read())
            for sub in ast.walk(t):
                if isinstance(sub, ast.Attribute) and sub.attr in ("token_taxon_map", "number_taxon_map"):
                    raise Unsupported("dataio/%s reaches into a mapper's %s" % (fn, sub.attr))

    def sh(path):
        return "[" + "; ".join("(%s, %s)" % e for e in path) + "]"
    out = [
        "(* GENERATED by py/dv/gen_c02mapobj.py from dataio/nexusprocessing.py (class NexusTaxonSymbolMapper),",
        "   newickreader.py, newickyielder.py, nexusyielder.py -- do not edit. *)",
        "From Coq Require Import List Bool.",
        "From DV Require Import Model.C02MapObj.",
        "Import ListNotations.",
        "",
        "(* look-up tables bound in the CLASS body (shared by every instance that does not bind its own) *)",
        "Definition gen_class_tables : list field := [%s]." % "; ".join(class_tables),
        "",
        "(* NexusTaxonSymbolMapper.__init__, calls of the class's own methods inlined: the effects on the three look-up",
        "   tables along every path that does not raise *)",
        "Definition gen_init_paths : list (list shape) := [\n  %s]." % ";\n  ".join(sh(p) for p in shapes["__init__"]),
        "",
        "(* every other method (paths that do not raise) *)",
    ]
    for name in sorted(shapes):
        if name == "__init__":
            continue
        out.append("Definition gen_paths_%s : list (list shape) := [%s]." % (name.strip("_"), "; ".join(sh(p) for p in shapes[name])))
    out += [
        "",
        "(* enable_lookup_by_taxon_number of the mapper each Newick entry point creates *)",
        "Definition gen_newick_read_by_number : bool := %s.    (* NewickReader._read *)" % cb(read_flag),
        "Definition gen_newick_yield_by_number : bool := %s.   (* NewickTreeDataYielder._yield_items_from_stream *)" % cb(yield_flag),
        "Definition gen_nexus_yield_newick_by_number : bool := %s.   (* NexusTreeDataYielder, Newick fall-back *)" % cb(alt_flag),
        "",
    ]
    return "\n".join(out)


if __name__ == "__main__":
    import sys
    print(generate(sys.argv[1] if len(sys.argv) > 1 else "/repo"))
