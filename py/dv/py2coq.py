"""Fail-closed translator from a whitelisted Python subset to Gallina.

regenerate(repo, gendir) rewrites coq/Gen/*.v from the *current* source under
<repo>/src on every run (write-if-changed, so `make` stays incremental).  Every
generator either produces its file or fails closed: the stale file is replaced by
a stub that does not define the expected names, so every dependent proof breaks,
and the error is reported to the caller as a broken obligation.

Generators live in this module (int functions) and in dv/gen_*.py (registered
in GENERATORS below).
"""
import ast
import os
import hashlib

from dv import core


class Unsupported(Exception):
    pass


# ----------------------------------------------------------------------------
# integer / bitwise straight-line functions  ->  Gallina over Z
# ----------------------------------------------------------------------------

BINOPS = {
    ast.BitAnd: "Z.land", ast.BitOr: "Z.lor", ast.BitXor: "Z.lxor",
    ast.LShift: "Z.shiftl", ast.RShift: "Z.shiftr",
    ast.Add: "Z.add", ast.Sub: "Z.sub", ast.Mult: "Z.mul",
}
CMPOPS = {ast.Eq: "Z.eqb", ast.LtE: "Z.leb", ast.Lt: "Z.ltb", ast.GtE: "Z.geb", ast.Gt: "Z.gtb"}


class IntFn:
    """Translate one function whose values are ints/bools."""

    def __init__(self, fn, known, rename=None):
        self.fn = fn
        self.known = known          # python callee name -> coq name
        self.name = rename or fn.name

    def expr(self, e):
        """returns (coq_text, 'Z'|'bool')"""
        if isinstance(e, ast.Constant):
            if isinstance(e.value, bool):
                return ("true" if e.value else "false"), "bool"
            if isinstance(e.value, int):
                return ("(%d)" % e.value), "Z"
            raise Unsupported("constant %r" % (e.value,))
        if isinstance(e, ast.Name):
            return e.id, self.types.get(e.id, "Z")
        if isinstance(e, ast.BinOp):
            op = BINOPS.get(type(e.op))
            if not op:
                raise Unsupported("binop %s" % type(e.op).__name__)
            a = self.as_z(e.left)
            b = self.as_z(e.right)
            return "(%s %s %s)" % (op, a, b), "Z"
        if isinstance(e, ast.UnaryOp):
            if isinstance(e.op, ast.Invert):
                return "(Z.lnot %s)" % self.as_z(e.operand), "Z"
            if isinstance(e.op, ast.Not):
                return "(negb %s)" % self.as_bool(e.operand), "bool"
            if isinstance(e.op, ast.USub):
                return "(Z.opp %s)" % self.as_z(e.operand), "Z"
            raise Unsupported("unary %s" % type(e.op).__name__)
        if isinstance(e, ast.Compare):
            if len(e.ops) != 1:
                raise Unsupported("chained comparison")
            a = self.as_z(e.left)
            b = self.as_z(e.comparators[0])
            op = e.ops[0]
            if isinstance(op, ast.NotEq):
                return "(negb (Z.eqb %s %s))" % (a, b), "bool"
            f = CMPOPS.get(type(op))
            if not f:
                raise Unsupported("cmp %s" % type(op).__name__)
            return "(%s %s %s)" % (f, a, b), "bool"
        if isinstance(e, ast.BoolOp):
            parts = [self.as_bool(v) for v in e.values]
            f = "andb" if isinstance(e.op, ast.And) else "orb"
            out = parts[-1]
            for p in reversed(parts[:-1]):
                out = "(%s %s %s)" % (f, p, out)
            return out, "bool"
        if isinstance(e, ast.Call):
            # bin(n).count("1")  ==> popcount
            if (isinstance(e.func, ast.Attribute) and e.func.attr == "count"
                    and isinstance(e.func.value, ast.Call)
                    and isinstance(e.func.value.func, ast.Name) and e.func.value.func.id == "bin"
                    and len(e.args) == 1 and isinstance(e.args[0], ast.Constant) and e.args[0].value == "1"):
                return "(py_popcount %s)" % self.as_z(e.func.value.args[0]), "Z"
            fname = None
            if isinstance(e.func, ast.Name):
                fname = e.func.id
            elif isinstance(e.func, ast.Attribute):
                fname = e.func.attr
            if fname in self.known and not e.keywords:
                cname, rty = self.known[fname]
                return "(%s %s)" % (cname, " ".join(self.as_z(a) for a in e.args)), rty
            raise Unsupported("call %s" % ast.dump(e.func))
        raise Unsupported("expression %s" % type(e).__name__)

    def as_z(self, e):
        t, ty = self.expr(e)
        if ty != "Z":
            raise Unsupported("bool used as int")
        return t

    def as_bool(self, e):
        t, ty = self.expr(e)
        if ty == "bool":
            return t
        return "(negb (Z.eqb %s 0))" % t     # Python truthiness of an int

    def always_returns(self, stmts):
        for s in stmts:
            if isinstance(s, ast.Return):
                return True
            if isinstance(s, ast.If) and s.orelse and self.always_returns(s.body) and self.always_returns(s.orelse):
                return True
        return False

    def assigned(self, stmts):
        out = []
        for s in stmts:
            if isinstance(s, ast.Assign):
                for t in s.targets:
                    if not isinstance(t, ast.Name):
                        raise Unsupported("assignment target")
                    if t.id not in out:
                        out.append(t.id)
            elif isinstance(s, ast.If):
                for v in self.assigned(s.body) + self.assigned(s.orelse):
                    if v not in out:
                        out.append(v)
            elif isinstance(s, (ast.Return, ast.Expr)):
                pass
            else:
                raise Unsupported("statement %s" % type(s).__name__)
        return out

    def block(self, stmts, cont):
        """cont: None (must return) or coq text to continue with."""
        if not stmts:
            if cont is None:
                raise Unsupported("fall off end of function")
            return cont
        s, rest = stmts[0], stmts[1:]
        if isinstance(s, ast.Expr) and isinstance(s.value, ast.Constant) and isinstance(s.value.value, str):
            return self.block(rest, cont)
        if isinstance(s, ast.Return):
            if s.value is None:
                raise Unsupported("bare return")
            t, ty = self.expr(s.value)
            if self.rty is None:
                self.rty = ty
            elif self.rty != ty:
                if self.rty == "bool" and ty == "Z":
                    t = "(negb (Z.eqb %s 0))" % t
                else:
                    raise Unsupported("mixed return types")
            return t
        if isinstance(s, ast.Assign):
            if len(s.targets) != 1 or not isinstance(s.targets[0], ast.Name):
                raise Unsupported("assignment form")
            t, ty = self.expr(s.value)
            self.types[s.targets[0].id] = ty
            return "let %s := %s in\n  %s" % (s.targets[0].id, t, self.block(rest, cont))
        if isinstance(s, ast.If):
            c = self.as_bool(s.test)
            if self.always_returns(s.body):
                then = self.block(s.body, None)
                els = self.block(list(s.orelse) + rest, cont)
                return "if %s then %s\n  else %s" % (c, then, els)
            if s.orelse and self.always_returns(s.orelse):
                els = self.block(s.orelse, None)
                then = self.block(list(s.body) + rest, cont)
                return "if %s then %s\n  else %s" % (c, then, els)
            # assignment-only conditional: rebind the assigned variables
            vs = self.assigned(s.body) + [v for v in self.assigned(s.orelse) if v not in self.assigned(s.body)]
            for v in vs:
                if v not in self.types:
                    raise Unsupported("conditionally defined variable %s" % v)
            tup = vs[0] if len(vs) == 1 else "(" + ", ".join(vs) + ")"
            pat = vs[0] if len(vs) == 1 else "'(" + ", ".join(vs) + ")"
            then = self.block(s.body, tup)
            els = self.block(s.orelse, tup)
            return "let %s := (if %s then %s else %s) in\n  %s" % (pat, c, then, els, self.block(rest, cont))
        raise Unsupported("statement %s" % type(s).__name__)

    def translate(self):
        a = self.fn.args
        if a.vararg or a.kwarg or a.kwonlyargs:
            raise Unsupported("argument form")
        params = [x.arg for x in a.args if x.arg != "self"]
        self.types = {p: "Z" for p in params}
        self.rty = None
        body = self.block(self.fn.body, None)
        return "Definition %s %s : %s :=\n  %s.\n" % (
            self.name, " ".join("(%s : Z)" % p for p in params), self.rty, body), self.rty


def find_def(tree, name, cls=None):
    nodes = tree.body
    if cls:
        for n in nodes:
            if isinstance(n, ast.ClassDef) and n.name == cls:
                nodes = n.body
                break
        else:
            raise Unsupported("class %s not found" % cls)
    for n in nodes:
        if isinstance(n, ast.FunctionDef) and n.name == name:
            return n
    raise Unsupported("function %s not found" % name)


def gen_bitfns(repo):
    src = os.path.join(repo, "src", "dendropy")
    out = ["(* GENERATED by py/dv/py2coq.py from utility/bitprocessing.py and",
           "   datamodel/treemodel/_bipartition.py -- do not edit *)",
           "From Coq Require Import ZArith Bool.",
           "From DV Require Import Model.PyPrims.",
           "Open Scope Z_scope.", ""]
    known = {}
    with open(os.path.join(src, "utility", "bitprocessing.py")) as f:
        t1 = ast.parse(f.read())
    with open(os.path.join(src, "datamodel", "treemodel", "_bipartition.py")) as f:
        t2 = ast.parse(f.read())
    plan = [(t1, None, "least_significant_set_bit"), (t1, None, "num_set_bits"),
            (t2, "Bipartition", "normalize_bitmask"), (t2, "Bipartition", "is_trivial_bitmask"),
            (t2, "Bipartition", "is_trivial_leafset"), (t2, "Bipartition", "is_compatible_bitmasks")]
    for tree, cls, name in plan:
        fn = find_def(tree, name, cls)
        txt, rty = IntFn(fn, known, rename="py_" + name).translate()
        known[name] = ("py_" + name, rty)
        out.append("(* %s%s, line %d *)" % ((cls + ".") if cls else "", name, fn.lineno))
        out.append(txt)
    return "\n".join(out)


# ----------------------------------------------------------------------------
# registry
# ----------------------------------------------------------------------------

def _generators():
    """BitFns (this module) plus every py/dv/gen_*.py module: it must define generate(repo) -> str and
    may define OUTPUT = "Name.v" (default: gen_foo_bar.py -> FooBar.v, with the historical names kept)."""
    gens = [("BitFns.v", gen_bitfns)]
    import importlib
    import glob
    historical = {"gen_traversals": "Traversals.v", "gen_charclasses": "CharClasses.v",
                  "gen_readerloops": "ReaderLoops.v", "gen_consts": "Consts.v"}
    here = os.path.dirname(os.path.abspath(__file__))
    for path in sorted(glob.glob(os.path.join(here, "gen_*.py"))):
        name = os.path.basename(path)[:-3]
        m = importlib.import_module("dv." + name)
        out = getattr(m, "OUTPUT", None) or historical.get(name) or \
            "".join(w.capitalize() for w in name[4:].split("_")) + ".v"
        gens.append((out, getattr(m, "generate")))
    return gens


def regenerate(repo, gendir):
    os.makedirs(gendir, exist_ok=True)
    errs = []
    for fname, gen in _generators():
        path = os.path.join(gendir, fname)
        try:
            txt = gen(repo)
        except Exception as e:   # fail closed
            errs.append((fname, "%s: %s" % (type(e).__name__, e)))
            txt = ("(* GENERATION FAILED (fail closed): %s: %s *)\n"
                   % (type(e).__name__, str(e).replace("*)", "* )")))
        core.write_if_changed(path, txt)
    return (not errs), errs


if __name__ == "__main__":
    import sys
    ok, errs = regenerate(core.REPO, os.path.join(core.COQ, "Gen"))
    for e in errs:
        print("GEN-FAIL", e)
    sys.exit(0 if ok else 1)
