"""Translator entry point (property C05, wave 5): TreeArray.restore_tree,
maximum_product_of_split_support_tree, maximum_sum_of_split_support_tree, TreeArray.consensus_tree,
SplitDistribution.summarize_splits_on_tree and the fact `does Tree.from_split_bitmasks hand
is_rooted to the Bipartition of an inserted node`  ->  coq/Gen/SplitDistTa.v.
The compiler is py/dv/c05_gen_impl3.py (AST-driven, whitelisted statement shapes, fails closed)."""

OUTPUT = "SplitDistTa.v"


def generate(repo):
    from dv import c05_gen_impl3
    return c05_gen_impl3.generate(repo)
