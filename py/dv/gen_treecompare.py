"""Translator: dendropy/calculate/treecompare.py  ->  coq/Gen/TreeCompare.v  (property C04).

generate(repo) parses the CURRENT source with `ast` and compiles the functions listed in PLAN statement by
statement into Gallina, in the state-and-exception monad of coq/Model/C04Prims.v (which states, construct by
construct, the Python semantics assumed for the objects the functions are handed: Tree / Edge attributes and
methods, dict / list / set operations, float).  coq/Proofs/C04Gen.v proves every generated function equal to
the corresponding function of the hand-written model coq/Model/C04Model.v.

It is a compiler for a whitelisted subset, driven by the AST (which attribute is read of which variable, call
names and argument order, comparison operators and their direction, which dict is iterated and which is popped,
which variable is updated, what is raised): it does not compare the text with a stored copy.

  statement shapes   x = e | d[k] = e | l.append(e) | t.encode_bipartitions() | pass | return e | raise C(...)
                     if c: .. [else: ..] | for x in e: ..  | try: .. except KeyError: ..
  a block that falls through an `if` / `try` / `for` hands on the tuple of the variables it (re)binds that are
  read afterwards (for a loop: the variables it updates that exist before the loop)
  expressions        names, None/True/False, integral numbers, "length", tuples, t[0] t[1] l[-1], + -, not,
                     `is` / `is not` None, `is not` between namespaces, `in`, lambda, [e for i in l],
                     the attribute reads, methods and builtins of C04Prims, calls of other translated functions
                     (keyword arguments are put in the callee's parameter order, omitted ones take the default
                     written in the callee's signature)

Anything else raises Unsupported: py2coq then writes a stub and every dependent proof breaks (fail closed).

Assumptions that are not derived from the source (stated here and in C04Prims.v): the types of the parameters
(by name, PARAM_TYPES); `bipartition_length_diff_map` is specialised to its default False (checked against the
signature; no translated caller passes it); the arguments of a `raise` (message texts) are not evaluated;
TaxonNamespaceIdentityError is a ValueError (checked against utility/error.py).
"""
import ast
import os

OUTPUT = "TreeCompare.v"


class Unsupported(Exception):
    pass


PLAN = ["false_positives_and_negatives", "symmetric_difference", "unweighted_robinson_foulds_distance",
        "find_missing_bipartitions", "_get_length_diffs", "_bipartition_difference",
        "weighted_robinson_foulds_distance", "euclidean_distance", "robinson_foulds_distance"]

# types: tree bool ns optenc maskset masklist mask dict(<v>) edge opt(<t>) len(optional number) num
#        tuple(a,b) list(<t>) attr ctor fn unit
PARAM_TYPES = {"tree1": "tree", "tree2": "tree", "reference_tree": "tree", "comparison_tree": "tree",
               "is_bipartitions_updated": "bool", "edge_weight_attr": "attr", "value_type": "ctor",
               "dist_fn": ("fn", ("list", ("tuple", "num", "num")), "num")}
SPECIALISED = {"bipartition_length_diff_map": False}
COQ_TYPES = {"tree": "tree_ref", "bool": "bool", "attr": "attr_name", "ctor": "value_ctor"}
ERR_BASES = {"ValueError": "ValueErr", "KeyError": "KeyErr", "TypeError": "TypeErr", "IndexError": "IndexErr",
             "AssertionError": "AssertErr", "AttributeError": "AttrErr"}
RESERVED = {"in", "let", "fun", "match", "end", "with", "if", "then", "else", "at", "as", "fix", "for", "return"}


def coq_ty(t):
    if isinstance(t, str):
        if t in COQ_TYPES:
            return COQ_TYPES[t]
        if t == "num":
            return "Z"
        raise Unsupported("no Coq type for %r" % (t,))
    if t[0] == "list":
        return "(list %s)" % coq_ty(t[1])
    if t[0] == "tuple":
        return "(%s * %s)" % (coq_ty(t[1]), coq_ty(t[2]))
    if t[0] == "fn":
        return "(%s -> %s)" % (coq_ty(t[1]), coq_ty(t[2]))
    raise Unsupported("no Coq type for %r" % (t,))


def ident(name):
    return name + "_" if name in RESERVED else name


def tup(names):
    if not names:
        return "tt"
    if len(names) == 1:
        return names[0]
    return "(" + ", ".join(names) + ")"


def pat(names):
    if not names:
        return "_"
    if len(names) == 1:
        return names[0]
    return "'(" + ", ".join(names) + ")"


class Fn:
    def __init__(self, node, module):
        self.node = node
        self.module = module
        self.name = node.name
        a = node.args
        if a.vararg or a.kwarg or a.kwonlyargs or a.posonlyargs:
            raise Unsupported("%s: signature shape" % self.name)
        self.params = [x.arg for x in a.args]
        nd = len(a.defaults)
        self.defaults = dict(zip(self.params[len(self.params) - nd:], a.defaults))
        self.fresh = 0

    # ---- helpers
    def coq_params(self):
        return [p for p in self.params if p not in SPECIALISED]

    def new(self, base):
        self.fresh += 1
        return "%s_%d" % (base, self.fresh)

    def fail(self, node, what):
        raise Unsupported("%s line %d: %s: %s" % (self.name, getattr(node, "lineno", 0), what,
                                                  ast.unparse(node)[:80] if isinstance(node, ast.AST) else node))

    # ---- variables read / written
    @staticmethod
    def loads(nodes):
        out = set()
        for n in nodes:
            for x in ast.walk(n):
                if isinstance(x, ast.Name) and isinstance(x.ctx, ast.Load):
                    out.add(x.id)
                # a mutated variable is also needed afterwards only if read; mutation itself reads it
        return out

    def live_in(self, stmts, out):
        """names whose value at the start of `stmts` may be read (before being rebound) by them or after them"""
        live = set(out)
        for s in reversed(stmts):
            live = self.live_stmt(s, live)
        return live

    def live_stmt(self, s, out):
        if isinstance(s, ast.Pass):
            return set(out)
        if isinstance(s, (ast.Return, ast.Raise)):
            return self.loads([s])
        if isinstance(s, ast.Assign) and len(s.targets) == 1 and isinstance(s.targets[0], ast.Name):
            return (set(out) - {s.targets[0].id}) | self.loads([s.value])
        if isinstance(s, (ast.Assign, ast.Expr)):
            return set(out) | self.loads([s])
        if isinstance(s, ast.If):
            return self.loads([s.test]) | self.live_in(s.body, out) | self.live_in(s.orelse, out)
        if isinstance(s, ast.For):
            l1 = set(out) | self.live_in(s.body, out)
            l2 = set(out) | self.live_in(s.body, l1)
            return (l2 - ({s.target.id} if isinstance(s.target, ast.Name) else set())) | self.loads([s.iter])
        if isinstance(s, ast.Try):
            r = self.live_in(s.body, out)
            for h in s.handlers:
                r |= self.live_in(h.body, out)
            return r
        self.fail(s, "statement kind")

    def writes(self, stmts):
        """names (re)bound or mutated by the statements (own level and nested blocks)"""
        out = []

        def add(n):
            if n not in out:
                out.append(n)
        for s in stmts:
            for x in ast.walk(s):
                if isinstance(x, ast.Assign):
                    for t in x.targets:
                        if isinstance(t, ast.Name):
                            add(t.id)
                        elif isinstance(t, ast.Subscript) and isinstance(t.value, ast.Name):
                            add(t.value.id)
                        else:
                            self.fail(x, "assignment target")
                elif isinstance(x, ast.Call) and isinstance(x.func, ast.Attribute) and isinstance(x.func.value, ast.Name) \
                        and x.func.attr in ("append", "pop"):
                    add(x.func.value.id)
                elif isinstance(x, ast.For):
                    if not isinstance(x.target, ast.Name):
                        self.fail(x, "loop target")
                elif isinstance(x, (ast.AugAssign, ast.AnnAssign, ast.Delete, ast.While, ast.With, ast.Global,
                                    ast.Nonlocal, ast.NamedExpr)):
                    self.fail(x, "statement kind")
        return out

    @staticmethod
    def always_exits(stmts):
        if not stmts:
            return False
        s = stmts[-1]
        if isinstance(s, (ast.Return, ast.Raise)):
            return True
        if isinstance(s, ast.If):
            return Fn.always_exits(s.body) and Fn.always_exits(s.orelse)
        return False

    # ---- expressions (continuation passing: k(text, type) builds what follows)
    def expr(self, e, env, k, want=None, pure=False):
        def monadic(m, ty, base="v"):
            if pure:
                self.fail(e, "effectful expression where a pure one is required")
            v = self.new(base)
            return "mbind (%s) (fun %s =>\n%s)" % (m, v, k(v, ty))

        if isinstance(e, ast.Constant):
            v = e.value
            if v is None:
                return k("None", "none")
            if isinstance(v, bool):
                return k("true" if v else "false", "bool")
            if isinstance(v, (int, float)):
                if v != int(v):
                    self.fail(e, "non-integral number")
                z = "%d" % int(v) if v >= 0 else "(%d)" % int(v)
                if want == "len":
                    return k("(Some %s)" % z, "len")
                return k(z, "num")
            if v == "length":
                return k("AttrLength", "attr")
            self.fail(e, "constant")
        if isinstance(e, ast.Name):
            if e.id in env:
                return k(ident(e.id), env[e.id])
            if e.id == "float":
                return k("CtorFloat", "ctor")
            self.fail(e, "unknown name")
        if isinstance(e, ast.Tuple):
            if len(e.elts) != 2:
                self.fail(e, "tuple arity")
            return self.expr(e.elts[0], env, lambda a, ta: self.expr(e.elts[1], env, lambda b, tb:
                             k("(%s, %s)" % (a, b), ("tuple", ta, tb)), pure=pure), pure=pure)
        if isinstance(e, ast.UnaryOp) and isinstance(e.op, ast.Not):
            def kn(a, ta):
                if ta != "bool":
                    self.fail(e, "not on %r" % (ta,))
                return k("(negb %s)" % a, "bool")
            return self.expr(e.operand, env, kn, pure=pure)
        if isinstance(e, ast.UnaryOp) and isinstance(e.op, ast.USub) and isinstance(e.operand, ast.Constant) \
                and e.operand.value == 1:
            return k("(-1)", "num")
        if isinstance(e, ast.BinOp) and isinstance(e.op, (ast.Add, ast.Sub)):
            op = "+" if isinstance(e.op, ast.Add) else "-"

            def kb(a, ta):
                def kc(b, tb):
                    if ta != "num" or tb != "num":
                        self.fail(e, "arithmetic on %r, %r" % (ta, tb))
                    return k("(%s %s %s)" % (a, op, b), "num")
                return self.expr(e.right, env, kc, pure=pure)
            return self.expr(e.left, env, kb, pure=pure)
        if isinstance(e, ast.Compare):
            if len(e.ops) != 1:
                self.fail(e, "chained comparison")
            op, right = e.ops[0], e.comparators[0]
            if isinstance(op, (ast.Is, ast.IsNot)) and isinstance(right, ast.Constant) and right.value is None:
                def kn(a, ta):
                    if not (ta in ("len", "optenc") or (isinstance(ta, tuple) and ta[0] == "opt")):
                        self.fail(e, "`is None` on %r" % (ta,))
                    t = "(p_is_none %s)" % a
                    return k(t if isinstance(op, ast.Is) else "(negb %s)" % t, "bool")
                return self.expr(e.left, env, kn, pure=pure)
            if isinstance(op, (ast.Is, ast.IsNot)):
                def ka(a, ta):
                    def kb(b, tb):
                        if ta != "ns" or tb != "ns":
                            self.fail(e, "identity comparison on %r, %r" % (ta, tb))
                        t = "(p_is_not %s %s)" % (a, b)
                        return k(t if isinstance(op, ast.IsNot) else "(negb %s)" % t, "bool")
                    return self.expr(right, env, kb, pure=pure)
                return self.expr(e.left, env, ka, pure=pure)
            if isinstance(op, (ast.In, ast.NotIn)):
                def ka(a, ta):
                    def kb(b, tb):
                        if ta != "mask" or tb != "optenc":
                            self.fail(e, "membership on %r, %r" % (ta, tb))
                        v = self.new("found")
                        t = v if isinstance(op, ast.In) else "(negb %s)" % v
                        if pure:
                            self.fail(e, "effectful expression where a pure one is required")
                        return "mbind (p_in_encoding %s %s) (fun %s =>\n%s)" % (a, b, v, k(t, "bool"))
                    return self.expr(right, env, kb, pure=pure)
                return self.expr(e.left, env, ka, pure=pure)
            self.fail(e, "comparison operator")
        if isinstance(e, ast.Attribute):
            def ko(o, to):
                if to == "tree" and e.attr == "taxon_namespace":
                    return monadic("p_taxon_namespace %s" % o, "ns", "ns")
                if to == "tree" and e.attr == "bipartition_encoding":
                    return monadic("p_bipartition_encoding %s" % o, "optenc", "enc")
                if to == "tree" and e.attr == "bipartition_edge_map":
                    return monadic("p_bipartition_edge_map mg %s" % o, ("dict", "edge"), "bem")
                if to == "edge" and e.attr == "tail_node":
                    return monadic("p_tail_node %s" % o, ("opt", "unit"), "tail")
                self.fail(e, "attribute %s of %r" % (e.attr, to))
            return self.expr(e.value, env, ko, pure=pure)
        if isinstance(e, ast.Subscript):
            idx = e.slice

            def ko(o, to):
                if isinstance(to, tuple) and to[0] == "tuple" and isinstance(idx, ast.Constant) and idx.value in (0, 1):
                    return k("(%s %s)" % ("fst" if idx.value == 0 else "snd", o), to[1 + idx.value])
                if isinstance(to, tuple) and to[0] == "list" and isinstance(idx, ast.UnaryOp) \
                        and isinstance(idx.op, ast.USub) and isinstance(idx.operand, ast.Constant) and idx.operand.value == 1:
                    return monadic("p_last %s" % o, to[1], "last")
                if isinstance(to, tuple) and to[0] == "dict":
                    return self.expr(idx, env, lambda i, ti: self._getitem(e, o, to, i, ti, monadic), pure=pure)
                self.fail(e, "subscript of %r" % (to,))
            return self.expr(e.value, env, ko, pure=pure)
        if isinstance(e, ast.Lambda):
            a = e.args
            if a.defaults or a.vararg or a.kwarg or len(a.args) != 1:
                self.fail(e, "lambda shape")
            p = a.args[0].arg
            pty = ("list", ("tuple", "num", "num"))          # the one lambda shape: a function of the pair list
            env2 = dict(env)
            env2[p] = pty
            res = []
            body = self.expr(e.body, env2, lambda b, tb: (res.append(tb), b)[1], pure=True)
            return k("(fun %s => %s)" % (ident(p), body), ("fn", pty, res[0]))
        if isinstance(e, ast.ListComp):
            if len(e.generators) != 1 or e.generators[0].ifs or not isinstance(e.generators[0].target, ast.Name):
                self.fail(e, "comprehension shape")
            g = e.generators[0]

            def kl(l, tl):
                if not (isinstance(tl, tuple) and tl[0] == "list"):
                    self.fail(e, "comprehension over %r" % (tl,))
                env2 = dict(env)
                env2[g.target.id] = tl[1]
                res = []
                body = self.expr(e.elt, env2, lambda b, tb: (res.append(tb), b)[1], pure=True)
                return k("(map (fun %s => %s) %s)" % (ident(g.target.id), body, l), ("list", res[0]))
            return self.expr(g.iter, env, kl, pure=pure)
        if isinstance(e, ast.Call):
            return self.call(e, env, k, monadic, pure)
        self.fail(e, "expression kind")

    def _getitem(self, e, o, to, i, ti, monadic):
        if ti != "mask":
            self.fail(e, "dict key of type %r" % (ti,))
        return monadic("p_getitem %s %s" % (o, i), to[1], "item")

    def args_cps(self, args, env, k, pure, wants=None):
        """evaluate expressions left to right, then k(list of (text, type))"""
        acc = []

        def go(i):
            if i == len(args):
                return k(acc)
            return self.expr(args[i], env, lambda a, ta: (acc.append((a, ta)), go(i + 1))[1], pure=pure,
                             want=(wants[i] if wants else None))
        return go(0)

    def call(self, e, env, k, monadic, pure):
        f = e.func
        # --- methods
        if isinstance(f, ast.Attribute):
            if e.keywords:
                self.fail(e, "keywords in a method call")
            if isinstance(f.value, ast.Name) and f.value.id == "math" and f.attr == "sqrt" and len(e.args) == 1:
                return self.expr(e.args[0], env, lambda a, ta: self._num1(e, "p_sqrt", a, ta, k), pure=pure)

            def ko(o, to):
                def ka(args):
                    if f.attr == "difference" and to == "maskset" and [t for _, t in args] == ["maskset"]:
                        return k("(p_difference %s %s)" % (o, args[0][0]), "maskset")
                    if f.attr == "get" and isinstance(to, tuple) and to[0] == "dict" and [t for _, t in args] == ["mask"]:
                        return k("(p_get %s %s)" % (o, args[0][0]), ("opt", to[1]))
                    if f.attr == "pop" and isinstance(to, tuple) and to[0] == "dict" and [t for _, t in args] == ["mask"]:
                        if not isinstance(f.value, ast.Name):
                            self.fail(e, "pop on a non-variable")
                        if pure:
                            self.fail(e, "effectful expression where a pure one is required")
                        v = self.new("popped")
                        d = ident(f.value.id)
                        return "mbind (p_pop %s %s) (fun '(%s, %s) =>\n%s)" % (o, args[0][0], v, d, k(v, to[1]))
                    self.fail(e, "method %s on %r" % (f.attr, to))
                return self.args_cps(e.args, env, ka, pure)
            return self.expr(f.value, env, ko, pure=pure)
        if not isinstance(f, ast.Name):
            self.fail(e, "callee")
        name = f.id
        # --- a local callable (dist_fn, value_type)
        if name in env:
            ty = env[name]
            if e.keywords or len(e.args) != 1:
                self.fail(e, "call shape of a local callable")
            if ty == "ctor":
                return self.expr(e.args[0], env, lambda a, ta: self._construct(e, ident(name), a, ta, monadic), pure=pure)
            if isinstance(ty, tuple) and ty[0] == "fn":
                def kf(a, ta):
                    if ta != ty[1]:
                        self.fail(e, "argument type %r, expected %r" % (ta, ty[1]))
                    return k("(%s %s)" % (ident(name), a), ty[2])
                return self.expr(e.args[0], env, kf, pure=pure)
            self.fail(e, "call of a %r" % (ty,))
        # --- other translated functions
        if name in self.module.fns:
            callee = self.module.fns[name]
            given = {}
            if len(e.args) > len(callee.params):
                self.fail(e, "too many arguments")
            for p, a in zip(callee.params, e.args):
                given[p] = a
            for kw in e.keywords:
                if kw.arg is None or kw.arg not in callee.params or kw.arg in given:
                    self.fail(e, "keyword %r" % kw.arg)
                given[kw.arg] = kw.value
            for p in SPECIALISED:
                if p in given:
                    self.fail(e, "argument for the specialised parameter %s" % p)
            # Python evaluates the arguments in the order written; they are put into the callee's order
            written = list(e.args) + [kw.value for kw in e.keywords]
            wnames = callee.params[:len(e.args)] + [kw.arg for kw in e.keywords]

            def ka(args):
                byname = dict(zip(wnames, args))
                texts = []
                for p in callee.coq_params():
                    want = PARAM_TYPES[p]
                    if p in byname:
                        a, ta = byname[p]
                        if ta != want:
                            self.fail(e, "argument %s has type %r, expected %r" % (p, ta, want))
                        texts.append(a)
                    elif p in callee.defaults:
                        texts.append(callee.default_text(p))
                    else:
                        self.fail(e, "missing argument %s" % p)
                if callee.ret is None:
                    self.fail(e, "callee %s not yet translated (order)" % name)
                return monadic("g_%s mg %s" % (name, " ".join(texts)), callee.ret, "r")
            return self.args_cps(written, env, ka, pure)
        # --- builtins
        if e.keywords:
            self.fail(e, "keywords in a builtin call")
        if name == "getattr" and len(e.args) == 2:
            def ka(args):
                if [t for _, t in args] != ["edge", "attr"]:
                    self.fail(e, "getattr on %r" % ([t for _, t in args],))
                return monadic("p_getattr %s %s" % (args[0][0], args[1][0]), "len", "elen")
            return self.args_cps(e.args, env, ka, pure)
        if name == "set" and len(e.args) == 1:
            return self.expr(e.args[0], env, lambda a, ta: (monadic("p_set %s" % a, "maskset", "s") if ta == "optenc"
                             else self.fail(e, "set of %r" % (ta,))), pure=pure)
        if name == "len" and len(e.args) == 1:
            return self.expr(e.args[0], env, lambda a, ta: (k("(p_len %s)" % a, "num") if ta in ("maskset", "masklist")
                             or (isinstance(ta, tuple) and ta[0] == "list") else self.fail(e, "len of %r" % (ta,))), pure=pure)
        if name == "dict" and len(e.args) == 1:
            return self.expr(e.args[0], env, lambda a, ta: (k("(p_dict %s)" % a, ta) if isinstance(ta, tuple) and ta[0] == "dict"
                             else self.fail(e, "dict of %r" % (ta,))), pure=pure)
        if name == "abs" and len(e.args) == 1:
            return self.expr(e.args[0], env, lambda a, ta: self._num1(e, "p_abs", a, ta, k), pure=pure)
        if name == "sum" and len(e.args) == 1:
            return self.expr(e.args[0], env, lambda a, ta: (k("(p_sum %s)" % a, "num") if ta == ("list", "num")
                             else self.fail(e, "sum of %r" % (ta,))), pure=pure)
        if name == "pow" and len(e.args) == 2:
            def ka(args):
                if [t for _, t in args] != ["num", "num"]:
                    self.fail(e, "pow on %r" % ([t for _, t in args],))
                return k("(p_pow %s %s)" % (args[0][0], args[1][0]), "num")
            return self.args_cps(e.args, env, ka, pure)
        self.fail(e, "call")

    def _num1(self, e, prim, a, ta, k):
        if ta != "num":
            self.fail(e, "%s of %r" % (prim, ta))
        return k("(%s %s)" % (prim, a), "num")

    def _construct(self, e, ctor, a, ta, monadic):
        if ta != "len":
            self.fail(e, "constructor applied to %r" % (ta,))
        return monadic("p_construct %s %s" % (ctor, a), "num", "value")

    def default_text(self, p):
        d = self.defaults[p]
        out = []
        self.expr(d, {}, lambda a, ta: (out.append((a, ta)), "")[1], pure=True)
        a, ta = out[0]
        if ta != PARAM_TYPES[p]:
            raise Unsupported("%s: default of %s has type %r" % (self.name, p, ta))
        return a

    # ---- statements
    def join(self, names, branches, env):
        """types of the joined variables; number / optional-length joins to optional-length"""
        tys = {}
        for n in names:
            ts = []
            for benv in branches:
                if n not in benv:
                    raise Unsupported("%s: variable %s not bound on every path" % (self.name, n))
                ts.append(benv[n])
            t0 = ts[0]
            for t in ts[1:]:
                if t != t0:
                    if {t, t0} == {"num", "len"}:
                        t0 = "len"
                    elif isinstance(t, tuple) and isinstance(t0, tuple) and t[0] == t0[0] and t[0] in ("list", "dict") \
                            and (t[1] is None or t0[1] is None):
                        t0 = t if t0[1] is None else t0
                    else:
                        raise Unsupported("%s: variable %s has types %r and %r" % (self.name, n, t0, t))
            tys[n] = t0
        return tys

    def out_tuple(self, names, benv, tys):
        comps = []
        for n in names:
            if benv[n] == "num" and tys[n] == "len":
                comps.append("(Some %s)" % ident(n))
            else:
                comps.append(ident(n))
        return tup(comps)

    def block(self, stmts, env, live, k):
        """live: names read after this block; k(env) builds what follows the block"""
        if not stmts:
            return k(env)
        s, rest = stmts[0], stmts[1:]
        after = self.live_in(rest, live)

        def cont(env2):
            return self.block(rest, env2, live, k)

        if isinstance(s, ast.Pass):
            return cont(env)
        if isinstance(s, ast.Expr) and isinstance(s.value, ast.Constant) and isinstance(s.value.value, str):
            return cont(env)                                         # docstring
        if isinstance(s, ast.Return):
            if rest:
                self.fail(s, "statements after return")
            if s.value is None:
                self.fail(s, "bare return")

            def kr(a, ta):
                self.note_ret(ta)
                return "ret %s" % a
            return self.expr(s.value, env, kr)
        if isinstance(s, ast.Raise):
            if rest:
                self.fail(s, "statements after raise")
            return "raise %s" % self.exc_class(s)
        if isinstance(s, ast.Assign):
            if len(s.targets) != 1:
                self.fail(s, "multiple targets")
            t = s.targets[0]
            if isinstance(t, ast.Name):
                want = env.get(t.id) if env.get(t.id) == "len" else None

                def ka(a, ta):
                    if isinstance(s.value, ast.List) and not s.value.elts:
                        pass
                    env2 = dict(env)
                    env2[t.id] = ta
                    return "let %s := %s in\n%s" % (ident(t.id), a, cont(env2))
                if isinstance(s.value, ast.List) and not s.value.elts:
                    env2 = dict(env)
                    env2[t.id] = ("list", None)                      # element type fixed by the first append
                    return "let %s := [] in\n%s" % (ident(t.id), cont(env2))
                if isinstance(s.value, ast.Dict) and not s.value.keys:
                    env2 = dict(env)
                    env2[t.id] = ("dict", None)
                    return "let %s := [] in\n%s" % (ident(t.id), cont(env2))
                return self.expr(s.value, env, ka, want=want)
            if isinstance(t, ast.Subscript) and isinstance(t.value, ast.Name) and t.value.id in env:
                d = t.value.id
                td = env[d]
                if not (isinstance(td, tuple) and td[0] == "dict"):
                    self.fail(s, "item assignment on %r" % (td,))

                def kk(i, ti):
                    def kv(a, ta):
                        if ti != "mask":
                            self.fail(s, "dict key of type %r" % (ti,))
                        if td[1] not in (None, ta):
                            self.fail(s, "dict value of type %r, expected %r" % (ta, td[1]))
                        env2 = dict(env)
                        env2[d] = ("dict", ta)
                        return "let %s := p_setitem %s %s %s in\n%s" % (ident(d), ident(d), i, a, cont(env2))
                    return self.expr(s.value, env, kv)
                return self.expr(t.slice, env, kk)
            self.fail(s, "assignment target")
        if isinstance(s, ast.Expr) and isinstance(s.value, ast.Call) and isinstance(s.value.func, ast.Attribute):
            c = s.value
            if c.keywords:
                self.fail(s, "keywords")
            if c.func.attr == "encode_bipartitions" and not c.args:
                def ko(o, to):
                    if to != "tree":
                        self.fail(s, "encode_bipartitions on %r" % (to,))
                    return "mseq (p_encode_bipartitions mg %s) (\n%s)" % (o, cont(env))
                return self.expr(c.func.value, env, ko)
            if c.func.attr == "append" and len(c.args) == 1 and isinstance(c.func.value, ast.Name) and c.func.value.id in env:
                l = c.func.value.id
                tl = env[l]
                if not (isinstance(tl, tuple) and tl[0] == "list"):
                    self.fail(s, "append on %r" % (tl,))

                def ka(a, ta):
                    if tl[1] not in (None, ta):
                        self.fail(s, "append of %r to a list of %r" % (ta, tl[1]))
                    env2 = dict(env)
                    env2[l] = ("list", ta)
                    return "let %s := p_append %s %s in\n%s" % (ident(l), ident(l), a, cont(env2))
                return self.expr(c.args[0], env, ka)
            self.fail(s, "expression statement")
        if isinstance(s, ast.If):
            # `if x is None` / `if x is not None` on an optional object: a match that binds the object in the other branch
            narrow = None
            t_ = s.test
            if isinstance(t_, ast.Compare) and len(t_.ops) == 1 and isinstance(t_.ops[0], (ast.Is, ast.IsNot)) \
                    and isinstance(t_.comparators[0], ast.Constant) and t_.comparators[0].value is None \
                    and isinstance(t_.left, ast.Name) and isinstance(env.get(t_.left.id), tuple) and env[t_.left.id][0] == "opt":
                narrow = (t_.left.id, env[t_.left.id][1], isinstance(t_.ops[0], ast.Is))

            def kc(c, tc):
                if tc != "bool":
                    self.fail(s, "condition of type %r" % (tc,))
                env_t, env_f = env, env
                if narrow:
                    x_, tx_, none_first = narrow
                    envn = dict(env)
                    envn[x_] = tx_
                    env_t, env_f = (env, envn) if none_first else (envn, env)

                    def ite(b1, b2):
                        bn, bs = (b1, b2) if none_first else (b2, b1)
                        return "match %s with\n| None => (\n%s)\n| Some %s => (\n%s)\nend" % (ident(x_), bn, ident(x_), bs)
                else:
                    def ite(b1, b2):
                        return "if %s then (\n%s) else (\n%s)" % (c, b1, b2)
                ex1, ex2 = self.always_exits(s.body), self.always_exits(s.orelse)
                if ex1 and ex2:
                    if rest:
                        self.fail(s, "statements after an if that always exits")
                    return ite(self.block(s.body, env_t, live, k), self.block(s.orelse, env_f, live, k))
                if narrow and narrow[0] in after:
                    self.fail(s, "narrowed variable %s is read after the if" % narrow[0])
                if ex1 or ex2:
                    # one branch exits, the other one goes on with what follows
                    def unnarrow(e2):
                        e3 = dict(e2)
                        if narrow:
                            e3.pop(narrow[0], None)
                        return cont(e3)
                    b1 = self.block(s.body, env_t, after, unnarrow if not ex1 else k)
                    b2 = self.block(s.orelse, env_f, after, unnarrow if not ex2 else k)
                    return ite(b1, b2)
                names = [n for n in self.writes(s.body + s.orelse) if n in after]
                ends = []
                for br, benv in ((s.body, env_t), (s.orelse, env_f)):
                    box = []
                    self_fresh = self.fresh
                    self.block(br, benv, set(names) | after, lambda e2: (box.append(e2), "")[1])
                    self.fresh = self_fresh
                    ends.append(box[0])
                tys = self.join(names, ends, env)
                b1 = self.block(s.body, env_t, set(names) | after, lambda e2: "ret %s" % self.out_tuple(names, e2, tys))
                b2 = self.block(s.orelse, env_f, set(names) | after, lambda e2: "ret %s" % self.out_tuple(names, e2, tys))
                env2 = dict(env)
                if narrow:
                    env2.pop(narrow[0], None)
                for e_ in ends:
                    for n_, t_2 in e_.items():
                        if n_ in env2 and env2[n_] != t_2 and n_ not in names and isinstance(t_2, tuple) and t_2[0] in ("list", "dict") \
                                and env2[n_][1] is None:
                            env2[n_] = t_2
                env2.update(tys)
                return "mbind (%s) (fun %s =>\n%s)" % (ite(b1, b2), pat([ident(n) for n in names]), cont(env2))
            if narrow:
                return kc("", "bool")
            return self.expr(s.test, env, kc)
        if isinstance(s, ast.For):
            if s.orelse or not isinstance(s.target, ast.Name):
                self.fail(s, "loop shape")
            x = s.target.id
            carried = [n for n in self.writes(s.body) if n in env]
            for n in self.writes(s.body):
                if n not in env and n in after:
                    self.fail(s, "variable %s defined in the loop is read after it" % n)

            def ki(it, ti):
                if isinstance(ti, tuple) and ti[0] == "dict":
                    lst, tx = "(p_keys %s)" % it, "mask"
                    return body_of(lst, tx)
                if ti == "optenc":
                    v = self.new("items")
                    return "mbind (p_iter_encoding %s) (fun %s =>\n%s)" % (it, v, body_of(v, "mask"))
                self.fail(s, "iteration over %r" % (ti,))

            def body_of(lst, tx):
                env_b = dict(env)
                env_b[x] = tx
                # element types of carried containers are fixed inside the body: find them first
                box = []
                fresh0 = self.fresh
                self.block(s.body, env_b, set(carried) | after, lambda e2: (box.append(e2), "")[1])
                self.fresh = fresh0
                end = box[0]
                env_in = dict(env_b)
                for n in carried:
                    if end[n] != env[n]:
                        if isinstance(env[n], tuple) and env[n][0] in ("list", "dict") and env[n][1] is None and end[n][0] == env[n][0]:
                            env_in[n] = end[n]
                        else:
                            self.fail(s, "loop changes the type of %s from %r to %r" % (n, env[n], end[n]))
                body = self.block(s.body, env_in, set(carried) | after,
                                  lambda e2: "ret %s" % tup([ident(n) for n in carried]))
                env2 = dict(env)
                for n in carried:
                    env2[n] = env_in[n]
                names = [ident(n) for n in carried]
                return "mbind (mfor %s (fun %s %s =>\n%s) %s) (fun %s =>\n%s)" % (
                    lst, ident(x), pat(names), body, tup(names), pat(names), cont(env2))
            return self.expr(s.iter, env, ki)
        if isinstance(s, ast.Try):
            if s.orelse or s.finalbody or len(s.handlers) != 1:
                self.fail(s, "try shape")
            h = s.handlers[0]
            if h.name is not None or not isinstance(h.type, ast.Name) or h.type.id not in ERR_BASES:
                self.fail(s, "handler shape")
            cls = ERR_BASES[h.type.id]
            # the handler starts from the state before the try: nothing may be updated in the body before the
            # (only) operation that can raise the handled class, i.e. that operation is in the first statement
            for later in s.body[1:]:
                for n in ast.walk(later):
                    if isinstance(n, ast.Call) and isinstance(n.func, ast.Attribute) and n.func.attr == "pop":
                        self.fail(s, "pop after the first statement of a try body")
                    if isinstance(n, ast.Subscript) and isinstance(n.ctx, ast.Load) and not isinstance(n.slice, (ast.Constant, ast.UnaryOp)):
                        self.fail(s, "item read after the first statement of a try body")
            if self.always_exits(s.body) or self.always_exits(h.body):
                self.fail(s, "try branch that exits")
            names = [n for n in self.writes(s.body + h.body) if n in after]
            ends = []
            for br in (s.body, h.body):
                box = []
                fresh0 = self.fresh
                self.block(br, env, set(names) | after, lambda e2: (box.append(e2), "")[1])
                self.fresh = fresh0
                ends.append(box[0])
            tys = self.join(names, ends, env)
            b1 = self.block(s.body, env, set(names) | after, lambda e2: "ret %s" % self.out_tuple(names, e2, tys))
            b2 = self.block(h.body, env, set(names) | after, lambda e2: "ret %s" % self.out_tuple(names, e2, tys))
            env2 = dict(env)
            env2.update(tys)
            return "mbind (mtry (\n%s) %s (\n%s)) (fun %s =>\n%s)" % (b1, cls, b2, pat([ident(n) for n in names]), cont(env2))
        self.fail(s, "statement kind")

    def exc_class(self, s):
        e = s.exc
        if isinstance(e, ast.Call):
            e = e.func
        if isinstance(e, ast.Name) and e.id in ERR_BASES:
            return ERR_BASES[e.id]
        if isinstance(e, ast.Attribute) and isinstance(e.value, ast.Name) and e.value.id == "error":
            return self.module.error_class(e.attr)
        self.fail(s, "exception class")

    def note_ret(self, ty):
        if self.ret is None:
            self.ret = ty
        elif self.ret != ty:
            raise Unsupported("%s returns both %r and %r" % (self.name, self.ret, ty))

    ret = None

    def translate(self):
        body = list(self.node.body)
        env = {}
        for p in self.params:
            if p in SPECIALISED:
                d = self.defaults.get(p)
                if not (isinstance(d, ast.Constant) and d.value is SPECIALISED[p]):
                    raise Unsupported("%s: default of the specialised parameter %s" % (self.name, p))
                continue
            if p not in PARAM_TYPES:
                raise Unsupported("%s: no type declared for parameter %s" % (self.name, p))
            env[p] = PARAM_TYPES[p]
        body = self.specialise(body)
        if not self.always_exits(body):
            raise Unsupported("%s: can fall off its end" % self.name)
        term = self.block(body, env, set(), lambda e2: "ret tt")
        params = " ".join("(%s : %s)" % (ident(p), coq_ty(PARAM_TYPES[p])) for p in self.coq_params())
        src = "(* %s, line %d *)\n" % (self.name, self.node.lineno)
        return src + "Definition g_%s (mg : bool) %s :=\n%s.\n" % (self.name, params, indent(term))

    def specialise(self, stmts):
        """`if <specialised parameter>: A else: B`  ->  the branch selected by the fixed value"""
        out = []
        for s in stmts:
            if isinstance(s, ast.If) and isinstance(s.test, ast.Name) and s.test.id in SPECIALISED:
                out.extend(self.specialise(s.body if SPECIALISED[s.test.id] else s.orelse))
            else:
                for n in ast.walk(s):
                    if isinstance(n, ast.Name) and n.id in SPECIALISED:
                        raise Unsupported("%s: other use of the specialised parameter %s" % (self.name, n.id))
                out.append(s)
        return out


def indent(term):
    """re-indent by parenthesis depth"""
    out, depth = [], 1
    for line in term.split("\n"):
        line = line.strip()
        d = depth
        if line.startswith(")"):
            d -= 1
        out.append("  " * d + line)
        depth += line.count("(") - line.count(")")
    return "\n".join(out)


class Module:
    def __init__(self, repo):
        self.repo = repo
        path = os.path.join(repo, "src", "dendropy", "calculate", "treecompare.py")
        with open(path) as f:
            self.tree = ast.parse(f.read())
        with open(os.path.join(repo, "src", "dendropy", "utility", "error.py")) as f:
            self.errtree = ast.parse(f.read())
        defs = {n.name: n for n in self.tree.body if isinstance(n, ast.FunctionDef)}
        self.fns = {}
        for name in PLAN:
            if name not in defs:
                raise Unsupported("function %s not found" % name)
            self.fns[name] = Fn(defs[name], self)

    def error_class(self, name, seen=()):
        """the PyPrims.err class of dendropy.utility.error.<name>, through its bases"""
        if name in ERR_BASES:
            return ERR_BASES[name]
        if name in seen:
            raise Unsupported("cyclic exception bases at %s" % name)
        for n in self.errtree.body:
            if isinstance(n, ast.ClassDef) and n.name == name:
                for b in n.bases:
                    if isinstance(b, ast.Name):
                        try:
                            return self.error_class(b.id, seen + (name,))
                        except Unsupported:
                            continue
        raise Unsupported("exception class %s" % name)

    def order(self):
        """callees before callers"""
        done, out = set(), []

        def visit(name, stack=()):
            if name in done:
                return
            if name in stack:
                raise Unsupported("recursion through %s" % name)
            for n in ast.walk(self.fns[name].node):
                if isinstance(n, ast.Call) and isinstance(n.func, ast.Name) and n.func.id in self.fns and n.func.id != name:
                    visit(n.func.id, stack + (name,))
            done.add(name)
            out.append(name)
        for name in PLAN:
            visit(name)
        return out


HEADER = """(* GENERATED by py/dv/gen_treecompare.py from src/dendropy/calculate/treecompare.py -- do not edit.
   One definition per translated function, statement by statement, over the run-time library
   Model/C04Prims.v; Proofs/C04Gen.v proves each equal to the hand-written model Model/C04Model.v. *)
From Coq Require Import ZArith List Bool.
From DV Require Import Model.PyPrims Model.Tree Model.C04Model Model.C04Prims.
Import ListNotations.
Open Scope Z_scope.

"""


def generate(repo):
    m = Module(repo)
    parts = [HEADER]
    for name in m.order():
        parts.append(m.fns[name].translate())
        parts.append("\n")
    return "".join(parts)


if __name__ == "__main__":
    import sys
    print(generate(sys.argv[1] if len(sys.argv) > 1 else "/repo"))
