"""C18 - simulated trees meet their specification for every seed and are reproducible.

Correspondence: the real simulators are run on a *scripted* random.Random (dv.c18_rng) whose draws
are dyadic rationals / indices / permutations chosen lazily by a steering policy; the entries it
consumed are the script handed to the Coq model (coq/Model/C18Model.v), which must return the same
tree (topology, exact lengths, taxa), the same final namespace, consume the script exactly and make
the same generator calls with the same arguments in the same order.  dendropy's GLOBAL_RNG and the
module-level functions of `random` are poisoned during every run.
Oracle: naive statement of the property on the implementation's result; plus real seeds
(random.Random(seed)) through the oracle only, and reproducibility by running twice.
"""
import json
import random
import re
import time
from fractions import Fraction

from dv import core
from dv.core import cbool, clist, copt
from dv import c18_chain
from dv.c18_rng import (Chooser, ScriptedRng, RecordingRng, ScriptExhausted, ScriptMismatch,
                        UnscriptedMethod, GlobalRngTouched, poisoned_globals)

HEADER = ("From DV Require Import Model.C18Model.\nFrom DV Require Model.PyPrims.\n"
          "From Coq Require Import QArith List. Import ListNotations. Open Scope nat_scope.")

KEY_DUP = "taxon-reused-case-variant-label"
KEY_FLOAT = "weighted-index-choice-float-fallthrough"
KEY_SETORDER = "contained-coalescent-gene-order-by-id"
KEY_DTC = "discrete_time_to_coalescence-ignores-rng"
KEY_POISSON = "poisson_rv-large-rate-drops-rng"
KEY_RANDTREES = "treesim-rand_trees-ignores-rng"


# ---------------------------------------------------------------------------------------------
# small helpers
# ---------------------------------------------------------------------------------------------

def F(x):
    return Fraction(x)


def fs(x):
    """JSON form of an exact rational"""
    return None if x is None else str(Fraction(x))


def cnat(i):
    return "%d%%nat" % int(i)


def cq(x):
    x = Fraction(x)
    return "(%s # %d)%%Q" % (("(%d)" % x.numerator) if x.numerator < 0 else str(x.numerator), x.denominator)


T_RE = re.compile(r"^([Tt])(0|[1-9][0-9]*)$")


def lab_term(label, others):
    m = T_RE.match(label)
    if m:
        return "(LT %s %s)" % (cbool(m.group(1) == "T"), cnat(int(m.group(2))))
    if label not in others:
        others.append(label)
    return "(LO %s)" % cnat(others.index(label))


def has_case_variant(labels):
    return any(T_RE.match(l) and l[0] == "t" for l in labels)


# ---------------------------------------------------------------------------------------------
# dumping dendropy trees
# ---------------------------------------------------------------------------------------------

def dump_tree(tree, taxa):
    """-> nested [len, taxon index, kids]; taxa: list of Taxon objects giving the indices"""
    idx = {id(t): i for i, t in enumerate(taxa)}

    def rec(nd):
        l = nd.edge.length
        tx = None if nd.taxon is None else idx.get(id(nd.taxon), -1)
        return [fs(l), tx, [rec(c) for c in nd._child_nodes]]
    return rec(tree.seed_node)


def wf_problem(tree):
    """pointer well-formedness by exhaustive walk"""
    seen = set()
    stack = [(tree.seed_node, None)]
    while stack:
        nd, par = stack.pop()
        if id(nd) in seen:
            return "node reached twice"
        seen.add(id(nd))
        if nd._parent_node is not par:
            return "child's parent pointer is not the node listing it"
        if nd.edge.head_node is not nd:
            return "edge.head_node is not the node"
        for c in nd._child_nodes:
            stack.append((c, nd))
    return None


def t_leaves(t):
    return [t] if not t[2] else [x for k in t[2] for x in t_leaves(k)]


def t_nodes(t):
    out = [t]
    for k in t[2]:
        out.extend(t_nodes(k))
    return out


def t_depths(t, acc=Fraction(0), include_root=False, top=True):
    l = Fraction(t[0]) if t[0] is not None else Fraction(0)
    here = acc + (l if (include_root or not top) else 0)
    if not t[2]:
        return [here]
    return [d for k in t[2] for d in t_depths(k, here, include_root, False)]


def close(a, b, rel=1e-9):
    return abs(a - b) <= rel * max(abs(a), abs(b), 1e-300) or abs(a - b) <= 1e-12


def tree_spec_problem(t, exact):
    """binary + equidistant tips"""
    for nd in t_nodes(t):
        if len(nd[2]) not in (0, 2):
            return ("node with %d children" % len(nd[2]), "not-binary")
    ds = t_depths(t)
    if exact:
        if any(d != ds[0] for d in ds):
            return ("tips are not equidistant from the root: %s" % sorted(set(str(d) for d in ds))[:4], "not-equidistant")
    else:
        if any(not close(float(d), float(ds[0])) for d in ds):
            return ("tips are not equidistant from the root (1e-9): %s" % sorted(set(float(d) for d in ds))[:4], "not-equidistant")
    return None


# ---------------------------------------------------------------------------------------------
# running the simulators
# ---------------------------------------------------------------------------------------------

def make_ns(case):
    import dendropy
    if case.get("ns") is None:
        return None
    return dendropy.TaxonNamespace(list(case["ns"]), is_case_sensitive=bool(case.get("cs", False)))


def build_species(spec):
    """spec node: {"sid", "taxon": label|None, "len": str|None, "pop": str|None, "kids"} -> dendropy Tree"""
    import dendropy
    labels = []

    def collect(s):
        if s["taxon"] is not None and s["taxon"] not in labels:
            labels.append(s["taxon"])
        for k in s["kids"]:
            collect(k)
    collect(spec)
    ns = dendropy.TaxonNamespace(labels)
    tree = dendropy.Tree(taxon_namespace=ns)
    tree.is_rooted = True
    nodes = {}

    def fill(nd, s):
        nodes[s["sid"]] = nd
        nd.edge.length = None if s["len"] is None else float(Fraction(s["len"]))
        if s["taxon"] is not None:
            nd.taxon = ns.get_taxon(s["taxon"])
        if s.get("pop") is not None:
            nd.edge.pop_size = float(Fraction(s["pop"]))
        for k in s["kids"]:
            fill(nd.new_child(), k)
    fill(tree.seed_node, spec)
    return tree, ns, nodes


def run_sim(case, rng, extra=None):
    """Call the simulator named by the case with generator `rng`.
    Returns (tree, taxa list for indices, final labels or None, extra); `extra` is filled in place
    (so that what was observed before an exception survives)."""
    import dendropy
    from dendropy.model import birthdeath, coalescent
    from dendropy.simulate import treesim
    sim = case["sim"]
    if extra is None:
        extra = {}
    if sim in ("bd", "fbd"):
        fn = treesim.birth_death_tree if sim == "bd" else birthdeath.fast_birth_death_tree
        kw = dict(num_extant_tips=case["N"], rng=rng)
        if sim == "bd":
            kw["birth_rate_sd"] = float(F(case.get("sb", 0)))
            kw["death_rate_sd"] = float(F(case.get("sd", 0)))
        ns = make_ns(case)
        earlier = []
        for p in (case.get("prior") or []):
            # earlier simulations on the SAME namespace object (kept alive and re-observed below)
            if ns is None:
                ns = dendropy.TaxonNamespace()
            pfn = treesim.birth_death_tree if p.get("sim", "bd") == "bd" else birthdeath.fast_birth_death_tree
            pt = pfn(float(F(p["b"])), float(F(p["d"])), num_extant_tips=p["N"], taxon_namespace=ns,
                     rng=c18_chain.prior_rng(p, rng))
            earlier.append([pt, dump_tree(pt, list(ns)), [nd.taxon.label if nd.taxon is not None else None
                                                          for nd in pt.leaf_node_iter()], pt.taxon_namespace is ns])
        if ns is not None:
            kw["taxon_namespace"] = ns
        before = list(ns) if ns is not None else []
        extra["ns_before"] = [t.label for t in before]
        tree = fn(float(F(case["b"])), float(F(case["d"])), **kw)
        taxa = list(tree.taxon_namespace)
        if ns is not None and tree.taxon_namespace is not ns:
            extra["ns_not_used"] = True
        if [id(t) for t in taxa[:len(before)]] != [id(t) for t in before]:
            extra["ns_not_extended"] = True
        extra["leaf_labels"] = [nd.taxon.label for nd in tree.leaf_node_iter() if nd.taxon is not None]
        if earlier:
            extra["earlier_newick"] = [newick_repr(e[0]) for e in earlier]
        for i, (pt, dumped, labs, same_ns) in enumerate(earlier):
            now = [nd.taxon.label if nd.taxon is not None else None for nd in pt.leaf_node_iter()]
            if not same_ns or pt.taxon_namespace is not ns:
                extra["earlier_changed"] = "earlier tree %d is not on the supplied namespace" % i
            elif dump_tree(pt, taxa) != dumped or now != labs or wf_problem(pt):
                extra["earlier_changed"] = "tree returned by call %d changed during a later call: leaf labels %s -> %s" % (i, labs, now)
            elif set(id(x) for x in pt.preorder_node_iter()) & set(id(x) for x in tree.preorder_node_iter()):
                extra["earlier_changed"] = "the new tree shares nodes with the tree returned by call %d" % i
        return tree, taxa, [t.label for t in taxa], extra
    if sim == "pb":
        ns = dendropy.TaxonNamespace(["x%d" % i for i in range(case["N"])])
        tree = treesim.uniform_pure_birth_tree(ns, float(F(case["b"])), rng=rng)
        return tree, list(ns), None, extra
    if sim == "kingman":
        ns = dendropy.TaxonNamespace(["x%d" % i for i in range(case["N"])])
        tree = treesim.pure_kingman_tree(ns, float(F(case["pop"])) if Fraction(case["pop"]).denominator != 1 else int(F(case["pop"])), rng=rng)
        return tree, list(ns), None, extra
    if sim == "cc":
        sp, sns, nodes = build_species(case["species"])
        counts = [case["genes"].get(t.label, 0) for t in sns]
        m = dendropy.TaxonNamespaceMapping.create_contained_taxon_mapping(
            containing_taxon_namespace=sns, num_contained=counts)
        gns = m.domain_taxon_namespace
        gidx = {id(t): i for i, t in enumerate(gns)} if gns is not None else {}
        # the iteration order of the reverse sets (hashed by id()) is an input of the model
        order = {}
        for t in sns:
            if t in m.reverse:
                order[t.label] = [gidx[id(g)] for g in m.reverse[t]]
        extra["gene_order"] = order
        extra["gene_species"] = {}
        if gns is not None:
            for g in gns:
                extra["gene_species"][gidx[id(g)]] = m.forward[g].label
        kw = {}
        if case.get("default_pop") is not None:
            kw["default_pop_size"] = float(F(case["default_pop"]))
        tree = treesim.contained_coalescent_tree(containing_tree=sp, gene_to_containing_taxon_map=m, rng=rng, **kw)
        # the order in which the gene nodes of a species were actually created: coalesce_nodes works on
        # a copy, so the list stored for a species node still starts with its own gene nodes in
        # creation order (robust against a repair that orders the set)
        png = getattr(tree, "pop_node_genes", None)
        if png is not None:
            used = {}
            for nd in sp.preorder_node_iter():
                if nd.taxon is not None and nd.taxon in m.reverse and nd in png:
                    k = len(m.reverse[nd.taxon])
                    used[nd.taxon.label] = [gidx[id(g.taxon)] for g in png[nd][:k]]
            extra["gene_order"] = used
        return tree, (list(gns) if gns is not None else []), None, extra
    raise ValueError(sim)


class _WeightedChoiceWatch:
    """Wraps probability.weighted_choice during birth_death_tree runs to detect draws on which
    binary64 rounding of the normalised weights decides differently from exact arithmetic (a
    rng.random() value exactly on a cumulative boundary): such cases are outside the model's
    exact-arithmetic boundary and are not compared."""

    def __init__(self, rng):
        self.rng = rng
        self.fragile = False

    def __enter__(self):
        from dendropy.calculate import probability
        self.mod = probability
        self.orig = probability.weighted_choice

        def wrapped(seq, weights, rng=None):
            res = self.orig(seq, weights, rng=rng)
            if rng is not self.rng:
                return res          # an earlier call of a history, on its own generator
            try:
                ex = [Fraction(getattr(nd, "birth_rate") if b else getattr(nd, "death_rate")) for nd, b in seq]
                tot = sum(ex)
                u = self.rng.last_unit
                if tot != 0 and u is not None:
                    rnd = u * sum(e / tot for e in ex)
                    pick = None
                    for i, e in enumerate(ex):
                        rnd -= e / tot
                        if rnd < 0:
                            pick = i
                            break
                    if pick is None or seq[pick] is not res:
                        self.fragile = True
            except Exception:
                self.fragile = True
            return res
        probability.weighted_choice = wrapped
        return self

    def __exit__(self, *a):
        self.mod.weighted_choice = self.orig
        return False


_OBS_CACHE = {}


def observe(case):
    key = core.canon(case)
    if key in _OBS_CACHE:
        return _OBS_CACHE[key]
    obs = _observe(case)
    _OBS_CACHE[key] = obs
    return obs


def _observe(case):
    if case.get("script") is not None:
        rng = ScriptedRng(script=[[k, parse_val(k, v)] for k, v in case["script"]])
    else:
        pol = dict(case.get("policy") or {}, cap=case.get("cap", 300))
        if pol.get("events") is not None:
            pol.update(mode=case["sim"], b=case["b"], d=case["d"])
        rng = ScriptedRng(chooser=Chooser(random.Random(case["seed"]), pol))
        rng.chooser.owner = rng
    obs = {"extra": {}}
    watch = _WeightedChoiceWatch(rng)
    with poisoned_globals() as p:
        try:
            with core.alarm(20), watch:
                tree, taxa, labels, _x = run_sim(case, rng, obs["extra"])
            obs["out"] = ["tree", dump_tree(tree, taxa), labels]
            obs["wf"] = wf_problem(tree)
        except ScriptExhausted:
            obs["out"] = ["exhausted"]
        except (ScriptMismatch, UnscriptedMethod) as e:
            obs["out"] = ["harness", "%s: %s" % (type(e).__name__, e)]
        except GlobalRngTouched as e:
            obs["out"] = ["err", "GlobalRng"]
        except Exception as e:
            obs["out"] = ["err", core.exc_enum(e), "%s: %s" % (type(e).__name__, str(e)[:200])]
    obs["touched"] = list(p.touched)
    obs["script"] = [[k, ser_val(k, v)] for k, v in rng.consumed]
    obs["calls"] = [[c[0]] + [fs(a) if isinstance(a, Fraction) else a for a in c[1:]] for c in rng.trace]
    obs["fragile"] = bool(watch.fragile)
    return obs


def ser_val(kind, v):
    if kind in ("Exp", "Unit", "Gauss"):
        return str(Fraction(v))
    return v


def parse_val(kind, v):
    if kind in ("Exp", "Unit", "Gauss"):
        return Fraction(v)
    return v


# ---------------------------------------------------------------------------------------------
# Coq terms
# ---------------------------------------------------------------------------------------------

def c_draw(e):
    k, v = e
    if k == "Exp":
        return "(DExp %s)" % cq(v)
    if k == "Unit":
        return "(DUnit %s)" % cq(v)
    if k == "Gauss":
        return "(DGauss %s)" % cq(v)
    if k == "Perm":
        return "(DPerm %s)" % clist([cnat(i) for i in v])
    if k == "Index":
        return "(DIndex %s)" % cnat(v)
    if k == "Sample":
        return "(DSample %s)" % clist([cnat(i) for i in v])
    raise ValueError(e)


def c_call(c):
    k = c[0]
    if k == "expovariate":
        return "(CExp %s)" % cq(c[1])
    if k == "random":
        return "CUnit"
    if k == "gauss":
        return "(CGauss %s %s)" % (cq(c[1]), cq(c[2]))
    if k == "shuffle":
        return "(CShuffle %s)" % cnat(c[1])
    if k == "choice":
        return "(CChoice %s)" % cnat(c[1])
    if k == "randint":
        return "(CRandint %s %s)" % (cnat(c[1]), cnat(c[2]))
    if k == "sample":
        return "(CSample %s %s)" % (cnat(c[1]), cnat(c[2]))
    raise ValueError(c)


def c_otree(t):
    return "(O %s %s %s)" % (copt(t[0], cq), copt(t[1], cnat), clist([c_otree(k) for k in t[2]]))


def c_stree(s, case, order):
    if s["taxon"] is not None and order is not None and s["taxon"] in order:
        genes = "(Some %s)" % clist([cnat(i) for i in order[s["taxon"]]])
    else:
        genes = "None"
    pop = s.get("pop")
    if pop is None:
        pop = case.get("default_pop") if case.get("default_pop") is not None else "1"
    return "(SN %s %s %s %s %s)" % (cnat(s["sid"]), genes, copt(s["len"], cq), cq(pop),
                                    clist([c_stree(k, case, order) for k in s["kids"]]))


def c_simcall(case, obs, fresh_new):
    sim = case["sim"]
    if sim in ("bd", "fbd"):
        others = []
        ns0 = (obs.get("extra") or {}).get("ns_before") if case.get("prior") else None
        ns = clist([lab_term(l, others) for l in (ns0 if ns0 is not None else (case.get("ns") or []))])
        P = "(mkBdp %s %s %s %s %s)" % (cq(case["b"]), cq(case["d"]), cq(case.get("sb", 0)), cq(case.get("sd", 0)), cnat(case["N"]))
        return "(%s %s %s %s %s)" % ("SimBD" if sim == "bd" else "SimFBD", cbool(fresh_new), cbool(bool(case.get("cs", False))), P, ns), others
    if sim == "pb":
        return "(SimPB %s %s)" % (cnat(case["N"]), cq(case["b"])), []
    if sim == "kingman":
        return "(SimKingman %s %s)" % (cnat(case["N"]), cq(case["pop"])), []
    if sim == "cc":
        return "(SimCC %s)" % c_stree(case["species"], case, (obs.get("extra") or {}).get("gene_order")), []
    raise ValueError(sim)


FRESH_NEW = [False]


def to_coq(case, obs):
    simc, others = c_simcall(case, obs, FRESH_NEW[0])
    out = obs["out"]
    if out[0] == "tree":
        labels = out[2]
        if labels is None:
            ns = "[]"
        else:
            ns = clist([lab_term(l, others) for l in labels])
        o = "(OTree %s %s)" % (c_otree(out[1]), ns)
    elif out[0] == "exhausted":
        o = "OExhausted"
    elif out[0] == "err" and out[1] != "GlobalRng":
        o = "(OErr PyPrims.%s)" % out[1]
    else:
        o = "(OErr PyPrims.Hang)"      # never produced by the model: forces a disagreement
    return "(mkCase %s %s %s %s)" % (simc, clist([c_draw(e) for e in obs["script"]]),
                                      clist([c_call(c) for c in obs["calls"]]), o)


# ---------------------------------------------------------------------------------------------
# The oracle
# ---------------------------------------------------------------------------------------------

def species_paths(spec):
    """sid of every node -> list of (sid, len) from the node up to (excluding) the root"""
    out = {}

    def rec(s, above):
        out[s["sid"]] = above
        for k in s["kids"]:
            rec(k, [(k["sid"], Fraction(k["len"]) if k["len"] is not None else None)] + above)
    rec(spec, [])
    return out


def cc_problem(case, obs, exact=True, tol=1e-9):
    """gene lineages of different species never join more recently than the species diverged:
    for gene leaves x (species A) and y (species B != A) joined at gene node v, the height of x below
    v is at least the length of the species-tree path from A up to the first ancestor shared with B"""
    t = obs["out"][1]
    gsp = {int(k): v for k, v in obs["extra"]["gene_species"].items()}
    spec = case["species"]
    chain = {}      # sid -> [(sid, len)] the node itself, its parent, ... (root excluded)
    label_sid = {}

    def rec_s(s, above):
        chain[s["sid"]] = above
        if s["taxon"] is not None:
            label_sid[s["taxon"]] = s["sid"]
        for k in s["kids"]:
            rec_s(k, [(k["sid"], None if k["len"] is None else Fraction(k["len"]))] + above)
    rec_s(spec, [])

    def divergence(A, Bs):
        anc_b = {sid for sid, _ in chain[Bs]}
        dist = Fraction(0)
        for sid, ln in chain[A]:
            if sid in anc_b:
                break
            if ln is None:
                return None
            dist += ln
        return dist

    def tips(nd):
        l = Fraction(nd[0]) if nd[0] is not None else Fraction(0)
        if not nd[2]:
            return [(nd[1], l)]
        return [(g, h + l) for k in nd[2] for g, h in tips(k)]

    for nd in t_nodes(t):
        if len(nd[2]) not in (0, 2):
            return ("gene tree node with %d children" % len(nd[2]), "cc-not-binary")
    for nd in t_nodes(t):
        groups = [tips(k) for k in nd[2]]
        for i in range(len(groups)):
            for j in range(len(groups)):
                if i == j:
                    continue
                for gx, hx in groups[i]:
                    for gy, _hy in groups[j]:
                        A, Bs = label_sid[gsp[gx]], label_sid[gsp[gy]]
                        if A == Bs:
                            continue
                        dist = divergence(A, Bs)
                        if dist is None:
                            continue
                        bad = (hx < dist) if exact else (float(hx) < float(dist) - tol * max(1.0, float(dist)))
                        if bad:
                            return ("gene %d (species %s) joins gene %d (species %s) at height %s < divergence %s"
                                    % (gx, gsp[gx], gy, gsp[gy], hx, dist), "cc-joined-before-divergence")
    return None


def result_problem(case, obs, exact=True):
    """the property's clauses on a returned tree"""
    out = obs["out"]
    sim = case["sim"]
    t = out[1]
    if obs.get("wf"):
        return ("tree not well formed: %s" % obs["wf"], "not-well-formed:" + sim)
    leaves = t_leaves(t)
    if sim in ("bd", "fbd", "pb"):
        N = case["N"]
        if N >= 1 and len(leaves) != N:
            return ("%d extant leaves instead of %d" % (len(leaves), N), "tip-count:" + sim)
        if N >= 1:
            taxa = [l[1] for l in leaves]
            if any(x is None or x < 0 for x in taxa):
                return ("leaf without a taxon of the tree's namespace", "leaf-without-taxon:" + sim)
            if len(set(taxa)) != len(taxa):
                labels = out[2] or []
                dup = [x for x in set(taxa) if taxa.count(x) > 1][0]
                lab = labels[dup] if dup < len(labels) else "?"
                if sim in ("bd", "fbd") and has_case_variant(case.get("ns") or []) and not case.get("cs"):
                    return ("taxon %r assigned to %d leaves (fresh label matched an existing taxon case-insensitively)"
                            % (lab, taxa.count(dup)), KEY_DUP + ":" + ("birth_death_tree" if sim == "bd" else "fast_birth_death_tree"))
                return ("taxon %r assigned to %d leaves" % (lab, taxa.count(dup)), "taxon-assigned-twice:" + sim)
            v = tree_spec_problem(t, exact)
            if v:
                return (v[0], v[1] + ":" + sim)
            if sim in ("bd", "fbd"):
                fn = "birth_death_tree" if sim == "bd" else "fast_birth_death_tree"
                ex = obs.get("extra") or {}
                if ex.get("ns_not_used"):
                    return ("the returned tree is not on the supplied namespace", "namespace-not-used:" + sim)
                if ex.get("ns_not_extended"):
                    return ("the supplied namespace was not merely extended (taxa replaced / reordered / removed)", "namespace-not-extended:" + sim)
                if ex.get("earlier_changed"):
                    return (ex["earlier_changed"], "earlier-tree-changed:" + sim)
                if ex.get("leaf_labels") is not None and out[2] is not None:
                    lv = c18_chain.label_problem(fn, ex.get("ns_before") or [], out[2], ex["leaf_labels"])
                    if lv:
                        return lv
    elif sim == "kingman":
        N = case["N"]
        if N >= 1:
            taxa = sorted(l[1] for l in leaves if l[1] is not None)
            if taxa != list(range(N)) or len(leaves) != N:
                return ("leaf taxa %s are not one leaf per taxon of %d" % (taxa, N), "kingman-leaf-per-taxon")
            v = tree_spec_problem(t, exact)
            if v:
                return (v[0], v[1] + ":kingman")
    elif sim == "cc":
        ngenes = len(obs["extra"]["gene_species"])
        taxa = sorted(l[1] for l in leaves if l[1] is not None)
        if taxa != list(range(ngenes)):
            return ("gene tree leaves %s are not one per gene taxon (%d)" % (taxa, ngenes), "cc-leaf-per-gene")
        v = cc_problem(case, obs, exact)
        if v:
            return v
    return None


def admissible(case):
    """inside the property's quantifier (birth > death >= 0, N >= 1, defined non-negative species edges)"""
    sim = case["sim"]
    if sim in ("bd", "fbd"):
        return F(case["b"]) > F(case["d"]) >= 0 and case["N"] >= 1 and F(case.get("sb", 0)) == 0 and F(case.get("sd", 0)) == 0
    if sim == "pb":
        return F(case["b"]) > 0 and case["N"] >= 1
    if sim == "kingman":
        return case["N"] >= 1 and F(case["pop"]) >= 0
    if sim == "cc":
        def ok(s, root):
            if not root and (s["len"] is None or F(s["len"]) < 0):
                return False
            if s.get("pop") is not None and F(s["pop"]) < 0:
                return False
            if not s["kids"] and (s["taxon"] is None or case["genes"].get(s["taxon"], 0) < 1):
                return False
            return all(ok(k, False) for k in s["kids"])
        return ok(case["species"], True)
    return False


def oracle(case, obs):
    out = obs["out"]
    sim = case["sim"]
    if obs["touched"]:
        return ("%s used the global generator although rng= was supplied: %s" % (sim, obs["touched"][:3]),
                "global-rng-touched:" + sim)
    if out[0] == "harness":
        return ("scripted generator could not serve the simulator: %s" % out[1], "unscripted-method:" + sim)
    if out[0] == "tree":
        if admissible(case):
            v = result_problem(case, obs, exact=True)
            if v:
                return v
        if case.get("script") is None:
            # reproducibility: replaying the consumed script returns the identical result
            rep = dict(case)
            rep["script"] = obs["script"]
            o2 = _observe(rep)
            same = (o2["out"][0] == "tree" and o2["out"][1] == out[1] and o2["out"][2] == out[2]
                    and o2["calls"] == obs["calls"] and len(o2["script"]) == len(obs["script"]))
            if sim == "cc":
                # leaf labels may be permuted within a species by the set order: compare shapes/lengths
                same = (o2["out"][0] == "tree" and strip_taxa(o2["out"][1]) == strip_taxa(out[1])
                        and o2["calls"] == obs["calls"])
            if not same:
                return ("%s is not a function of (arguments, draws): a replay of the same draws differs" % sim,
                        "not-reproducible:" + sim)
    elif out[0] == "err" and admissible(case) and case.get("script") is None:
        return ("%s raised %s on an admissible input" % (sim, out[1:]), "raises:%s:%s" % (sim, out[1]))
    return None


def strip_taxa(t):
    return [t[0], None if t[1] is None else 0, [strip_taxa(k) for k in t[2]]]


# ---------------------------------------------------------------------------------------------
# Case generation
# ---------------------------------------------------------------------------------------------

RATES = [("1", "0"), ("1", "0"), ("1", "1/2"), ("2", "1"), ("1", "3/4"), ("3", "1"), ("1/2", "1/4"), ("4", "3"),
         ("1", "7/8"), ("2", "0"), ("3/2", "1/2")]
NS_POOLS = [None, None, [], ["A", "B", "C"], ["A", "B", "C", "D", "E", "F", "G", "H"], ["T1", "T2"], ["T2", "T5", "x"],
            ["A", "A"], ["T3"], ["a", "T1", "b", "T4", "T2"], ["x1"], ["T01", "T1"]]
VARIANT_POOLS = [["t1"], ["t1", "T2"], ["A", "t2"], ["t1", "t2", "t3"], ["T1", "t2"]]


def gen_case(rng, tier, kind=None):
    kind = kind or rng.choice(["bd", "bd", "bd", "fbd", "fbd", "pb", "kingman", "cc", "cc"])
    big = tier == "thorough"
    seed = rng.getrandbits(40)
    if kind in ("bd", "fbd"):
        b, d = rng.choice(RATES)
        N = rng.choice([1, 1, 2, 2, 3, 3, 4, 5, 6, 7, 8, 10, 12] + ([16, 20, 30] if big else []) + [0])
        case = {"sim": kind, "b": b, "d": d, "N": N, "seed": seed}
        ns = rng.choice(NS_POOLS)
        if rng.random() < 0.12:
            ns = rng.choice(VARIANT_POOLS)
        if ns is not None:
            case["ns"] = list(ns)
            case["cs"] = rng.random() < 0.3
        pol = rng.random()
        if pol < 0.25:
            case["policy"] = {"unit": "high"}       # favours deaths / late lineages
        elif pol < 0.4:
            case["policy"] = {"unit": "low"}
        if kind == "bd" and rng.random() < 0.12:
            case["sb"] = rng.choice(["1/4", "1/2", "0"])
            case["sd"] = rng.choice(["1/4", "0", "1/8"])
        if rng.random() < 0.03:
            case["b"], case["d"] = rng.choice([("0", "0"), ("1", "1"), ("1", "2")])
        case["cap"] = 160 if not big else 400
        if rng.random() < 0.3 and F(case["b"]) > F(case["d"]) >= 0:
            # successive simulations sharing one namespace
            case = c18_chain.chain_case(rng, case)
        return case
    if kind == "pb":
        return {"sim": "pb", "N": rng.choice([0, 1, 1, 2, 3, 4, 5, 6, 8, 10] + ([20] if big else [])),
                "b": rng.choice(["1", "2", "1/2", "4", "1/4", "1", "0"] if rng.random() < 0.1 else ["1", "2", "1/2", "4", "1/4"]),
                "seed": seed}
    if kind == "kingman":
        return {"sim": "kingman", "N": rng.choice([0, 1, 2, 2, 3, 4, 5, 6, 8, 10] + ([20] if big else [])),
                "pop": rng.choice(["1", "2", "1/2", "4", "0", "1", "10"]), "seed": seed}
    # contained coalescent
    nsp = rng.choice([1, 2, 2, 3, 3, 4, 5] + ([7] if big else []))
    counter = [0]

    def fresh():
        counter[0] += 1
        return counter[0] - 1

    def length(root=False):
        if rng.random() < (0.3 if root else 0.03):
            return None
        return str(Fraction(rng.choice([0, 1, 1, 2, 2, 3, 4, 6, 8, 12]), rng.choice([1, 2, 4])))

    def pop():
        return rng.choice([None, None, None, "1", "2", "1/2", "4"] + (["0"] if rng.random() < 0.1 else []))

    labels = ["S%d" % i for i in range(nsp)]
    li = [0]

    def build(n, root=False):
        nd = {"sid": fresh(), "taxon": None, "len": length(root), "pop": pop(), "kids": []}
        if n == 1:
            nd["taxon"] = labels[li[0]]
            li[0] += 1
            if rng.random() < 0.04:
                nd["taxon"] = None         # a species leaf without a taxon: KeyError path
        else:
            k = rng.randint(1, n - 1)
            parts = [k, n - k]
            if n >= 3 and rng.random() < 0.15:
                a = rng.randint(1, n - 2)
                bb = rng.randint(1, n - a - 1)
                parts = [a, bb, n - a - bb]
            for p in parts:
                nd["kids"].append(build(p))
        return nd
    spec = build(nsp, True)
    genes = {}
    for l in labels:
        genes[l] = rng.choice([1, 1, 2, 2, 3, 4] + ([0] if rng.random() < 0.05 else []))
    case = {"sim": "cc", "species": spec, "genes": genes, "seed": seed}
    if rng.random() < 0.3:
        case["default_pop"] = rng.choice(["2", "1/2", "1"])
    return case


def directed_cases(tier):
    """small-scope enumeration: every sequence of the first L event choices (birth / death of the
    k-th extant lineage) for small N; afterwards births only"""
    import itertools
    out = []
    L = 3 if tier == "quick" else 4
    alpha = range(4) if tier == "quick" else range(5)
    for sim in ("bd", "fbd"):
        for (b, d) in (("1", "1/2"), ("2", "1")) if tier != "quick" else (("1", "1/2"),):
            for N in ((2, 3) if tier == "quick" else (2, 3, 4)):
                for ev in itertools.product(alpha, repeat=L):
                    out.append({"sim": sim, "b": b, "d": d, "N": N, "seed": 7, "policy": {"events": list(ev)}, "cap": 120})
    return out


def truncated(case, obs, rng):
    """a replay of the consumed script cut short: both sides must report exhaustion"""
    n = len(obs["script"])
    if n == 0 or obs["out"][0] != "tree" or case["sim"] == "cc":
        return None
    c = {k: v for k, v in case.items() if k not in ("seed", "policy", "cap")}
    cut = n - 1 if rng.random() < 0.5 else rng.randrange(n)
    c["script"] = obs["script"][:cut]
    return c


def nontrivial(case, obs):
    if obs["out"][0] != "tree":
        return False
    return len(t_leaves(obs["out"][1])) >= 3 and len(obs["script"]) >= 4


def count_dist(ctx, case, obs):
    sim = case["sim"]
    ctx.count("sim:" + sim)
    ctx.count("outcome:" + obs["out"][0] + (":" + str(obs["out"][1]) if obs["out"][0] == "err" else ""))
    if sim in ("bd", "fbd"):
        ctx.count("N:%s" % ("0" if case["N"] == 0 else "1" if case["N"] == 1 else "2-4" if case["N"] <= 4 else "5-12" if case["N"] <= 12 else ">12"))
        ctx.count("namespace:" + ("none" if case.get("ns") is None else "short" if len(case["ns"]) < case["N"] else "enough"))
        if case.get("prior"):
            held = len((obs.get("extra") or {}).get("ns_before") or [])
            ctx.count("shared-namespace:%d earlier call(s), N %s what it holds" % (
                len(case["prior"]), "above" if case["N"] > held else "equal to" if case["N"] == held else "below"))
            if any(T_RE.match(l) for l in (obs.get("extra") or {}).get("ns_before") or []) and case["N"] > held:
                ctx.count("shared-namespace:T-labels held and new ones minted")
        calls = obs["calls"]
        # walk statistics recovered from the expovariate arguments (number of extant lineages)
        rates = [Fraction(c[1]) for c in calls if c[0] == "expovariate"]
        tot = F(case["b"]) + F(case["d"])
        if tot > 0 and F(case.get("sb", 0)) == 0 and F(case.get("sd", 0)) == 0:
            ns_ = [r / tot for r in rates]
            deaths = sum(1 for a, b in zip(ns_, ns_[1:]) if b < a)
            restarts = sum(1 for a, b in zip(ns_, ns_[1:]) if a == 1 and b == 1)
            if deaths:
                ctx.count("walks-with-death")
            if restarts:
                ctx.count("walks-with-restart")
        if case.get("script") is not None:
            ctx.count("truncated-replay")


# ---------------------------------------------------------------------------------------------
# Real seeds (oracle only)
# ---------------------------------------------------------------------------------------------

def newick_repr(tree):
    def rec(nd):
        s = ""
        if nd._child_nodes:
            s = "(" + ",".join(rec(c) for c in nd._child_nodes) + ")"
        if nd.taxon is not None:
            s += nd.taxon.label.replace(" ", "_")
        if nd.edge.length is not None:
            s += ":" + repr(nd.edge.length)
        return s
    return rec(tree.seed_node) + ";"


def seed_case(rng):
    kind = rng.choice(["bd", "bd", "fbd", "pb", "kingman", "cc"])
    if kind in ("bd", "fbd"):
        b = rng.choice([1.0, 0.7, 2.5, 0.1])
        d = rng.choice([0.0, 0.0, 0.3, 0.5, 0.9, 0.95]) * b
        c = {"sim": kind, "b": repr(b), "d": repr(d), "N": rng.choice([1, 2, 3, 5, 8, 13, 21, 40])}
        r = rng.random()
        if r < 0.35:
            k = rng.choice([0, 1, 3, 8, 50])
            c["ns"] = ["sp%d" % i for i in range(k)]
            c["cs"] = rng.random() < 0.5
        elif r < 0.7:
            # successive simulations on one namespace and ONE generator (namespaces holding T<k> labels from
            # the earlier call or from the caller, case variants; sizes below / at / above what it holds)
            c = c18_chain.chain_case(rng, c)
            for p in c["prior"]:
                p.pop("policy", None)
                p["b"], p["d"] = c["b"], c["d"]
        return c
    if kind == "pb":
        return {"sim": "pb", "N": rng.choice([1, 2, 3, 5, 8, 13, 30]), "b": repr(rng.choice([1.0, 0.3, 2.0]))}
    if kind == "kingman":
        return {"sim": "kingman", "N": rng.choice([1, 2, 3, 5, 8, 13, 30]), "pop": repr(rng.choice([1.0, 1.0, 100.0, 0.5]))}
    c = gen_case(rng, "quick", "cc")
    # real-valued species edges, every species has genes

    def fix(s, root=True):
        s["len"] = None if root and rng.random() < 0.5 else repr(rng.choice([0.0, 0.1, 0.5, 1.0, 2.5, 10.0]) * rng.random())
        if s["pop"] == "0":
            s["pop"] = None
        if not s["kids"] and s["taxon"] is None:
            s["taxon"] = "X%d" % s["sid"]
        for k in s["kids"]:
            fix(k, False)
    fix(c["species"])

    def labs(s):
        return ([s["taxon"]] if s["taxon"] is not None else []) + [x for k in s["kids"] for x in labs(k)]
    c["genes"] = {l: rng.choice([1, 2, 3, 5]) for l in labs(c["species"])}
    c.pop("seed", None)
    return c


def Ff(x):
    """Fraction of a repr'd float or rational string"""
    try:
        return Fraction(x)
    except (ValueError, TypeError):
        return Fraction(float(x))


def run_seed(case, seed):
    rng = RecordingRng(seed)
    with poisoned_globals() as p:
        try:
            with core.alarm(60):
                tree, taxa, labels, extra = run_sim(case, rng)
            res = {"out": ["tree", dump_tree(tree, taxa), labels], "wf": wf_problem(tree), "extra": extra,
                   "newick": newick_repr(tree)}
        except GlobalRngTouched:
            res = {"out": ["err", "GlobalRng"]}
        except Exception as e:
            res = {"out": ["err", core.exc_enum(e), "%s: %s" % (type(e).__name__, str(e)[:200])]}
    res["touched"] = list(p.touched)
    res["methods"] = dict(rng.calls)
    return res


def seed_oracle(case, seed):
    a = run_seed(case, seed)
    sim = case["sim"]
    if a["touched"]:
        return ("%s used the global generator although rng= was supplied: %s" % (sim, a["touched"][:3]), "global-rng-touched:" + sim)
    if a["out"][0] != "tree":
        return ("%s raised %s with random.Random(%d)" % (sim, a["out"][1:], seed), "raises:%s:%s" % (sim, a["out"][1]))
    v = result_problem(case, a, exact=False)
    if v:
        return v
    b = run_seed(case, seed)
    if sim == "cc":
        # run_sim rebuilds the species tree and the gene map: the draws and the shape must agree;
        # labelled identity additionally depends on the iteration order of sets hashed by id()
        if b["out"][0] != "tree" or strip_taxa(b["out"][1]) != strip_taxa(a["out"][1]):
            return ("contained_coalescent_tree: two runs from equal generator states differ in shape/lengths", "not-reproducible:cc")
        if b["newick"] != a["newick"]:
            return ("contained_coalescent_tree: two runs from equal generator states and equal (rebuilt) arguments "
                    "return differently labelled trees: gene nodes are created by iterating a set of Taxon hashed by id()",
                    KEY_SETORDER)
        return None
    if b.get("newick") != a["newick"] or (b.get("extra") or {}).get("earlier_newick") != (a.get("extra") or {}).get("earlier_newick"):
        return ("%s: two runs from equal generator states return different trees" % sim, "not-reproducible:" + sim)
    return None


def seeds_stage(ctx, n, budget_s):
    t0 = time.time()
    rng = random.Random(ctx.seed * 7919 + 18)
    done = 0
    for i in range(n):
        if time.time() - t0 > budget_s:
            ctx.notes.append("seed stage stopped by its time budget after %d of %d seeds" % (done, n))
            break
        case = seed_case(rng)
        seed = rng.getrandbits(32)
        # floats given as repr strings: make them exact rationals for run_sim
        c2 = json.loads(json.dumps(case))
        for k in ("b", "d", "pop"):
            if k in c2:
                c2[k] = str(Ff(c2[k]))
        if c2["sim"] == "cc":
            def conv(s):
                if s["len"] is not None:
                    s["len"] = str(Ff(s["len"]))
                for k in s["kids"]:
                    conv(k)
            conv(c2["species"])
        v = seed_oracle(c2, seed)
        done += 1
        ctx.count("seed:" + case["sim"])
        if v:
            ctx.violation(v[0], {"seed_case": c2, "seed": seed}, key=v[1])
    ctx.evaluations += done
    ctx.obligation("real seeds: %d runs (random.Random(seed), GLOBAL_RNG poisoned) satisfy the oracle and are reproducible" % done,
                   True)
    return done


# ---------------------------------------------------------------------------------------------
# Probes for the recorded findings (narrow keys) and the variant of the fresh-label site
# ---------------------------------------------------------------------------------------------

def probe_fresh_label_site():
    """Which form does the working tree have at `taxon = taxon_namespace.require_taxon(label=label)`?
    returns "require" (current: existing case-variant taxon returned), "new" (always a new taxon), or None."""
    import dendropy
    from dendropy.simulate import treesim
    ns = dendropy.TaxonNamespace(["t1"])
    try:
        t = treesim.birth_death_tree(1.0, 0.0, num_extant_tips=2, taxon_namespace=ns, rng=random.Random(3))
    except Exception:
        return None
    taxa = [id(l.taxon) for l in t.leaf_node_iter()]
    labels = [x.label for x in ns]
    if len(set(taxa)) == 1 and labels == ["t1"]:
        return "require"
    if len(set(taxa)) == 2 and labels == ["t1", "T1"]:
        return "new"
    return None


def probes(ctx):
    import dendropy
    from dendropy.simulate import treesim
    from dendropy.model import coalescent, birthdeath
    from dendropy.calculate import probability
    # (B) binary64 fall-through of weighted_index_choice: rng.random() = 1 - 2**-53 is a reachable
    #     state of random.Random; with 6 extant lineages the subtraction loop ends at exactly 0.0
    class R(random.Random):
        def random(self):
            return 1 - 2.0 ** -53

        def expovariate(self, l):
            return 0.5

        def shuffle(self, x):
            pass
    for n in (7, 4, 11, 13):
        try:
            with core.alarm(10):
                treesim.birth_death_tree(1.0, 0.0, num_extant_tips=n, rng=R())
        except TypeError as e:
            ctx.violation("birth_death_tree(1.0, 0.0, num_extant_tips=%d) raises TypeError (%s) when rng.random() returns 1-2**-53: "
                          "weighted_index_choice falls off the end of its loop through binary64 rounding and returns None" % (n, e),
                          {"probe": "float-fallthrough", "n": n}, key=KEY_FLOAT)
            break
        except Exception:
            pass
    # (C) labelled result of contained_coalescent_tree must not depend on id()-ordered sets
    def cc_once(pad):
        junk = [object() for _ in range(pad)]      # shifts the addresses of the Taxon objects
        sp = dendropy.Tree.get(data="[&R] (A:10,(B:6,(C:4,D:4):2):4);", schema="newick")
        m = dendropy.TaxonNamespaceMapping.create_contained_taxon_mapping(sp.taxon_namespace, num_contained=4)
        g = treesim.contained_coalescent_tree(sp, m, rng=random.Random(5))
        del junk
        return newick_repr(g)
    try:
        outs = {cc_once(7 * k) for k in range(8)}
        if len(outs) > 1:
            ctx.violation("contained_coalescent_tree: %d differently labelled trees from 8 runs with random.Random(5) and equal "
                          "(rebuilt) arguments: gene nodes are created by iterating a set of Taxon hashed by id()" % len(outs),
                          {"probe": "contained-set-order"}, key=KEY_SETORDER)
    except Exception:
        pass
    # (D) functions that take rng= and still use the global generator
    with poisoned_globals() as p:
        try:
            coalescent.discrete_time_to_coalescence(4, pop_size=2, rng=random.Random(1))
        except Exception:
            pass
    if p.touched:
        ctx.violation("coalescent.discrete_time_to_coalescence(..., rng=r) draws from GLOBAL_RNG (geometric_rv called without rng): %s" % p.touched[:2],
                      {"probe": "discrete_time_to_coalescence"}, key=KEY_DTC)
    with poisoned_globals() as p:
        try:
            probability.poisson_rv(100.0, rng=random.Random(1))
        except Exception:
            pass
    if p.touched:
        ctx.violation("probability.poisson_rv(rate>64, rng=r) recurses without rng and draws from GLOBAL_RNG: %s" % p.touched[:2],
                      {"probe": "poisson_rv"}, key=KEY_POISSON)
    with poisoned_globals() as p:
        try:
            list(treesim.rand_trees(random.Random(1), treesim.birth_death_tree,
                                    {"birth_rate": 1.0, "death_rate": 0.0, "num_extant_tips": 3}, 1))
        except Exception:
            pass
    if p.touched:
        ctx.violation("treesim.rand_trees(rng, model_fn, kwargs, n) never passes rng to model_fn: trees are drawn from GLOBAL_RNG: %s" % p.touched[:2],
                      {"probe": "rand_trees"}, key=KEY_RANDTREES)
    # every other rng-taking function of calculate/probability.py must stay on its generator
    for name, args in (("binomial_rv", (5, 0.3)), ("poisson_rv", (3.0,)), ("num_poisson_events", (2.0, 3.0)),
                       ("sample_multinomial", ([0.2, 0.3, 0.5],)), ("weighted_choice", (["a", "b"], [0.5, 0.5])),
                       ("weighted_index_choice", ([1.0, 2.0],)), ("geometric_rv", (0.3,))):
        with poisoned_globals() as p:
            try:
                with core.alarm(5):
                    getattr(probability, name)(*args, rng=random.Random(2))
            except Exception:
                pass
        if p.touched:
            ctx.violation("probability.%s(..., rng=r) uses the global generator: %s" % (name, p.touched[:2]),
                          {"probe": name}, key="global-rng-touched:probability." + name)
    for name, fn in (("time_to_coalescence", lambda r: coalescent.time_to_coalescence(5, pop_size=3, rng=r)),
                     ("pure_kingman_tree_shape", lambda r: coalescent.pure_kingman_tree_shape(5, rng=r)),
                     ("mean_kingman_tree", lambda r: coalescent.mean_kingman_tree(dendropy.TaxonNamespace(["a", "b", "c"]), rng=r)),
                     ("constrained_kingman_tree", lambda r: coalescent.constrained_kingman_tree(
                         dendropy.Tree.get(data="[&R] ((A:1,B:1):1,C:2);", schema="newick"), rng=r)),
                     ("discrete_birth_death_tree", lambda r: birthdeath.discrete_birth_death_tree(0.4, 0.1, num_extant_tips=4, rng=r))):
        with poisoned_globals() as p:
            try:
                with core.alarm(10):
                    fn(random.Random(2))
            except Exception:
                pass
        if p.touched:
            ctx.violation("%s(..., rng=r) uses the global generator: %s" % (name, p.touched[:2]),
                          {"probe": name}, key="global-rng-touched:" + name)


# ---------------------------------------------------------------------------------------------
# Histories within one interpreter session (module-level state must not leak into a simulator)
# ---------------------------------------------------------------------------------------------

def run_worker(job, timeout=120):
    """python -m dv.c18_hist in a fresh interpreter on the source tree under check"""
    import os
    import subprocess
    import sys
    env = dict(os.environ)
    env["PYTHONPATH"] = "%s:%s" % (os.path.join(core.REPO, "src"), os.path.join(core.ROOT, "py"))
    env["PYTHONHASHSEED"] = "0"
    env["PYTHONDONTWRITEBYTECODE"] = "1"
    try:
        p = subprocess.run([sys.executable, "-m", "dv.c18_hist"], input=json.dumps(job), env=env, timeout=timeout,
                           stdout=subprocess.PIPE, stderr=subprocess.PIPE, text=True)
    except subprocess.TimeoutExpired:
        return {"error": "timeout"}
    if p.returncode != 0:
        return {"error": "worker failed: " + p.stderr[-600:]}
    try:
        return json.loads(p.stdout)
    except ValueError:
        return {"error": "worker output: " + p.stdout[-300:]}


def history_case(rng, tier):
    from dv import c18_hist
    kind = rng.choice(["kingman", "kingman", "cc", "cc", "bd", "fbd", "pb"])
    case = gen_case(rng, tier, kind)
    if kind == "kingman" and case["N"] < 3:
        case["N"] = rng.randint(3, 9)
    steps = c18_hist.gen_steps(rng, case)
    if rng.random() < 0.5:
        # a public function used with a non-default parameter over the whole range of lineage counts
        k = rng.choice([3, 3, 4])
        hi = (case.get("N") or 8) + 4
        steps = [["time_to_coalescence", rng.getrandbits(30) + n, n, rng.choice([1, 2.0, None]), k]
                 for n in range(3, hi)] + steps
    return {"history": steps, "case": case, "seed": rng.getrandbits(32)}


def _no_addr(o):
    """outcomes of two processes are compared: object addresses in error messages are not part of them"""
    if isinstance(o, str):
        return re.sub(r"0x[0-9a-fA-F]+", "0x", o)
    if isinstance(o, (list, tuple)):
        return [_no_addr(x) for x in o]
    return o


def history_oracle(h):
    """the simulator under test after the history must behave exactly as in a fresh session"""
    case, sim = h["case"], h["case"]["sim"]
    ref = run_worker({"steps": [], "case": case, "seed": h["seed"]})
    if "error" in ref:
        return ("history worker (fresh session) failed: %s" % ref["error"], "history-worker-failed")
    hist = run_worker({"steps": h["history"], "case": case, "seed": h["seed"], "script": ref["scripted"]["script"]})
    if "error" in hist:
        return ("history worker failed: %s" % hist["error"], "history-worker-failed")
    a, b = ref["scripted"], hist["scripted"]
    ta = strip_taxa(a["out"][1]) if (sim == "cc" and a["out"][0] == "tree") else _no_addr(a["out"])
    tb = strip_taxa(b["out"][1]) if (sim == "cc" and b["out"][0] == "tree") else _no_addr(b["out"])
    if b["touched"] or hist["seeded"]["touched"]:
        return ("%s used the global generator after the history: %s" % (sim, (b["touched"] + hist["seeded"]["touched"])[:2]),
                "global-rng-touched:" + sim)
    if ta != tb or a["calls"] != b["calls"] or a["script"] != b["script"]:
        diff = next((i for i, (x, y) in enumerate(zip(a["calls"], b["calls"])) if x != y), None)
        what = ("generator call %d: fresh %s / after the history %s" % (diff, a["calls"][diff], b["calls"][diff])
                if diff is not None else "outcome fresh %s / after the history %s" % (str(a["out"])[:120], str(b["out"])[:120]))
        return ("%s depends on what was computed earlier in the session (scripted generator, same draws): %s; history: %s"
                % (sim, what, json.dumps(h["history"])[:300]), "history-dependent:" + sim)
    x, y = ref["seeded"], hist["seeded"]
    same = (_no_addr(x["out"]) == _no_addr(y["out"])) and (x["newick"] == y["newick"] if sim != "cc" else
                                       (x["newick"] is None) == (y["newick"] is None))
    if sim == "cc" and x["newick"] is not None and y["newick"] is not None:
        same = same and re.sub(r"[A-Za-z_][A-Za-z_0-9]*", "g", x["newick"]) == re.sub(r"[A-Za-z_][A-Za-z_0-9]*", "g", y["newick"])
    if not same:
        return ("%s with random.Random(%d) returns a different tree after the history than in a fresh session; history: %s"
                % (sim, h["seed"], json.dumps(h["history"])[:300]), "history-dependent:" + sim)
    return None


def history_stage(ctx, n, stop_at_first=False, rng=None):
    from concurrent.futures import ThreadPoolExecutor
    rng = rng or random.Random(ctx.seed * 104729 + 18)
    hs = [history_case(rng, ctx.tier) for _ in range(n)]
    with ThreadPoolExecutor(max_workers=8) as ex:
        results = list(ex.map(history_oracle, hs))
    bad = 0
    for h, v in zip(hs, results):
        ctx.count("history:" + h["case"]["sim"])
        if v:
            bad += 1
            ctx.violation(v[0], h, key=v[1])
            if stop_at_first:
                break
    ctx.evaluations += len(hs)
    return len(hs), bad


# ---------------------------------------------------------------------------------------------
# search / run
# ---------------------------------------------------------------------------------------------

def search(ctx, budget_s):
    t0 = time.time()
    rng = random.Random(ctx.seed + 4242)
    # discrete_birth_death_tree first (cheap): scripted cases through its oracle
    from dv import c18_disc
    before_d = len(ctx.violations)
    c18_disc.search(ctx, min(15, budget_s * 0.2))
    if len(ctx.violations) > before_d:
        return
    # histories first: state left behind by earlier public calls in the same session
    before = len(ctx.violations)
    nh, _bad = history_stage(ctx, 48 if ctx.tier == "quick" else 200, rng=random.Random(ctx.seed + 99))
    if len(ctx.violations) > before:
        return
    ctx.notes.append("search: %d session histories (polluting public calls, then the simulator; compared with a fresh session), no difference" % nh)
    n = 0
    while time.time() - t0 < budget_s * 0.6 and n < 20000:
        case = gen_case(rng, ctx.tier)
        obs = observe(case)
        v = oracle(case, obs)
        n += 1
        if v:
            ctx.violation(v[0], {"case": case, "observed": obs}, key=v[1])
            if ctx.violations:
                return
    m = 0
    while time.time() - t0 < budget_s and m < 20000:
        case = seed_case(rng)
        c2 = json.loads(json.dumps(case))
        for k in ("b", "d", "pop"):
            if k in c2:
                c2[k] = str(Ff(c2[k]))
        if c2["sim"] == "cc":
            def conv(s):
                if s["len"] is not None:
                    s["len"] = str(Ff(s["len"]))
                for k in s["kids"]:
                    conv(k)
            conv(c2["species"])
        seed = rng.getrandbits(32)
        v = seed_oracle(c2, seed)
        m += 1
        if v:
            ctx.violation(v[0], {"seed_case": c2, "seed": seed}, key=v[1])
            if ctx.violations:
                return
    ctx.notes.append("search: %d further scripted cases and %d seeds through the oracle, no unlisted violation" % (n, m))


def gen_overwritten():
    """True when coq/Gen/Sim.v is not what the translator derives from this run's source"""
    import os
    from dv import gen_sim
    try:
        want = gen_sim.generate(core.REPO)
    except Exception:
        return False          # fail-closed stub: handled by proof_stage
    try:
        with open(os.path.join(core.COQ, "Gen", "Sim.v")) as f:
            return f.read() != want
    except OSError:
        return True


def run(tier, seed, replay=None):
    ctx = core.Ctx("C18", tier, seed)
    ctx.assumptions = [
        "model coq/Model/C18Model.v is a hand transcription of the simulators; tied by this correspondence run (scripted draws, exact rational lengths, generator call trace) and, for the functions listed in Props/C18Gen.v, by the translator tie (coq/Gen/Sim.v is generated from the current source by py/dv/gen_sim.py, fail closed, and proved equal to the model)",
        "translator tie: the meaning of the Python primitives (rng methods as typed draws, lists, value nodes of the gene tree, loops, None) is coq/Model/C18Prims.v; loop fuel is the model's",
        "exact arithmetic: draws are dyadic so binary64 is exact on the compared runs; rounding of tip heights with real draws is outside the model (real seeds are checked to 1e-9 relative by the oracle only)",
        "birth_death_tree: tip-count stopping rule, no GSA, extinct tips pruned, taxa assigned (the defaults); max_time / num_extinct_tips / num_total_tips / gsa_ntax / is_retain_extinct_tips / tree= not modelled",
        "discrete_birth_death_tree: ntax / max_time / taxon_namespace / repeat_until_success are parameters of the model (coq/Model/C18DiscModel.v, proved to be the generated code); tree= / assign_taxa=False not modelled; Tree.randomly_assign_taxa is a hand-transcribed primitive (coq/Model/C18DiscPrims.v) tied by the correspondence run only; rng.uniform(0, 1) is the model's unit draw",
        "draws on which binary64 rounding of the normalised event weights decides a comparison that is an exact tie in rational arithmetic are detected and not compared",
        "iteration order of TaxonNamespaceMapping.reverse sets (Taxon hashed by id()) is an input of the contained-coalescent model",
    ]
    if replay:
        r = json.load(open(replay))["replay"]
        if "history" in r:
            print("oracle:", history_oracle(r))
        elif "case" in r and r["case"].get("sim") != "disc":
            obs = _observe(r["case"])
            print("observed:", json.dumps(obs, default=str)[:3000])
            print("oracle:", oracle(r["case"], obs))
        elif "disc_case" in r or ("case" in r and r["case"].get("sim") == "disc"):
            from dv import c18_disc
            c = r.get("disc_case") or r["case"]
            obs = c18_disc._observe(c)
            print("observed:", json.dumps(obs, default=str)[:3000])
            print("oracle:", c18_disc.oracle(c, obs))
        elif "seed_case" in r:
            print("oracle:", seed_oracle(r["seed_case"], r["seed"]))
        elif "probe" in r:
            probes(ctx)
            for _path, what, _n in ctx.violations:
                print("probe:", what)
            for k, d in ctx.known_hits.items():
                print("probe (known finding %s): still reproduces" % k)
        else:
            print(json.dumps(r, indent=1)[:3000])
        return 0
    ok = core.proof_stage(ctx, ["Props/C18.vo"], gen_needed=("__none__",))
    # translator tie: Gen/Sim.v (regenerated from the current probability.py / coalescent.py /
    # birthdeath.py by py/dv/gen_sim.py) = the hand-written model
    ok_gen = False
    for _attempt in range(3):
        n_obl = len(ctx.obligations)
        ok_gen = core.proof_stage(ctx, ["Props/C18Gen.vo"], props_file="Props/C18Gen.v", gen_needed=("Sim",))
        if not gen_overwritten():
            break
        # another check running concurrently regenerated coq/Gen from its own DV_REPO: build again
        ctx.notes.append("coq/Gen/Sim.v was overwritten by a concurrent run during the build; translator tie repeated")
        ctx.obligations = ctx.obligations[:n_obl]
    else:
        ctx.obligation("coq/Gen/Sim.v stable during the build (no concurrent regeneration)", False)
        ok_gen = False
    if not (ok and ok_gen):
        core.broken_proof(ctx, search)

    form = probe_fresh_label_site()
    FRESH_NEW[0] = (form == "new")
    ctx.notes.append("fresh-label site form in the working tree: %s" % form)
    probes(ctx)

    n = 600 if tier == "quick" else 5000
    cases = []
    tries = 0
    while len(cases) < n and tries < 4 * n:
        tries += 1
        case = gen_case(ctx.rng, tier)
        if form is None and case["sim"] in ("bd", "fbd") and has_case_variant(case.get("ns") or []):
            ctx.count("skipped:variant-label-site-form-unknown")
            continue
        obs = observe(case)
        if obs["fragile"]:
            ctx.count("skipped:binary64-tie")
            v = oracle(case, obs)
            if v:
                ctx.violation(v[0], {"case": case, "observed": obs}, key=v[1])
            continue
        cases.append(case)
        count_dist(ctx, case, obs)
        if ctx.rng.random() < 0.15:
            tc = truncated(case, obs, ctx.rng)
            if tc is not None:
                cases.append(tc)
                count_dist(ctx, tc, observe(tc))
    for sim in ("bd", "fbd"):
        for nsl, N in ((["t1"], 3), (["t1", "T2"], 4), (["A", "t2"], 4)):
            case = {"sim": sim, "b": "1", "d": "0", "N": N, "ns": nsl, "cs": False, "seed": 11, "cap": 100}
            if form is None:
                v = oracle(case, observe(case))
                if v:
                    ctx.violation(v[0], {"case": case, "observed": observe(case)}, key=v[1])
                continue
            cases.append(case)
            count_dist(ctx, case, observe(case))
            ctx.count("fresh-label-site-case")
    dc = directed_cases(tier)
    if tier == "quick":
        dc = ctx.rng.sample(dc, 120)
    for case in dc:
        obs = observe(case)
        if obs["fragile"]:
            ctx.count("skipped:binary64-tie")
            continue
        cases.append(case)
        count_dist(ctx, case, obs)
        ctx.count("directed-small-scope")
    core.corr_stage(ctx, cases, observe, to_coq, HEADER, "case_ok", oracle=oracle, show_fn="case_run",
                    nontrivial=nontrivial, search=search, shard=60 if tier == "quick" else 250,
                    sample_fn=lambda c, o: {"case": {k: v for k, v in c.items() if k != "species"}, "draws": len(o["script"]),
                                            "leaves": len(t_leaves(o["out"][1])) if o["out"][0] == "tree" else None})
    # discrete_birth_death_tree: its own model (Model/C18DiscModel.v = the generated code), options as parameters
    from dv import c18_disc
    dcases = c18_disc.cases(ctx, tier)
    core.corr_stage(ctx, dcases, c18_disc.observe, c18_disc.to_coq, c18_disc.HEADER, "dcase_ok", oracle=c18_disc.oracle,
                    show_fn="dcase_run", nontrivial=c18_disc.nontrivial, search=c18_disc.search,
                    shard=60 if tier == "quick" else 250, label="discrete_birth_death_tree correspondence",
                    sample_fn=lambda c, o: {"case": c, "draws": len(o["script"]),
                                            "leaves": len(t_leaves(o["out"][1])) if o["out"][0] == "tree" else None})
    c18_disc.seeds_stage(ctx, 140 if tier == "quick" else 2800)
    for k, what in sorted(c18_disc.PENDING.items()):
        ctx.notes.append("observation outside the property text (modelled, accepted by the oracle) %s: %s" % (k, what))
    seeds_stage(ctx, 200 if tier == "quick" else 10000, 45 if tier == "quick" else 600)
    nh, nbad = history_stage(ctx, 16 if tier == "quick" else 160)
    ctx.obligation("session histories: %d (polluting public calls first, then the simulator under test on a scripted "
                   "and on a seeded generator) agree with a fresh session" % nh, nbad == 0)
    return ctx.finish(level="proof",
                      rule="scripted cases: simulator, parameters (N from 0/1 upwards, birth>death>=0 plus a few inadmissible, namespaces absent/short/long/with T-labels/case variants, population sizes, species trees with 1-7 species and 0-4 genes each) and a steering policy are drawn from VERIF_SEED; the draws are chosen lazily as small dyadic rationals / indices / permutations and the consumed script is replayed through the Coq model; 15% of the cases are additionally replayed truncated (both sides must report exhaustion); plus a directed small-scope enumeration (every sequence of the first 3 (quick: sample of 120) / 4 (thorough: all, 5 events per step) event choices - birth or death of the k-th extant lineage - for N in 2..4, birth_death_tree and fast_birth_death_tree); a case is non-trivial when it returns a tree with >=3 leaves after >=4 draws; distinct by full case content. Session histories (16 quick / 160 thorough): in a fresh interpreter, 1-5 polluting public calls (time_to_coalescence / discrete_time_to_coalescence / expected_tmrca with non-default n_to_coalesce over ranges of lineage counts, other simulators with other parameters, probability functions, the global generator), then the simulator under test on the scripted draws of a fresh session and on random.Random(seed); outcome, generator call arguments and Newick must equal those of a fresh interpreter. Real seeds: random.Random(seed) through the oracle only, each run twice")
