"""Generators of the C20 malformed-input stream (see c20.py)."""
import itertools
import re

from dv import trees as T

SAFE_NON_ASCII = "é中→"      # no case, no digit, not whitespace: the models' ASCII tables are exact on them

NEWICK_ALPHABET = ["(", ")", ",", ":", ";", "a", "b", "1", "'", "[", "]", " "]
PHYLIP_ALPHABET = ["2", "1", "3", " ", "\n", "a", "b", "A", "C", "-", "x", "\t"]
FASTA_ALPHABET = [">", "a", "b", "\n", "A", "C", "G", "x", " ", "-", "\r", "?"]
NEXUS_WORDS = ["#NEXUS", "BEGIN", "END", ";", "TAXA", "CHARACTERS", "DATA", "TREES", "SETS", "DIMENSIONS", "NTAX", "NCHAR",
               "=", "2", "4", "TAXLABELS", "A", "B", "FORMAT", "DATATYPE", "DNA", "MATRIX", "ACGT", "TREE", "t1",
               "(A,B)", "TRANSLATE", "LINK", "TITLE", "x", "CHARSET", "1-2", ",", "FOO", "[c]", "'q r'", "ENDBLOCK",
               "ASSUMPTIONS", "PAUP", "(", ")", ":", "1.5", "ALL", "\\", "3", "."]
NEXUS_KEYWORDS = ["INTERLEAVE", "INTERLEAVE=NO", "MATCHCHAR=.", 'SYMBOLS="01"', "DATATYPE=STANDARD", "DATATYPE=CONTINUOUS",
                  "DATATYPE=PROTEIN", "{", "}", "BEGIN", "END", ";", "TAXA", "CHARACTERS", "DATA", "TREES", "SETS", "DIMENSIONS", "NTAX=2", "NCHAR=4",
                  "TAXLABELS", "FORMAT", "DATATYPE=DNA", "MATRIX", "TREE", "TRANSLATE", "LINK", "TITLE", "CHARSET",
                  "ENDBLOCK", "#NEXUS", "LINK TAXA = x;", "LINK FOO = x;", "TITLE t;", "CHARSET c = 1-2;", "GAP=-",
                  "MISSING=?", "=", ",", "(", ")"]

LABELS = ["A", "B", "C", "D", "E", "Homo", "Pan", "t1", "t2", "x_y", "'q r'", "Gorilla", "sp3"]


# ---------------------------------------------------------------------------------------------
# valid documents
# ---------------------------------------------------------------------------------------------

def newick_of(spec, labels, lengths=True):
    def f(n):
        s = ""
        if n["kids"]:
            s = "(" + ",".join(f(k) for k in n["kids"]) + ")"
        if n["taxon"] is not None:
            s += labels[n["taxon"]]
        if lengths and n["len"] is not None:
            s += ":%r" % (n["len"] * T.UNIT)
        return s
    return f(spec)


def gen_newick(rng, ntrees=None, maxleaves=6):
    n = ntrees or rng.randint(1, 3)
    nl = rng.randint(2, maxleaves)
    labels = rng.sample(LABELS, nl)
    parts = []
    for _ in range(n):
        spec = T.gen_tree(rng, nl, lengths=rng.choice(["dyadic", "none", "mixed"]))
        pre = rng.choice(["", "", "[&R] ", "[&U] ", "[a comment]"])
        parts.append(pre + newick_of(spec, labels) + ";")
    return rng.choice(["\n", " ", ""]).join(parts) + rng.choice(["", "\n"])


def dna_seq(rng, n, gaps=True):
    alpha = "ACGT" + ("-?" if gaps else "") + ("acgtRYN" if rng.random() < 0.3 else "")
    return "".join(rng.choice(alpha) for _ in range(n))


# valid documents whose block ORDER matters: TREES before DATA / CHARACTERS / a further TAXA block, several TREES blocks
ORDER_STRUCTURES = ["trees+data", "trees+data+trees", "trees+taxa+trees", "taxa+trees+taxa+trees", "trees+trees",
                    "taxa+trees+characters", "taxa+trees+data", "trees+taxa"]
# the entry points for which such a document is valid as a whole (DataSet.get wants LINK statements when a
# document has several TAXA blocks; CharacterMatrix.get wants character data)
ORDER_VALID = {
    "trees+data": ("nexus", "nexus_trees", "nexus_chars", "nexus_yield"),
    "trees+data+trees": ("nexus", "nexus_trees", "nexus_chars", "nexus_yield"),
    "trees+taxa+trees": ("nexus_trees", "nexus_yield"),
    "taxa+trees+taxa+trees": ("nexus_trees", "nexus_yield"),
    "trees+trees": ("nexus", "nexus_trees", "nexus_yield"),
    "taxa+trees+characters": ("nexus", "nexus_trees", "nexus_chars", "nexus_yield"),
    "taxa+trees+data": ("nexus", "nexus_trees", "nexus_chars", "nexus_yield"),
    "trees+taxa": ("nexus", "nexus_trees", "nexus_yield"),
}

CHAR_FLAVOURS = ["dna", "dna-fmt", "interleave", "multistate", "standard", "symbols", "protein", "rna", "continuous",
                 "matchchar", "nucleotide", "noformat", "interleave-continuous", "gapmissing",
                 "blocks", "interleave-blocks"]


def in_runs(rng, cells, nruns=None):
    """the cells of a row (single symbols or multistate groups) written as whitespace-separated runs"""
    if len(cells) < 2:
        return "".join(cells)
    k = nruns or rng.randint(2, min(3, len(cells)))
    cp = sorted(rng.sample(range(1, len(cells)), k - 1))
    return " ".join("".join(cells[a:b]) for a, b in zip([0] + cp, cp + [len(cells)]))


def dna_cells(rng, n, groups=0.15):
    return [rng.choice(["{AG}", "(CT)", "{A C}", "{A,G}"]) if rng.random() < groups else rng.choice("ACGT-?") for _ in range(n)]


def gen_nexus(rng, structure=None, flavour=None):
    """a valid NEXUS document; returns (text, structure name)"""
    structure = structure or rng.choice(STRUCTURES)
    nt = rng.randint(2, 4) if structure not in ORDER_STRUCTURES else rng.randint(3, 5)
    nc = rng.randint(2, 6) if flavour not in ("blocks", "interleave-blocks") else rng.randint(6, 12)
    labels = rng.sample([l for l in LABELS if l != "'q r'"], nt)
    nl = rng.choice(["\n", "\n", " "]) if structure not in ("interleaved+trees", "char-flavours", "flavour") else "\n"
    ind = rng.choice(["", "  "])
    end = rng.choice(["END;", "END;", "ENDBLOCK;", "end;"])
    out = ["#NEXUS"]
    if rng.random() < 0.3:
        out.append("[a file comment]")

    def taxa(title=None, labels=labels):
        b = ["BEGIN TAXA;"]
        if title:
            b.append(ind + "TITLE %s;" % title)
        b.append(ind + "DIMENSIONS NTAX=%d;" % len(labels))
        b.append(ind + "TAXLABELS " + " ".join(labels) + ";")
        b.append(end)
        return b

    def chars(kind="CHARACTERS", title=None, link=None, with_ntax=False, flavour=flavour):
        flavour = flavour or rng.choice(["dna", "dna", "dna-fmt", "interleave", "multistate", "standard", "symbols",
                                         "protein", "rna", "continuous", "matchchar", "nucleotide", "noformat",
                                         "interleave-continuous", "gapmissing"])
        b = ["BEGIN %s;" % kind]
        if title:
            b.append(ind + "TITLE %s;" % title)
        if link:
            b.append(ind + "LINK TAXA = %s;" % link)
        b.append(ind + "DIMENSIONS %sNCHAR=%d;" % ("NTAX=%d " % nt if with_ntax else "", nc))
        seq = lambda alpha: "".join(rng.choice(alpha) for _ in range(nc))
        rows = None
        if flavour == "dna":
            fmt, rows = "DATATYPE=DNA", [dna_seq(rng, nc) for _ in labels]
        elif flavour == "dna-fmt":
            fmt, rows = "DATATYPE=DNA" + rng.choice([" GAP=- MISSING=?", " MISSING=? GAP=-"]), [dna_seq(rng, nc) for _ in labels]
        elif flavour == "gapmissing":
            fmt, rows = "DATATYPE=STANDARD GAP=x MISSING=n", [seq("01xn") for _ in labels]
        elif flavour == "multistate":
            fmt = "DATATYPE=DNA"
            rows = []
            for _ in labels:
                cells = [rng.choice(["A", "C", "G", "T", "{AG}", "(CT)", "{A C}", "{A,G}", "(C, T)", "-"]) for _ in range(nc)]
                rows.append("".join(cells))
        elif flavour == "standard":
            fmt, rows = "DATATYPE=STANDARD", [seq("0123?-") for _ in labels]
        elif flavour == "symbols":
            fmt, rows = rng.choice(['DATATYPE=STANDARD SYMBOLS="0 1 2"', 'SYMBOLS="01 2"', 'SYMBOLS = " a b c "']), None
            rows = [seq("012" if "0" in fmt else "abC") for _ in labels]
        elif flavour == "protein":
            fmt, rows = "DATATYPE=PROTEIN", [seq("ACDEFGHIKLMNPQRSTVWY-?X") for _ in labels]
        elif flavour == "rna":
            fmt, rows = "DATATYPE=RNA", [seq("ACGU-?N") for _ in labels]
        elif flavour == "nucleotide":
            fmt, rows = "DATATYPE=NUCLEOTIDE", [seq("ACGTU-?") for _ in labels]
        elif flavour == "matchchar":
            fmt = "DATATYPE=DNA" + rng.choice(["", " MATCHCHAR=."])
            first = dna_seq(rng, nc, gaps=False)
            rows = [first] + ["".join(rng.choice([c, "."]) for c in first) for _ in labels[1:]]
        elif flavour == "noformat":
            fmt, rows = None, [seq("0123") for _ in labels]
        elif flavour in ("continuous", "interleave-continuous"):
            fmt = "DATATYPE=CONTINUOUS" + (" INTERLEAVE" if flavour.startswith("inter") else "")
            rows = [" ".join(rng.choice(["0.5", "1", "-2.25", "1e-3", "3.0"]) for _ in range(nc)) for _ in labels]
        elif flavour == "interleave":
            fmt = "DATATYPE=DNA " + rng.choice(["INTERLEAVE", "INTERLEAVE=YES", "INTERLEAVE=yes GAP=-"])
            rows = [dna_seq(rng, nc) for _ in labels]
        elif flavour in ("blocks", "interleave-blocks"):
            # rows written in several whitespace-separated runs (and multistate groups): the row is complete
            # when the TOTAL of its runs reaches NCHAR
            fmt = "DATATYPE=DNA" + (" INTERLEAVE" if flavour.startswith("inter") else "")
            rows = [dna_cells(rng, nc) for _ in labels]
        if fmt:
            b.append(ind + "FORMAT %s;" % fmt)
        b.append(ind + "MATRIX")
        if flavour == "interleave" and nc >= 2:
            h = nc // 2
            for l, r in zip(labels, rows):
                b.append(ind + "%s %s" % (l, r[:h]))
            b.append("")
            for l, r in zip(labels, rows):
                b.append(ind + "%s %s" % (l, r[h:]))
        elif flavour == "interleave-blocks":
            h = nc // 2
            for l, r in zip(labels, rows):
                b.append(ind + "%s %s" % (l, in_runs(rng, r[:h])))
            b.append("")
            for l, r in zip(labels, rows):
                b.append(ind + "%s %s" % (l, in_runs(rng, r[h:])))
        elif flavour == "blocks":
            for l, r in zip(labels, rows):
                b.append(ind + "%s %s" % (l, in_runs(rng, r)))
        elif flavour == "interleave-continuous" and nc >= 2:
            h = nc // 2
            for l, r in zip(labels, rows):
                b.append(ind + "%s %s" % (l, " ".join(r.split()[:h])))
            for l, r in zip(labels, rows):
                b.append(ind + "%s %s" % (l, " ".join(r.split()[h:])))
        else:
            for l, r in zip(labels, rows):
                b.append(ind + "%s %s" % (l, r))
        b.append(ind + ";")
        b.append(end)
        return b

    def trees_block(translate=False, title=None, link=None, ntrees=None, labels=labels):
        nt = len(labels)
        b = ["BEGIN TREES;"]
        if title:
            b.append(ind + "TITLE %s;" % title)
        if link:
            b.append(ind + "LINK TAXA = %s;" % link)
        names = labels
        if translate:
            b.append(ind + "TRANSLATE " + ", ".join("%d %s" % (i + 1, l) for i, l in enumerate(labels)) + ";")
            names = [str(i + 1) for i in range(nt)]
        for k in range(ntrees or rng.randint(1, 2)):
            spec = T.gen_tree(rng, nt, lengths=rng.choice(["dyadic", "none"]))
            b.append(ind + "TREE t%d = %s%s;" % (k + 1, rng.choice(["", "[&R] ", "[&U] "]), newick_of(spec, names)))
        b.append(end)
        return b

    def sets(link=None, title=None):
        b = ["BEGIN SETS;"]
        if title:
            b.append(ind + "TITLE %s;" % title)
        if link:
            b.append(ind + "LINK CHARACTERS = %s;" % link)
        b.append(ind + "CHARSET first = 1-%d;" % max(1, nc // 2))
        if rng.random() < 0.5:
            b.append(ind + "CHARSET rest = %d-. ;" % (max(1, nc // 2) + 1 if nc > 1 else 1))
        b.append(end)
        return b

    def unknown():
        return ["BEGIN PAUP;", ind + "set autoclose=yes;", ind + "log file=x.log;", end]

    if structure == "flavour":
        out += taxa() + chars(flavour=flavour) + (trees_block(translate=True) if rng.random() < 0.5 else [])
    elif structure == "taxa":
        out += taxa()
    elif structure == "taxa+characters":
        out += taxa() + chars()
    elif structure == "data":
        out += chars("DATA", with_ntax=True)
    elif structure == "taxa+trees":
        out += taxa() + trees_block()
    elif structure == "taxa+trees-translate":
        out += taxa() + trees_block(translate=True)
    elif structure == "trees-only-translate":
        out += trees_block(translate=True)
    elif structure == "taxa+characters+sets":
        out += taxa() + chars() + sets()
    elif structure == "titles-links":
        out += taxa(title="tx") + chars(title="ch", link="tx") + trees_block(title="tr", link="tx") + sets(link="ch", title="st")
    elif structure == "unknown-block":
        out += unknown() + taxa() + unknown()
    elif structure == "all":
        out += taxa() + chars() + trees_block(translate=rng.random() < 0.5) + sets() + unknown()
    elif structure == "two-taxa-blocks":
        out += taxa(title="one") + taxa(title="two") + trees_block(link="one")
    elif structure == "interleaved+trees":
        # an interleaved MATRIX leaves the tokenizer capturing line ends: what follows is read in that mode
        out += taxa() + chars(flavour="interleave") + trees_block(translate=rng.random() < 0.5) + sets()
    elif structure == "char-flavours":
        out += taxa() + chars() + chars(kind="CHARACTERS")
    elif structure in ORDER_STRUCTURES:
        # block orders in which a later block introduces taxa that an earlier TREES block (without TRANSLATE)
        # of the same namespace did not use
        sub = labels[:rng.randint(2, nt - 1)]
        fl = rng.choice(["dna", "dna", "dna-fmt", "blocks"])      # (DNA: the document is also valid for DnaCharacterMatrix.get)
        if structure == "trees+data":
            out += trees_block(labels=sub) + chars("DATA", with_ntax=True, flavour=fl)
        elif structure == "trees+data+trees":
            out += trees_block(labels=sub) + chars("DATA", with_ntax=True, flavour=fl) + trees_block()
        elif structure == "trees+taxa+trees":
            out += trees_block(labels=sub) + taxa() + trees_block()
        elif structure == "taxa+trees+taxa+trees":
            out += taxa(labels=sub) + trees_block(labels=sub) + taxa() + trees_block()
        elif structure == "trees+trees":
            out += trees_block(labels=sub) + trees_block() + (trees_block(labels=sub) if rng.random() < 0.5 else [])
        elif structure == "taxa+trees+characters":
            out += taxa() + trees_block(labels=sub) + chars(flavour=fl)
        elif structure == "taxa+trees+data":
            out += taxa() + trees_block(labels=sub) + chars("DATA", with_ntax=True, flavour=fl) + trees_block()
        elif structure == "trees+taxa":
            out += trees_block(labels=sub) + taxa()
    else:
        raise ValueError(structure)
    return nl.join(out) + "\n", structure


STRUCTURES = ["taxa", "taxa+characters", "data", "taxa+trees", "taxa+trees-translate", "trees-only-translate",
              "taxa+characters+sets", "titles-links", "unknown-block", "all", "two-taxa-blocks",
              "interleaved+trees", "char-flavours"]

DIMS_WHERE = ["first-run", "later-run", "after-group", "extra-run", "extra-group"]


def gen_nexus_dims(rng, inter=None, delta=None, where=None):
    """a NEXUS document one of whose rows has a TOTAL number of characters different from the declared NCHAR,
    the row being written as several whitespace-separated runs / multistate groups: the surplus (or the gap)
    sits in the first run, in a later run, behind a multistate group, in a run or a group of its own;
    sequential and interleaved.  -> (text, kind)"""
    nt = rng.randint(2, 3)
    nc = rng.randint(6, 12)
    labels = rng.sample(["A", "B", "t1", "Homo", "sp3", "x_y", "Pan"], nt)
    inter = (rng.random() < 0.4) if inter is None else inter
    delta = rng.choice([1, 1, 1, 2, -1, -2, 3]) if delta is None else delta
    where = where or rng.choice(DIMS_WHERE)
    victim = rng.randrange(nt)
    sym = lambda: rng.choice("ACGT")
    grp = lambda: rng.choice(["{AG}", "(CT)", "{A C}"])

    def runs_of(cells, bad):
        """cells of one row (or one page of a row) -> its text; `bad`: apply the change of total here"""
        n = len(cells)
        cut = rng.randint(1, n - 1) if n >= 2 else n
        r1, r2 = list(cells[:cut]), list(cells[cut:])
        if not bad:
            return " ".join("".join(r) for r in (r1, r2) if r)
        extra = [sym() for _ in range(max(delta, 0))]
        drop = max(-delta, 0)
        tail = []
        if where == "first-run":
            r1 = r1 + extra if not drop else r1[:max(len(r1) - drop, 0)]
        elif where == "later-run":
            r2 = r2 + extra if not drop else r2[:max(len(r2) - drop, 0)]
        elif where == "after-group":
            r1[rng.randrange(len(r1))] = grp()
            r2 = r2 + extra if not drop else r2[:max(len(r2) - drop, 0)]
        elif where == "extra-run":
            if drop:
                r2 = r2[:max(len(r2) - drop, 0)]
            else:
                tail = [extra]
        elif where == "extra-group":
            if drop:
                r1[0] = grp()
                r2 = r2[:max(len(r2) - drop, 0)]
            else:
                tail = [[grp() for _ in extra]]
        return " ".join("".join(r) for r in [r1, r2] + tail if r)

    rows = [[sym() for _ in range(nc)] for _ in labels]
    b = ["#NEXUS", "BEGIN TAXA;", "DIMENSIONS NTAX=%d;" % nt, "TAXLABELS " + " ".join(labels) + ";", "END;",
         "BEGIN CHARACTERS;", "DIMENSIONS NCHAR=%d;" % nc, "FORMAT DATATYPE=DNA%s;" % (" INTERLEAVE" if inter else ""), "MATRIX"]
    if inter:
        h = nc // 2
        page = rng.choice([0, 1, 1])
        for pg, (lo, hi) in enumerate(((0, h), (h, nc))):
            for i, (l, r) in enumerate(zip(labels, rows)):
                b.append("%s %s" % (l, runs_of(r[lo:hi], i == victim and pg == page)))
            if pg == 0:
                b.append("")
    else:
        for i, (l, r) in enumerate(zip(labels, rows)):
            b.append("%s %s" % (l, runs_of(r, i == victim)))
    b += [";", "END;"]
    kind = "dims:%s:%s:%s" % ("interleaved" if inter else "sequential", "long" if delta > 0 else "short", where)
    return "\n".join(b) + "\n", kind


NEXUS_CHARSET_PROBE = ("#NEXUS\nBEGIN TAXA;\nDIMENSIONS NTAX=2;\nTAXLABELS A B;\nEND;\nBEGIN CHARACTERS;\nDIMENSIONS NCHAR=4;\n"
                       "FORMAT DATATYPE=DNA;\nMATRIX\nA ACGT\nB ACGT\n;\nEND;\nBEGIN SETS;\nCHARSET x = foo;\nEND;\n")


def gen_phylip(rng, mode=None):
    """-> (text, opts)"""
    mode = mode or rng.choice(["relaxed", "relaxed", "strict", "interleaved", "multispace"])
    nt = rng.randint(1, 4)
    nc = rng.randint(1, 8)
    labels = rng.sample(["a", "b", "Cc", "d1", "Homo_s", "x"], nt)
    seqs = [dna_seq(rng, nc) for _ in labels]
    lines = ["%s%d %d" % (rng.choice(["", " "]), nt, nc)]
    opts = {}
    if mode == "strict":
        opts["strict"] = True
        for l, s in zip(labels, seqs):
            lines.append(l.ljust(10) + s)
    elif mode == "interleaved":
        opts["interleaved"] = True
        h = max(1, nc // 2)
        for l, s in zip(labels, seqs):
            lines.append("%s %s" % (l, s[:h]))
        if nc > h:
            lines.append("")
            for s in seqs:
                lines.append(s[h:])
    elif mode == "multispace":
        opts["multispace_delimiter"] = True
        for l, s in zip(labels, seqs):
            lines.append("%s  %s" % (l, s))
    else:
        for l, s in zip(labels, seqs):
            if nc > 3 and rng.random() < 0.3:
                lines.append("%s %s" % (l, s[:2]))
                lines.append(s[2:])
            else:
                lines.append("%s%s%s" % (l, rng.choice([" ", "\t", "   "]), s))
    return rng.choice(["\n", "\n", "\r\n"]).join(lines) + "\n", opts


def gen_fasta(rng):
    nt = rng.randint(1, 4)
    labels = rng.sample(["a", "b", "Cc", "d 1", "Homo", "x"], nt)
    out = []
    for l in labels:
        out.append(">%s%s" % (rng.choice(["", " "]), l))
        s = dna_seq(rng, rng.randint(1, 8))
        if len(s) > 3 and rng.random() < 0.4:
            out.append(s[:3])
            out.append(s[3:])
        else:
            out.append(s)
        if rng.random() < 0.2:
            out.append("")
    return "\n".join(out) + rng.choice(["\n", ""])


# ---------------------------------------------------------------------------------------------
# edits
# ---------------------------------------------------------------------------------------------

def edit(rng, text, alphabet, keywords):
    k = rng.random()
    if not text:
        return rng.choice(alphabet), "insert"
    i = rng.randrange(len(text) + 1)
    if k < 0.25 and text:
        i = min(i, len(text) - 1)
        return text[:i] + text[i + 1:], "delete"
    if k < 0.5:
        return text[:i] + rng.choice(alphabet) + text[i:], "insert"
    if k < 0.7 and text:
        i = min(i, len(text) - 1)
        return text[:i] + rng.choice(alphabet) + text[i + 1:], "replace"
    if k < 0.85:
        j = min(len(text), i + rng.randint(1, 12))
        return text[:i] + text[j:], "drop-span"
    # insert a keyword at a token boundary
    bounds = [m.start() for m in re.finditer(r"\s", text)] or [0]
    p = rng.choice(bounds)
    return text[:p] + " " + rng.choice(keywords) + " " + text[p:], "insert-keyword"


CHAR_ALPHABET = {
    "newick": NEWICK_ALPHABET + ["0", ".", "e", "-", "_", "\n"],
    "nexus": list("();,:='[]= \n#-.\\\"") + ["A", "x", "1", "E", "N", "D"],
    "phylip": PHYLIP_ALPHABET + ["\r", "4"],
    "fasta": FASTA_ALPHABET,
}


def edited(rng, reader, text, opts, n):
    t = text
    kinds = []
    for _ in range(n):
        t, kd = edit(rng, t, CHAR_ALPHABET[reader], NEXUS_KEYWORDS if reader == "nexus" else ["\n", " ", ";", "2 3", ">x"])
        kinds.append(kd)
    return {"reader": reader, "opts": opts, "text": t, "kind": "edit%d" % n, "slack": True, "edits": kinds}


def family(reader, text, opts, kind, cuts=None):
    """all truncation points (or the given ones) of a document as one case"""
    cuts = list(range(len(text) + 1)) if cuts is None else cuts
    return {"reader": reader, "opts": opts, "text": text, "cuts": cuts, "kind": kind}


def chunked_families(reader, text, opts, kind, chunk=60):
    cuts = list(range(len(text) + 1))
    return [family(reader, text, opts, kind, cuts[i:i + chunk]) for i in range(0, len(cuts), chunk)]


# ---------------------------------------------------------------------------------------------
# what the NEXUS skeleton models (everything else goes through the oracle only)
# ---------------------------------------------------------------------------------------------



def nexus_modelled(text):
    return True


# ---------------------------------------------------------------------------------------------
# fixed documents of the recorded defect sites and other sharp inputs
# ---------------------------------------------------------------------------------------------

TAXA2 = "#NEXUS\nBEGIN TAXA;\nDIMENSIONS NTAX=2;\nTAXLABELS A B;\nEND;\n"
CHARS2 = "BEGIN CHARACTERS;\nDIMENSIONS NCHAR=4;\nFORMAT DATATYPE=DNA;\nMATRIX\nA ACGT\nB ACGT\n;\nEND;\n"

_CH12 = "BEGIN CHARACTERS;\nDIMENSIONS NCHAR=12;\nFORMAT DATATYPE=%s;\nMATRIX\n%s;\nEND;\n"

FIXED = [
    ("nexus", "", "empty"), ("nexus", "   \n", "empty"), ("nexus", "#NEXUS", "minimal"), ("nexus", "#NEXUS\n", "minimal"),
    ("nexus", "#NEXUS BEGIN", "minimal"), ("nexus", "BEGIN TAXA;", "not-nexus"),
    ("nexus", "#NEXUS\nBEGIN TREES;\nLINK FOO = x;\nEND;\n", "link"),
    ("nexus", "#NEXUS\nBEGIN CHARACTERS;\nLINK FOO = x;\nEND;\n", "link"),
    ("nexus", "#NEXUS\nBEGIN TREES;\nLINK TAXA = x", "link"),
    ("nexus", "#NEXUS BEGIN TAXA; TAXLABELS A B;END;", "taxlabels-without-dimensions"),
    ("nexus", "#NEXUS BEGIN TAXA; DIMENSIONS NTAX=3; TAXLABELS", "taxlabels-eof"),
    ("nexus", TAXA2 + CHARS2 + "BEGIN SETS;\nCHARSET x = foo;\nEND;\n", "charset"),
    ("nexus", TAXA2 + CHARS2 + "BEGIN SETS;\nCHARSET x = 1-4\\0;\nEND;\n", "charset"),
    ("nexus", TAXA2 + CHARS2 + "BEGIN SETS;\nLINK CHARACTERS = c;\nCHARSET x = 1;\nEND;\n", "charset"),
    ("nexus", TAXA2 + "BEGIN CHARACTERS;\nDIMENSIONS NCHAR=4;\nFORMAT DATATYPE=DNA;\nMATRIX\nA ACGT\nB ACG\n;\nEND;\n", "short-row"),
    ("nexus", TAXA2.replace("NTAX=2", "NTAX=3").replace("A B;", "A B C;") + CHARS2, "missing-row"),
    ("nexus", TAXA2 + "BEGIN TREES;\nTREE t = ", "tree-eof"),
    ("nexus", TAXA2 + "BEGIN TREES;\nTRANSLATE 1 A, 2", "translate-eof"),
    ("nexus", TAXA2 + "BEGIN CHARACTERS;\nDIMENSIONS NCHAR=2;\nFORMAT SYMBOLS=\"AB BA\";\nMATRIX\nA AB\nB BA\n;\nEND;\n", "symbols-duplicate"),
    ("nexus", TAXA2 + "BEGIN CHARACTERS;\nDIMENSIONS NCHAR=2;\nFORMAT SYMBOLS=\"\";\nMATRIX\nA 01\nB 10\n;\nEND;\n", "symbols-empty"),
    ("nexus", TAXA2 + "BEGIN CHARACTERS;\nDIMENSIONS NCHAR=2;\nFORMAT DATATYPE=STANDARD MISSING=0;\nMATRIX\nA 01\nB 10\n;\nEND;\n", "missing-is-symbol"),
    ("nexus", TAXA2 + "BEGIN CHARACTERS;\nDIMENSIONS NCHAR=2;\nFORMAT DATATYPE=STANDARD GAP=1;\nMATRIX\nA 01\nB 10\n;\nEND;\n", "gap-is-symbol"),
    ("nexus", TAXA2 + "BEGIN CHARACTERS;\nDIMENSIONS NCHAR=3;\nFORMAT DATATYPE=CONTINUOUS;\nMATRIX\nA 1 2 3\nB 1 2\n;\nEND;\n", "continuous-short-row"),
    ("nexus", TAXA2 + "BEGIN CHARACTERS;\nDIMENSIONS NCHAR=4;\nFORMAT DATATYPE=DNA INTERLEAVE;\nMATRIX\nA AC\nB AC\n\nA GT\nB G\n;\nEND;\n", "interleaved-short-row"),
    ("nexus", TAXA2 + "BEGIN CHARACTERS;\nDIMENSIONS NCHAR=4;\nFORMAT DATATYPE=DNA INTERLEAVE;\nMATRIX\nA AC\nB AC\n\nA GT\nB GT\n;\nEND;\nBEGIN TREES;\nTRANSLATE\n1 A,\n2 B;\nTREE t = (1,\n2);\nEND;\n", "interleaved-then-multiline-trees"),
    ("nexus", TAXA2 + "BEGIN CHARACTERS;\nDIMENSIONS NCHAR=2;\nFORMAT DATATYPE=DNA;\nMATRIX\nA {AG}{}\nB (A\n;\nEND;\n", "multistate-open"),
    ("nexus", TAXA2 + _CH12 % ("DNA", "A ACGTAC GTACGT\nB ACGTAC GTACGT\n"), "rows-in-runs"),
    ("nexus", TAXA2 + _CH12 % ("DNA", "A ACGTAC GTACGAT\nB ACGTAC GTACGT\n"), "long-row-later-run"),
    ("nexus", TAXA2 + _CH12 % ("DNA", "A ACGTAC GTACGT\nB ACGTAC GTACGT A\n"), "long-row-extra-run"),
    ("nexus", TAXA2 + _CH12 % ("DNA", "A ACGTA{AG} GTACGTA\nB ACGTAC GTACGT\n"), "long-row-after-group"),
    ("nexus", TAXA2 + _CH12 % ("DNA", "A ACGTAC GTACGT{AG}\nB ACGTAC GTACGT\n"), "long-row-extra-group"),
    ("nexus", TAXA2 + _CH12 % ("DNA", "A ACGTAC GTACG\nB ACGTAC GTACGT\n"), "short-row-later-run"),
    ("nexus", TAXA2 + _CH12 % ("DNA INTERLEAVE", "A ACG TAC\nB ACG TAC\n\nA GTA CGAT\nB GTA CGT\n"), "interleaved-long-row-later-run"),
    ("nexus", TAXA2 + _CH12 % ("DNA INTERLEAVE", "A ACG TAC\nB ACG TAC\n\nA GTA CGT\nB G{AG}A CGTT\n"), "interleaved-long-row-after-group"),
    ("nexus", TAXA2 + _CH12 % ("DNA INTERLEAVE", "A ACG TACA\nB ACG TAC\n\nA GTA CGT\nB GTA CGT\n"), "interleaved-long-row-first-page"),
    ("nexus", TAXA2 + "BEGIN CHARACTERS;\nDIMENSIONS NCHAR=2;\nFORMAT DATATYPE=DNA MATCHCHAR=;\nMATRIX\nA AC\nB ..\n;\nEND;\n", "matchchar-eof"),
    ("newick", "", "empty"), ("newick1", "", "empty"), ("newick1", ";", "no-trees"), ("newick", "(a,b));", "unbalanced"),
    ("phylip", "", "empty"), ("phylip", "2 4\na ACGT\nb ACG\n", "short-row"), ("phylip", "2 4\na ACGTA\nb ACGT\n", "long-row"),
    ("phylip", "2 4\na ACGT\na ACGT\nb ACGT\n", "repeated-label"),
    ("fasta", "", "empty"), ("fasta", "ACGT\n", "no-header"), ("fasta", ">a\n>b\nAC\n", "empty-seq"),
    ("nexus_trees", "", "empty"), ("nexus_trees", "#NEXUS\n", "minimal"), ("nexus_chars", "#NEXUS\n", "minimal"),
    ("nexus_yield", "", "empty"), ("nexus_yield", "#NEXUS\n", "minimal"), ("nexus_yield", "(a,b);", "not-nexus"),
    ("newick_yield", "", "empty"), ("newick_yield", "(a,b", "open"), ("nexusnewick_yield", "(a,b);(c,d);", "newick"),
    ("nexusnewick_yield", "", "empty"),
]


# numeric tokens written with NON-ASCII digits: str.isdigit() accepts all four, int() only the decimal one (Arabic-Indic
# three); a reader that tests isdigit() before int() leaks ValueError on the others (repaired: isdecimal()).  Outside
# the models' ASCII tables, so these go through the oracle only (outcome class: Ok / DataParseError, no ValueError).
NON_ASCII_DIGITS = ["\u00b2", "\u00b3", "\u2460", "\u0663"]


def non_ascii_digit_cases():
    out = []
    for d in NON_ASCII_DIGITS:
        docs = [
            ("taxa-ntax", "#NEXUS\nBEGIN TAXA;\nDIMENSIONS NTAX=%s;\nTAXLABELS A B C;\nEND;\n" % d),
            ("data-ntax", "#NEXUS\nBEGIN DATA;\nDIMENSIONS NTAX=%s NCHAR=3;\nFORMAT DATATYPE=DNA;\nMATRIX\nA ACG\nB ACG\nC ACG\n;\nEND;\n" % d),
            ("nchar", "#NEXUS\nBEGIN TAXA;\nDIMENSIONS NTAX=2;\nTAXLABELS A B;\nEND;\nBEGIN CHARACTERS;\nDIMENSIONS NCHAR=%s;\n"
                      "FORMAT DATATYPE=DNA;\nMATRIX\nA ACG\nB ACG\n;\nEND;\n" % d),
            ("nchar-mixed", TAXA2 + CHARS2.replace("NCHAR=4", "NCHAR=1%s" % d)),
        ]
        for what, pos in (("charset-position", "%s"), ("charset-range-end", "1-%s"), ("charset-range-start", "%s-4"),
                          ("charset-step", "1-4\\%s"), ("charset-second", "1 %s")):
            docs.append((what, TAXA2 + CHARS2 + "BEGIN SETS;\nCHARSET x = %s;\nEND;\n" % (pos % d)))
        for what, text in docs:
            out.append(("nexus", text, "non-ascii-digit:%s:U+%04X" % (what, ord(d))))
    return out


FIXED.extend(non_ascii_digit_cases())


# witness document of every recorded (unrepaired) defect site of the NEXUS skeleton, with the test that tells
# that the site is still in its unrepaired form
_CH = "BEGIN CHARACTERS;\nDIMENSIONS NCHAR=%d;\nFORMAT %s;\nMATRIX\n%s;\nEND;\n"
NEXUS_SITE_WITNESS = {
    "cblock": (TAXA2 + _CH % (3, "DATATYPE=CONTINUOUS", "A 1 2 3\nB 1 2\n"), lambda ob: ob["cls"] == "OtherErr"),
    "alpha": (TAXA2 + _CH % (2, 'SYMBOLS="AB BA"', "A AB\nB BA\n"), lambda ob: ob["cls"] == "ValueErr"),
    "ildims": (TAXA2 + _CH % (4, "DATATYPE=DNA INTERLEAVE", "A AC\nB AC\n\nA GT\nB G\n"), lambda ob: ob["cls"] == "Ok"),
}


def deep_probes(tier):
    out = []
    for d in ((2000,) if tier == "quick" else (1200, 2000, 20000)):
        # CPython's recursion limit is a runtime limit outside the models: oracle only
        out.append({"reader": "newick", "text": "(" * d + "a" + ")" * d + ";", "kind": "deep-nesting-%d" % d, "model": False})
        out.append({"reader": "newick", "text": "[x] " * d + "(a,b);", "kind": "many-comments-%d" % d, "model": False})
        out.append({"reader": "newick_yield", "text": "(" * d + "a" + ")" * d + ";", "kind": "deep-nesting-%d" % d, "model": False})
        out.append({"reader": "nexus", "text": TAXA2 + "BEGIN TREES;\nTREE t = " + "(" * d + "A" + ")" * d + ";\nEND;\n",
                    "kind": "deep-nesting-%d" % d, "model": False})
    return out


# ---------------------------------------------------------------------------------------------
# the stream
# ---------------------------------------------------------------------------------------------

def exhaustive(alphabet, maxlen, joiner=""):
    for n in range(0, maxlen + 1):
        for tup in itertools.product(alphabet, repeat=n):
            yield joiner.join(tup)


def random_string(rng, alphabet, maxlen, joiner=""):
    return joiner.join(rng.choice(alphabet) for _ in range(rng.randint(1, maxlen)))


def cases(rng, tier):
    quick = tier == "quick"
    out = []
    for reader, text, kind in FIXED:
        out.append({"reader": reader, "text": text, "kind": "fixed:" + kind})
    for name, (text, _cls) in sorted(NEXUS_SITE_WITNESS.items()):
        out.append({"reader": "nexus", "text": text, "kind": "site-witness:" + name})
    out.extend(deep_probes(tier))
    # --- strings over the token alphabets: exhaustive short ones (all go through the oracle; in the
    # thorough tier only a sample of them is also evaluated by the Coq model)
    def exh(reader, alphabet, maxlen, joiner=""):
        for t in exhaustive(alphabet, maxlen, joiner):
            c = {"reader": reader, "text": t, "kind": "alphabet-exhaustive"}
            if not quick and len(t) > (3 if not joiner else 20) and rng.random() > 0.02:
                c["model"] = False
            out.append(c)
    exh("newick", NEWICK_ALPHABET, 3 if quick else 5)
    exh("phylip", PHYLIP_ALPHABET, 2 if quick else 4)
    exh("fasta", FASTA_ALPHABET, 2 if quick else 4)
    exh("nexus", ["#NEXUS", "BEGIN", "END", ";", "TAXA", "TREES", "LINK", "TREE", "=", "(A,B)", "x", "CHARACTERS"],
        2 if quick else 4, " ")
    nrand = 150 if quick else 1500
    for _ in range(nrand):
        out.append({"reader": "newick", "text": random_string(rng, NEWICK_ALPHABET, 40), "kind": "alphabet-random"})
        out.append({"reader": "phylip", "text": "2 3\n" * (rng.random() < 0.7) + random_string(rng, PHYLIP_ALPHABET, 40), "kind": "alphabet-random"})
        out.append({"reader": "fasta", "text": random_string(rng, FASTA_ALPHABET, 40), "kind": "alphabet-random"})
        out.append({"reader": "nexus", "text": "#NEXUS " * (rng.random() < 0.85) + random_string(rng, NEXUS_WORDS, 14, " "),
                    "kind": "alphabet-random", "slack": True})
        if rng.random() < 0.3:
            out.append({"reader": "newick_yield", "text": random_string(rng, NEWICK_ALPHABET, 40), "kind": "alphabet-random"})
            out.append({"reader": rng.choice(["nexus_yield", "nexusnewick_yield"]),
                        "text": "#NEXUS " * (rng.random() < 0.7) + random_string(rng, NEXUS_WORDS, 14, " "), "kind": "alphabet-random"})
    # --- valid documents, their truncations, their edits
    nd = 1 if quick else 6
    for s in STRUCTURES:
        for _ in range(nd):
            text, st = gen_nexus(rng, s)
            out.append({"reader": "nexus", "text": text, "kind": "valid:" + st})
            if quick and s in ("titles-links", "two-taxa-blocks"):
                cuts = [k for k in range(len(text) + 1) if k % 3 == 0 or text[max(0, k - 1):k] in (";", "\n", " ", "=")]
                out.extend(family("nexus", text, {}, "truncation-sampled:" + st, cuts[i:i + 60]) for i in range(0, len(cuts), 60))
                continue
            out.extend(chunked_families("nexus", text, {}, "truncation:" + st))
            for r2 in ("nexus_trees", "nexus_chars", "nexus_yield", "nexusnewick_yield"):
                if quick and rng.random() < 0.7:
                    continue
                out.extend(chunked_families(r2, text, {}, "truncation:" + st))
            for _e in range(6 if quick else 40):
                out.append(edited(rng, "nexus", text, {}, rng.choice([1, 1, 2])))
    # valid documents in which a TREES block precedes a block that introduces further taxa: the WHOLE document
    # through every entry point (DataSet.get, TreeList.get, CharacterMatrix.get, Tree.yield_from_files)
    for s in ORDER_STRUCTURES:
        for i in range(3 if quick else 20):
            text, st = gen_nexus(rng, s)
            for rd in ("nexus", "nexus_trees", "nexus_chars", "nexus_yield"):
                c = {"reader": rd, "text": text, "kind": "valid-order:" + st}
                if rd in ORDER_VALID[s]:
                    c["expect_ok"] = True
                out.append(c)
            if i == 0:
                cuts = [k for k in range(len(text) + 1) if not quick or k % 3 == 0 or text[max(0, k - 1):k] in (";", "\n", " ", "=")]
                for rd in ("nexus", "nexus_trees"):
                    out.extend(family(rd, text, {}, "truncation-sampled:" + st, cuts[j:j + 60]) for j in range(0, len(cuts), 60))
    for _ in range(4 if quick else 30):
        text = gen_newick(rng)
        out.append({"reader": "newick", "text": text, "kind": "valid"})
        out.extend(chunked_families("newick", text, {}, "truncation"))
        out.extend(chunked_families("newick1", text, {}, "truncation"))
        out.extend(chunked_families("newick_yield", text, {}, "truncation"))
        out.extend(chunked_families("nexusnewick_yield", text, {}, "truncation"))
        for _e in range(10 if quick else 40):
            out.append(edited(rng, "newick", text, {}, rng.choice([1, 1, 2])))
    for mode in ["relaxed", "strict", "interleaved", "multispace"]:
        for _ in range(2 if quick else 12):
            text, opts = gen_phylip(rng, mode)
            out.append({"reader": "phylip", "opts": opts, "text": text, "kind": "valid:" + mode})
            out.extend(chunked_families("phylip", text, opts, "truncation:" + mode))
            for _e in range(10 if quick else 40):
                out.append(edited(rng, "phylip", text, opts, rng.choice([1, 1, 2])))
    for _ in range(4 if quick else 30):
        text = gen_fasta(rng)
        out.append({"reader": "fasta", "text": text, "kind": "valid"})
        out.extend(chunked_families("fasta", text, {}, "truncation"))
        for _e in range(10 if quick else 40):
            out.append(edited(rng, "fasta", text, {}, rng.choice([1, 1, 2])))
    # every character-block flavour, with all its truncation points
    for fl in CHAR_FLAVOURS:
        for _ in range(1 if quick else 3):
            text, _st = gen_nexus(rng, "flavour", fl)
            out.append({"reader": "nexus", "text": text, "kind": "valid:flavour:" + fl})
            if quick:      # every cut inside the CHARACTERS block, every third elsewhere
                lo = text.find("BEGIN CHARACTERS")
                hi = text.find("BEGIN TREES") if "BEGIN TREES" in text else len(text)
                cuts = [k for k in range(len(text) + 1) if lo <= k <= hi and (k % 2 == 0 or text[k - 1:k] in "\n; ") or k % 3 == 0]
                out.extend(family("nexus", text, {}, "truncation-sampled:flavour:" + fl, cuts[i:i + 60]) for i in range(0, len(cuts), 60))
            else:
                out.extend(chunked_families("nexus", text, {}, "truncation:flavour:" + fl))
            for _e in range(4 if quick else 30):
                out.append(edited(rng, "nexus", text, {}, rng.choice([1, 1, 2])))
    # rows in several runs / multistate groups whose total differs from NCHAR
    for i in range(60 if quick else 600):
        text, kind = gen_nexus_dims(rng, where=DIMS_WHERE[i % len(DIMS_WHERE)])
        out.append({"reader": "nexus", "text": text, "kind": kind})
        if i % 4 == 0:
            out.append({"reader": "nexus_chars", "text": text, "kind": kind})
    # a few inputs with characters outside ASCII
    for t in ["(é,中);", ">é\nAC→G\n", "1 2\n中 AC\n", "#NEXUS\nBEGIN TAXA;\nDIMENSIONS NTAX=1;\nTAXLABELS é;\nEND;\n",
              "١ ٢\na A\n\n", "1 2\na AC\n\n", ">a\nA C\n"]:
        rd = "newick" if t.startswith("(") else "fasta" if t.startswith(">") else "nexus" if t.startswith("#") else "phylip"
        out.append({"reader": rd, "text": t, "kind": "non-ascii"})
    return out


def search_stream(rng):
    """wider scope used after a broken proof obligation or a model disagreement: every truncation point of
    documents of every block structure (several of each), statement-level keyword edits, the fixed probes"""
    for reader, text, kind in FIXED:
        yield {"reader": reader, "text": text, "kind": "fixed:" + kind}
    for rounds in range(50):
        for i in range(40):
            text, kind = gen_nexus_dims(rng, where=DIMS_WHERE[i % len(DIMS_WHERE)])
            yield {"reader": "nexus", "text": text, "kind": kind}
        for s in ORDER_STRUCTURES:
            text, st = gen_nexus(rng, s)
            for rd in ("nexus", "nexus_trees", "nexus_chars", "nexus_yield"):
                c = {"reader": rd, "text": text, "kind": "valid-order:" + st}
                if rd in ORDER_VALID[s]:
                    c["expect_ok"] = True
                yield c
        for s in STRUCTURES:
            text, st = gen_nexus(rng, s)
            for f in chunked_families("nexus", text, {}, "truncation:" + st):
                yield f
            for _ in range(10):
                yield edited(rng, "nexus", text, {}, rng.choice([1, 2]))
        text = gen_newick(rng)
        for f in chunked_families("newick", text, {}, "truncation"):
            yield f
        text, opts = gen_phylip(rng)
        for f in chunked_families("phylip", text, opts, "truncation"):
            yield f
        for f in chunked_families("fasta", gen_fasta(rng), {}, "truncation"):
            yield f
