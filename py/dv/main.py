import importlib
import sys


def main():
    if len(sys.argv) < 2:
        print("usage: check <Cxx|setup|all> [--tier quick|thorough] [--replay f]")
        return 2
    what = sys.argv[1]
    if what == "setup":
        from dv import setup
        return setup.main()
    mod = importlib.import_module("dv.%s" % what.lower())
    from dv import core
    try:
        return core.main_wrapper(mod.run)
    except Exception as e:      # noqa: an uncaught exception in a harness must still follow the protocol
        import hashlib
        import json
        import os
        import traceback
        tb = traceback.format_exc()
        pid = what.upper()
        d = os.path.join(core.ROOT, "replay", pid)
        os.makedirs(d, exist_ok=True)
        path = os.path.join(d, "crash_%s.json" % hashlib.sha1(tb.encode()).hexdigest()[:10])
        with open(path, "w") as f:
            json.dump({"property": pid, "what": "the check itself stopped with %s: %s - the property is no longer shown to "
                       "hold (the implementation did something the harness has no observation for)" % (type(e).__name__, e),
                       "no_failing_input_found": True, "traceback": tb[-4000:]}, f, indent=1)
        sys.stderr.write(tb)
        print("VIOLATION property=%s replay=%s no-failing-input-found" % (pid, path))
        return 1


if __name__ == "__main__":
    sys.exit(main())
