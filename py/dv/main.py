import importlib
import sys


def main():
    if len(sys.argv) < 2:
        print("usage: check <Cxx|setup|all> [--tier quick|thorough] [--replay f]")
        return 2
    what = sys.argv[1]
    if what == "setup":
        from dv import setup
        return setup.main()
    mod = importlib.import_module("dv.%s" % what.lower())
    from dv import core
    return core.main_wrapper(mod.run)


if __name__ == "__main__":
    sys.exit(main())
