"""C02 - trees survive a write/read round trip through Newick, NEXUS and NeXML.

Correspondence (model vs. implementation, both tied separately):
  writer : TreeList.as_string("newick", **wopts)            vs  Newick.write_tree_list
  reader : TreeList.get(data=text, schema="newick", ...)     vs  Newick.read_newick (on the text the
           implementation wrote, and on reader-only texts: perturbed / random token soup)
Oracle (independent, on the implementation only): the full pipelines Newick / NEXUS (TreeList and
single Tree, with and without TRANSLATE) / NeXML must give back the same trees.
"""
import json
import copy
import random
import time

from dv import core
from dv import trees as dvtrees

HEADER = ("From DV Require Import Model.PyPrims Model.Tokenizer Model.Newick Model.C02Model.\n"
          "From Coq Require Import ZArith. Open Scope Z_scope.")

STRUCT5 = "(),:;"
PUNCT = "()[]{}/\\,;:=*'\"`+-<>_ \t"
LETTERS = "abcXYZ"
NONASCII = "éÉßΩωжЖ中ñÑ"
LENGTHS = [None, None, 0, 1, 12, 0.0, 1.0, 1.5, 1e-05, 2.5e+20, 3.25e-300, 123456.789, 1e22, 0.1 + 0.2, 7]

WFLAG_NAMES = ["suppress_leaf_taxon_labels", "suppress_leaf_node_labels", "suppress_internal_taxon_labels",
               "suppress_internal_node_labels", "suppress_rooting", "suppress_edge_lengths",
               "unquoted_underscores", "preserve_spaces"]
WFLAG_DEFAULTS = [False, True, False, False, False, False, False, False]
ROOTING_COQ = {"force-unrooted": "ForceUnrooted", "force-rooted": "ForceRooted", "default-unrooted": "DefaultUnrooted",
               "default-rooted": "DefaultRooted", None: "NoDirective"}


# ----------------------------------------------------------------------------------------------
# generation
# ----------------------------------------------------------------------------------------------

def gen_label(rng, kind=None):
    kind = kind or rng.choice(["plain", "punct", "punct", "punct", "digits", "nonascii", "quotes", "mixedcase", "one"])
    for _ in range(100):
        if kind == "plain":
            s = "".join(rng.choice("abcdefgh0123XYZ.#&!%|~^@?$") for _ in range(rng.randint(1, 6)))
        elif kind == "punct":
            s = "".join(rng.choice(PUNCT) if rng.random() < 0.6 else rng.choice(LETTERS) for _ in range(rng.randint(1, 6)))
        elif kind == "digits":
            s = "".join(rng.choice("0123456789") for _ in range(rng.randint(1, 3)))
        elif kind == "nonascii":
            s = "".join(rng.choice(NONASCII + "ab _'") for _ in range(rng.randint(1, 5)))
        elif kind == "quotes":
            s = "".join(rng.choice("'_ a'b") for _ in range(rng.randint(1, 6)))
        elif kind == "mixedcase":
            s = "".join(rng.choice("aAbBcC") for _ in range(rng.randint(2, 4)))
        elif kind == "one":
            s = rng.choice(PUNCT + "ab")
        elif kind == "struct1":
            s = rng.choice(STRUCT5)
        else:
            raise ValueError(kind)
        s = s.strip(" \t")
        if s:
            return s
    return "x"


def gen_pool(rng, n, allow_struct1, no_space=False):
    """n labels, non-empty, no leading/trailing whitespace, distinct up to case"""
    out, low = [], set()
    tries = 0
    while len(out) < n:
        tries += 1
        kind = None
        if allow_struct1 and rng.random() < 0.25:
            kind = "struct1"
        s = gen_label(rng, kind)
        if no_space:
            s = s.replace(" ", "").replace("\t", "")   # tab is converted like a space when unprotected
            if not s:
                continue
        if s.lower() in low:
            if tries > 2000:
                s = "u%d" % len(out)
            else:
                continue
        low.add(s.lower())
        out.append(s)
    return out


def apply_history(create, hist):
    """order of a TaxonNamespace whose taxa were created in order `create` and then re-ordered:
    "sort" = TaxonNamespace.sort() (by label), "reverse", ["readd", l] = remove_taxon + add_taxon (goes to the end)"""
    cur = list(create)
    for op in hist:
        if op == "sort":
            cur.sort()
        elif op == "reverse":
            cur.reverse()
        else:
            cur.remove(op[1])
            cur.append(op[1])
    return cur


def add_history(case, rng, p=0.45):
    """give the namespace a creation order and a re-ordering history (accession order != current order);
    case["ns"] becomes the CURRENT order"""
    labels = list(case["ns"])
    case["create"] = labels
    case["hist"] = []
    if labels and rng.random() < p:
        create = list(labels)
        rng.shuffle(create)
        hist = []
        for _ in range(rng.randint(1, 3)):
            k = rng.random()
            if k < 0.4:
                hist.append("sort")
            elif k < 0.7:
                hist.append("reverse")
            else:
                hist.append(["readd", rng.choice(create)])
        case["create"] = create
        case["hist"] = hist
    case["ns"] = apply_history(case["create"], case["hist"])
    return case


def to_spec(t, rng, taxa, opts):
    """dv.trees shape dict -> C02 spec tree {"taxon","label","len","kids"} (labels are strings)"""
    leaf_iter = iter(taxa)

    def conv(n, is_root):
        kids = [conv(k, False) for k in n["kids"]]
        nd = {"taxon": None, "label": None, "len": rng.choice(LENGTHS), "kids": kids}
        if opts["no_lengths"]:
            nd["len"] = None
        if not kids:
            nd["taxon"] = next(leaf_iter)
            if rng.random() < 0.1:
                nd["label"] = gen_label(rng)        # leaf node labels are not written by default
        else:
            if rng.random() < opts["p_internal"]:
                if opts["internal_taxa"]:
                    nd["taxon"] = "__INT__"           # filled by the caller with a fresh pool label
                else:
                    nd["label"] = gen_label(rng, "struct1" if (opts["struct1"] and rng.random() < 0.3) else None)
                    if opts["no_space"]:
                        nd["label"] = nd["label"].replace(" ", "").replace("\t", "") or "q"
        return nd
    return conv(t, True)


def spec_nodes(t):
    out = [t]
    for k in t["kids"]:
        out.extend(spec_nodes(k))
    return out


def gen_roundtrip_case(rng, maxleaves):
    ntrees = rng.choice([1, 1, 1, 2, 3])
    mode = rng.choice(["default", "default", "uu", "ps", "uu_ps"])
    wkw = {}
    if mode in ("uu", "uu_ps"):
        wkw["unquoted_underscores"] = True
    if mode in ("ps", "uu_ps"):
        wkw["preserve_spaces"] = True
    no_space = (mode == "uu")           # (T,T,F): consistent only for labels without spaces
    struct1 = rng.random() < 0.04
    blank_leaves = rng.random() < 0.06
    internal_taxa = rng.random() < 0.15
    opts = {"no_lengths": rng.random() < 0.15, "p_internal": rng.choice([0.0, 0.3, 0.8]),
            "internal_taxa": internal_taxa, "struct1": struct1, "no_space": no_space}
    nl_max = rng.choice([1, 2, 4, maxleaves, maxleaves])
    shapes = []
    for _ in range(ntrees):
        nl = rng.randint(max(1, nl_max // 2), nl_max)
        shapes.append(dvtrees.gen_tree(rng, nl, lengths="none", unifurcations=rng.choice([0.0, 0.0, 0.2])))
    nint = sum(1 for s in shapes for n in dvtrees.preorder(s) if n["kids"])
    pool = gen_pool(rng, nl_max + (nint if internal_taxa else 0), struct1, no_space)
    leafpool, intpool = pool[:nl_max], pool[nl_max:]
    specs = []
    for s in shapes:
        nl = len(dvtrees.leaves(s))
        taxa = rng.sample(leafpool, nl)
        sp = to_spec(s, rng, taxa, opts)
        ip = list(intpool)
        rng.shuffle(ip)
        for nd in spec_nodes(sp):
            if nd["taxon"] == "__INT__":
                nd["taxon"] = ip.pop()
            if blank_leaves and not nd["kids"] and rng.random() < 0.3:
                nd["taxon"] = None
        rooted = rng.choice([True, False, None])
        specs.append([rooted, sp])
    used = []
    for _r, sp in specs:
        for nd in spec_nodes(sp):
            if nd["taxon"] is not None and nd["taxon"] not in used:
                used.append(nd["taxon"])
    rng.shuffle(used)
    if rng.random() < 0.1 and len(set(r for r, _ in specs)) == 1 and specs[0][0] is not None:
        wkw["suppress_rooting"] = True
    if rng.random() < 0.05:
        wkw["suppress_edge_lengths"] = True
    if rng.random() < 0.06:
        wkw[rng.choice(["suppress_leaf_taxon_labels", "suppress_internal_taxon_labels", "suppress_internal_node_labels"])] = True
    return add_history({"kind": "roundtrip", "ns": used, "trees": specs, "wkw": wkw, "internal_taxa": internal_taxa}, rng)


SOUP = ["(", ")", ",", ":", ";", "a", "b", "c", "A", "'q r'", "'it''s'", "[c]", "[&R]", "[&U]", "[ &r ]", "[x[y]z]",
        " ", "\n", "1.5", "2", "1e-3", "x_y", "_", "=", "{", "}", "\\", "\"", "'", "[", "]", "\t", "3", "nan", "zz"]


def gen_reader_case(rng):
    kind = rng.choice(["soup", "grammar", "grammar", "perturb"])
    if kind == "soup":
        text = "".join(rng.choice(SOUP) for _ in range(rng.randint(0, 14)))
    elif kind == "grammar":
        def node(d):
            s = ""
            if d < 3 and rng.random() < 0.5:
                n = rng.randint(1, 4)
                s = "(" + ",".join(node(d + 1) for _ in range(n)) + ")"
            if rng.random() < 0.6:
                s += rng.choice(["a", "b", "c", "d", "e", "A", "'x y'", "x_y", "[c]f", "g[&k=1]", "1", "2"])
            if rng.random() < 0.4:
                s += rng.choice([":", " : ", ":[c]"]) + rng.choice(["1", "2.5", "1e-05", "x", "0"])
            return s
        text = "".join(rng.choice(["", "", "[&R] ", "[&U]", "[&r][x]", " "]) + node(0) + rng.choice([";", ";", ";\n", "", ";;"])
                       for _ in range(rng.randint(1, 3)))
    else:
        base = "[&R] ((a:1,b:2)x:3,(c,d),e)r:0;\n(a,(b,c));\n"
        text = list(base)
        for _ in range(rng.randint(1, 3)):
            i = rng.randrange(len(text) + 1)
            op = rng.random()
            if op < 0.4 and text:
                del text[min(i, len(text) - 1)]
            elif op < 0.8:
                text.insert(i, rng.choice("(),:;'[] _ab"))
            else:
                text = text[:i]
        text = "".join(text)
    rkw = {}
    if rng.random() < 0.3:
        rkw["rooting"] = rng.choice(["force-unrooted", "force-rooted", "default-unrooted", "default-rooted"])
    if rng.random() < 0.2:
        rkw["preserve_underscores"] = True
    if rng.random() < 0.2:
        rkw["suppress_internal_node_taxa"] = False
    if rng.random() < 0.1:
        rkw["suppress_leaf_node_taxa"] = True
    if rng.random() < 0.15:
        rkw["terminating_semicolon_required"] = False
    if rng.random() < 0.1:
        rkw["suppress_edge_lengths"] = True
    if rng.random() < 0.1:
        rkw["case_sensitive_taxon_labels"] = True
    return {"kind": "reader", "text": text, "rkw": rkw}


# ----------------------------------------------------------------------------------------------
# implementation side
# ----------------------------------------------------------------------------------------------

def fmt_len(x):
    return "{}".format(x)


def build_treelist(case):
    import dendropy
    ns = dendropy.TaxonNamespace()
    taxa = {l: ns.new_taxon(l) for l in case.get("create", case["ns"])}
    for op in case.get("hist", []):
        if op == "sort":
            ns.sort()
        elif op == "reverse":
            ns.reverse()
        else:
            ns.remove_taxon(taxa[op[1]])
            ns.add_taxon(taxa[op[1]])
    if [t.label for t in ns] != list(case["ns"]):
        raise RuntimeError("harness: namespace history gave order %r, expected %r" % ([t.label for t in ns], case["ns"]))
    tl = dendropy.TreeList(taxon_namespace=ns)
    for rooted, sp in case["trees"]:
        tree = dendropy.Tree(taxon_namespace=ns)

        def mk(s, node):
            if s["taxon"] is not None:
                node.taxon = taxa[s["taxon"]]
            if s["label"] is not None:
                node.label = s["label"]
            node.edge.length = s["len"]
            for k in s["kids"]:
                mk(k, node.new_child())
        mk(sp, tree.seed_node)
        tree.is_rooted = rooted
        tl.append(tree)
    return tl


def dump_read(tl):
    """TreeList as delivered by a reader -> canonical structure for the model comparison"""
    ns = list(tl.taxon_namespace)
    idx = {id(t): i for i, t in enumerate(ns)}

    def f(n):
        return [None if n.taxon is None else idx.get(id(n.taxon), -1), n.label,
                None if n.edge.length is None else repr(n.edge.length),
                list(n.comments) + ["<edge>" + c for c in n.edge.comments],
                [f(c) for c in n.child_nodes()]]
    return {"ok": [[t.is_rooted, list(t.comments), f(t.seed_node)] for t in tl], "ns": [t.label for t in ns]}


def dump_plain(tl):
    """TreeList -> structure for the oracle: taxon LABELS, float reprs"""
    def f(n):
        return {"taxon": None if n.taxon is None else n.taxon.label, "label": n.label,
                "len": None if n.edge.length is None else repr(float(n.edge.length)),
                "kids": [f(c) for c in n.child_nodes()]}
    return {"trees": [[t.is_rooted, f(t.seed_node)] for t in tl], "ns": [t.label for t in tl.taxon_namespace]}


def reader_kwargs(case):
    """the reader options matching the writer options (property: 'matching reader options')"""
    wkw = case["wkw"]
    rkw = {}
    if wkw.get("unquoted_underscores"):
        rkw["preserve_underscores"] = True
    if wkw.get("suppress_rooting"):
        rkw["rooting"] = "force-rooted" if case["trees"][0][0] else "force-unrooted"
    if case.get("internal_taxa"):
        rkw["suppress_internal_node_taxa"] = False
    return rkw


def tokens_after_colon(text, preserve_underscores):
    """tokens that follow a ':' token, via the real tokenizer (only to know which float() calls to tabulate)"""
    import io
    from dendropy.dataio import nexusprocessing
    tk = nexusprocessing.NexusTokenizer(io.StringIO(text), preserve_unquoted_underscores=preserve_underscores)
    out = []
    prev = None
    try:
        for t in tk:
            if prev == ":":
                out.append(t)
            prev = t
    except Exception:
        pass
    return out


def float_table(text, preserve_underscores):
    tbl = {}
    for t in tokens_after_colon(text, preserve_underscores):
        try:
            tbl[t] = repr(float(t))
        except ValueError:
            tbl[t] = None
    return sorted(tbl.items())


def lower_table(strings):
    tbl = {}
    for s in strings:
        if s is None:
            continue
        low = s.lower()
        if len(low) != len(s) or any(ch.lower() != lc for ch, lc in zip(s, low)):
            raise RuntimeError("str.lower is not character-wise on %r (harness alphabet must avoid this)" % s)
        for ch in s:
            if ord(ch) > 127 and ch.lower() != ch:
                tbl[ord(ch)] = ord(ch.lower())
    return sorted(tbl.items())


def read_impl(text, rkw):
    import dendropy
    try:
        kw = dict(rkw)
        if kw.get("case_sensitive_taxon_labels"):
            kw["taxon_namespace"] = dendropy.TaxonNamespace(is_case_sensitive=True)
        with core.alarm(10):
            tl = dendropy.TreeList.get(data=text, schema="newick", extract_comment_metadata=False, **kw)
        return dump_read(tl)
    except Exception as e:
        return {"err": core.exc_enum(e), "msg": "%s: %s" % (type(e).__name__, str(e)[:120])}


def pipeline(tl, schema, wkw, rkw, single=False):
    """write + read back on the implementation; returns dump_plain or {"exc": ...}"""
    import dendropy
    try:
        with core.alarm(10):
            if single:
                text = tl[0].as_string(schema, **wkw)
                t2 = dendropy.Tree.get(data=text, schema=schema, **rkw)
                tl2 = dendropy.TreeList([t2], taxon_namespace=t2.taxon_namespace)
            else:
                text = tl.as_string(schema, **wkw)
                tl2 = dendropy.TreeList.get(data=text, schema=schema, **rkw)
        return dump_plain(tl2)
    except Exception as e:
        return {"exc": "%s: %s" % (type(e).__name__, str(e)[:160])}


def observe(case):
    if case["kind"] == "reader":
        text = case["text"]
        rkw = case["rkw"]
        return {"read": read_impl(text, rkw), "floats": float_table(text, rkw.get("preserve_underscores", False))}
    tl = build_treelist(case)
    wkw = case["wkw"]
    rkw = reader_kwargs(case)
    text = tl.as_string("newick", **wkw)
    obs = {"written": text, "read": read_impl(text, rkw),
           "floats": float_table(text, rkw.get("preserve_underscores", False)), "rkw": rkw}
    # full pipelines for the oracle
    pipes = {}
    pipes["newick"] = pipeline(tl, "newick", wkw, rkw)
    if not case["trees"]:
        # an empty tree list: list pipelines only
        pipes["nexus"] = pipeline(tl, "nexus", dict(wkw), rkw)
        pipes["nexml"] = pipeline(tl, "nexml", {}, {})
        obs["pipes"] = pipes
        return obs
    pipes["newick-tree"] = pipeline(tl, "newick", wkw, rkw, single=True)
    nexus_w = {k: v for k, v in wkw.items()}
    pipes["nexus"] = pipeline(tl, "nexus", nexus_w, rkw)
    pipes["nexus-translate"] = pipeline(tl, "nexus", dict(nexus_w, translate_tree_taxa=True), rkw)
    pipes["nexus-tree"] = pipeline(tl, "nexus", nexus_w, rkw, single=True)
    if any(wkw.get(f) for f in LABEL_FLAGS):
        # label-suppressing options: Newick pipelines only (the NEXUS TAXA block still lists every taxon)
        obs["pipes"] = {k: v for k, v in pipes.items() if k.startswith("newick")}
        return obs
    if not any(k in wkw for k in ("suppress_rooting", "suppress_edge_lengths", "unquoted_underscores", "preserve_spaces")) \
            and not case.get("internal_taxa"):
        pipes["nexml"] = pipeline(tl, "nexml", {}, {})
        pipes["nexml-tree"] = pipeline(tl, "nexml", {}, {}, single=True)
    obs["pipes"] = pipes
    return obs


# ----------------------------------------------------------------------------------------------
# oracle: the property, stated naively on the implementation's behaviour
# ----------------------------------------------------------------------------------------------

LABEL_FLAGS = ("suppress_leaf_taxon_labels", "suppress_internal_taxon_labels", "suppress_internal_node_labels")


def erase_spec(sp, wkw):
    """the tree without the attributes the writer options suppress (labels; lengths are handled in expected_tree)"""
    leaf = not sp["kids"]
    tx, lb = sp["taxon"], sp["label"]
    if leaf and wkw.get("suppress_leaf_taxon_labels"):
        tx = None
    if not leaf and wkw.get("suppress_internal_taxon_labels"):
        tx = None
    if not leaf and wkw.get("suppress_internal_node_labels"):
        lb = None
    return {"taxon": tx, "label": lb, "len": sp["len"], "kids": [erase_spec(k, wkw) for k in sp["kids"]]}


def erased_case(case):
    if not any(case["wkw"].get(f) for f in LABEL_FLAGS):
        return case
    c = dict(case)
    c["trees"] = [[r, erase_spec(sp, case["wkw"])] for r, sp in case["trees"]]
    return c


def expected_tree(sp, schema, wkw, is_root=True, got_root_len=None):
    """what the property promises to get back for spec node sp"""
    leaf = not sp["kids"]
    ln = None if sp["len"] is None else repr(float(sp["len"]))
    if wkw.get("suppress_edge_lengths"):
        ln = None
    if schema == "nexml" and is_root and ln is None and got_root_len == repr(0.0):
        ln = repr(0.0)                      # allowed: "NeXML renders a missing root-edge length as 0"
    return {"taxon": sp["taxon"], "label": None if leaf else (sp["label"] or None), "len": ln,
            "kids": [expected_tree(k, schema, wkw, False) for k in sp["kids"]]}


def strip_leaf_labels(t):
    return {"taxon": t["taxon"], "label": t["label"] if t["kids"] else None, "len": t["len"],
            "kids": [strip_leaf_labels(k) for k in t["kids"]]}


def has_trailing_blank_leaf(sp, wkw):
    """an anonymous leaf without edge length that is not its parent's first child and is the last one"""
    for nd in spec_nodes(sp):
        ks = nd["kids"]
        if len(ks) >= 2:
            last = ks[-1]
            if not last["kids"] and last["taxon"] is None and (last["len"] is None or wkw.get("suppress_edge_lengths")):
                if any(k["kids"] or k["taxon"] is not None or (k["len"] is not None and not wkw.get("suppress_edge_lengths")) for k in ks[:-1]):
                    return True
    return False


def is_blank_single_node(sp, wkw):
    return not sp["kids"] and sp["taxon"] is None and (sp["len"] is None or wkw.get("suppress_edge_lengths"))


def zero_missing(t):
    return {"taxon": t["taxon"], "label": t["label"], "len": repr(0.0) if t["len"] is None else t["len"],
            "kids": [zero_missing(k) for k in t["kids"]]}


def classify(case, pipe, got_tree=None, want_tree=None):
    """narrow key for a failing round trip"""
    if pipe.startswith("nexml") and got_tree is not None and got_tree != want_tree and got_tree == zero_missing(want_tree):
        return "nexml-missing-length-zero"
    if not case["trees"] and pipe.startswith("newick"):
        return "empty-tree-list-newick"
    if pipe.startswith("nexml") and not case["ns"]:
        return "nexml-empty-namespace"
    if pipe.startswith("nexml"):
        every = []
        for _r, sp in case["trees"]:
            for nd in spec_nodes(sp):
                every.extend(x for x in (nd["taxon"], nd["label"]) if x)
        if any(ch in '"\\&<\t' or ord(ch) > 127 for l in every + list(case["ns"]) for ch in l):
            return "nexml-label-attribute-escaping"
    if pipe == "nexus-translate" and not case["ns"]:
        return "nexus-translate-empty-namespace"
    labels = []
    for _r, sp in case["trees"]:
        for nd in spec_nodes(sp):
            if nd["taxon"] is not None:
                labels.append(nd["taxon"])
            if nd["kids"] and nd["label"]:
                labels.append(nd["label"])
    fmt = pipe.split("-")[0]
    if fmt == "nexus":
        # TAXLABELS / TRANSLATE list every member of the namespace: `;` (and `,` in TRANSLATE) written quoted
        # are compared with the statement punctuation regardless of the quoting (same input class as F5)
        labels = labels + list(case["ns"])
    if fmt in ("newick", "nexus"):
        if any(l in tuple(STRUCT5) for l in labels):
            return "quoted-structural-char-label"
        # a blank single-node tree (known finding) first: the trailing-blank-leaf defect is repaired upstream, so in a case
        # that has both shapes the blank statement is what loses a tree
        if any(is_blank_single_node(sp, case["wkw"]) for _r, sp in case["trees"]):
            return "blank-single-node-tree"
        if any(has_trailing_blank_leaf(sp, case["wkw"]) for _r, sp in case["trees"]):
            return "trailing-blank-leaf"
    return "roundtrip-" + pipe


def oracle(case, obs):
    if case["kind"] != "roundtrip":
        return None
    case = erased_case(case)
    wkw = case["wkw"]
    for pipe, got in sorted(obs["pipes"].items()):
        fmt = pipe.split("-")[0]
        single = pipe.endswith("-tree")
        trees = case["trees"][:1] if single else case["trees"]
        if "exc" in got:
            return ("%s round trip raised %s (labels %s, options %s)" % (pipe, got["exc"], case["ns"][:6], wkw), classify(case, pipe))
        if len(got["trees"]) != len(trees):
            return ("%s round trip returned %d trees for %d written" % (pipe, len(got["trees"]), len(trees)), classify(case, pipe))
        for k, ((rooted, sp), (r2, t2)) in enumerate(zip(trees, got["trees"])):
            want_r = rooted
            if fmt == "nexml" and rooted is None and r2 is False:
                want_r = False              # allowed: "NeXML renders ... an undefined rooting state as unrooted"
            if r2 != want_r:
                key = classify(case, pipe)
                if key.startswith("roundtrip-"):
                    key = "rooting-" + pipe
                return ("%s round trip: tree %d rooting %r came back as %r (options %s)" % (pipe, k, rooted, r2, wkw), key)
            want = expected_tree(sp, fmt, wkw, got_root_len=t2["len"])
            if strip_leaf_labels(t2) != want:
                return ("%s round trip: tree %d differs: wrote %s, read %s" % (pipe, k, json.dumps(want)[:300], json.dumps(strip_leaf_labels(t2))[:300]),
                        classify(case, pipe, strip_leaf_labels(t2), want))
        # namespace
        if fmt == "newick":
            used = set()
            for _r, sp in trees:
                for nd in spec_nodes(sp):
                    if nd["taxon"] is not None:
                        used.add(nd["taxon"])
            if sorted(got["ns"]) != sorted(used):
                return ("%s round trip: namespace labels %s, expected %s" % (pipe, got["ns"], sorted(used)), classify(case, pipe))
        else:
            if got["ns"] != case["ns"]:
                return ("%s round trip: namespace labels/order %s, expected %s" % (pipe, got["ns"], case["ns"]), classify(case, pipe))
    return None


# ----------------------------------------------------------------------------------------------
# Coq terms
# ----------------------------------------------------------------------------------------------

def zs(s):
    return "[" + ";".join(str(ord(c)) for c in s) + "]"


def copt(x, f):
    return "None" if x is None else "(Some %s)" % f(x)


def cb(b):
    return "true" if b else "false"


def c_ntree(sp):
    return "(Nd %s %s %s [%s])" % (copt(sp["taxon"], zs), copt(sp["label"], zs),
                                   copt(sp["len"], lambda x: zs(fmt_len(x))),
                                   ";".join(c_ntree(k) for k in sp["kids"]))


def c_ptree(n):
    tx, lb, ln, cm, kids = n
    return "(PN %s %s %s [%s] [%s])" % (copt(tx, lambda i: "%d%%nat" % i), copt(lb, zs), copt(ln, zs),
                                         ";".join(zs(c) for c in cm), ";".join(c_ptree(k) for k in kids))


_VARIANT = {}


def blank_after_comma():
    """which form of the reader's `,)` handling the working tree has (Newick.ro_blank_after_comma):
    decided by replaying the trailing-blank-leaf finding on the implementation"""
    if "v" not in _VARIANT:
        import dendropy
        t = dendropy.Tree.get(data="(a,);", schema="newick")
        _VARIANT["v"] = len(t.seed_node.child_nodes()) == 2
    return _VARIANT["v"]


def c_ropts(rkw):
    return "(mkRopts %s %s %s %s %s %s %s %s)" % (
        ROOTING_COQ[rkw.get("rooting")], cb(rkw.get("suppress_edge_lengths", False)),
        cb(rkw.get("preserve_underscores", False)), cb(rkw.get("suppress_internal_node_taxa", True)),
        cb(rkw.get("suppress_leaf_node_taxa", False)), cb(rkw.get("terminating_semicolon_required", True)),
        cb(rkw.get("case_sensitive_taxon_labels", False)), cb(blank_after_comma()))


def c_read(rd):
    if "err" in rd:
        return "(Err %s)" % rd["err"]
    trees = ";".join("(mkPR %s [%s] %s)" % (copt(r, cb), ";".join(zs(c) for c in cm), c_ptree(t)) for r, cm, t in rd["ok"])
    return "(Ok ([%s], [%s]))" % (trees, ";".join(zs(l) for l in rd["ns"]))


def all_strings(case, obs):
    out = []
    rd = obs["read"]
    if "ok" in rd:
        out.extend(rd["ns"])
    if case["kind"] == "roundtrip":
        out.extend(case["ns"])
        out.append(obs["written"])
    else:
        out.append(case["text"])
    return out


def to_coq(case, obs):
    low = lower_table(all_strings(case, obs))
    lower = "[" + ";".join("(%d,%d)" % p for p in low) + "]"
    floats = "[" + ";".join("(%s,%s)" % (zs(k), copt(v, zs)) for k, v in obs["floats"]) + "]"
    if case["kind"] == "reader":
        return "(mkCase %s %s [] [] [] [] %s [] %s %s)" % (lower, floats, c_ropts(case["rkw"]), zs(case["text"]), c_read(obs["read"]))
    wkw = case["wkw"]
    flags = "[" + ";".join(cb(wkw.get(n, d)) for n, d in zip(WFLAG_NAMES, WFLAG_DEFAULTS)) + "]"
    trees = "[" + ";".join("(%s,%s)" % (copt(r, cb), c_ntree(sp)) for r, sp in case["trees"]) + "]"
    return "(mkCase %s %s %s [] %s %s %s [] %s %s)" % (lower, floats, flags, trees, zs(obs["written"]),
                                                     c_ropts(obs["rkw"]), zs(obs["written"]), c_read(obs["read"]))


def nontrivial(case, obs):
    if case["kind"] == "reader":
        return len(case["text"]) >= 4
    n = sum(len(spec_nodes(sp)) for _r, sp in case["trees"])
    special = any(any(ch in PUNCT or ord(ch) > 127 for ch in l) for l in case["ns"])
    return n >= 3 and special


def sample_fn(case, obs):
    if case["kind"] == "reader":
        return {"text": case["text"], "rkw": case["rkw"], "read": obs["read"]}
    return {"labels": case["ns"][:8], "wkw": case["wkw"], "written": obs["written"][:200]}


# ----------------------------------------------------------------------------------------------
# known-finding witnesses (replayed on the implementation every run)
# ----------------------------------------------------------------------------------------------

def witness_cases():
    """fixed cases: the Coq `_refuted` witnesses and the classes checked to work"""
    def leaf(l, ln=None):
        return {"taxon": l, "label": None, "len": ln, "kids": []}
    out = []
    for ch in STRUCT5:
        out.append({"kind": "roundtrip", "ns": [ch, "zz"], "wkw": {}, "internal_taxa": False,
                    "trees": [[True, {"taxon": None, "label": None, "len": None, "kids": [leaf(ch, 1.0), leaf("zz", 1.0)]}]]})
    # labels that merely CONTAIN structural characters, comment-like and quote labels: must work
    for l in ["(a", "a)", "a,b", "a:b", ";;", "((", "[", "]", "[x]", "[&R]", "'", "''", "a'b", "'a'", "{", "}", "=", "\\", "\"", "_", "a_b", "a b", "a\tb", "1", "01"]:
        out.append({"kind": "roundtrip", "ns": [l, "zz"], "wkw": {}, "internal_taxa": False,
                    "trees": [[False, {"taxon": None, "label": l, "len": None, "kids": [leaf(l, 2), leaf("zz")]}]]})
    # trailing anonymous leaf
    blank = {"taxon": None, "label": None, "len": None, "kids": []}
    out.append({"kind": "roundtrip", "ns": ["a"], "wkw": {}, "internal_taxa": False,
                "trees": [[None, {"taxon": None, "label": None, "len": None, "kids": [leaf("a"), dict(blank)]}]]})
    out.append({"kind": "roundtrip", "ns": ["a"], "wkw": {}, "internal_taxa": False,
                "trees": [[None, {"taxon": None, "label": None, "len": None, "kids": [dict(blank), leaf("a")]}]]})
    # namespaces whose current order differs from their accession order (sort / reverse / remove and re-add), with labels
    # that are other members' 1-based positions: label ORDER must survive, TRANSLATE tokens are accession index + 1
    for create, hist in ((["c", "a", "b"], ["sort"]), (["2", "3", "1"], ["reverse"]), (["1", "b", "2"], [["readd", "1"]]),
                         (["b", "3", "a", "1"], ["sort", ["readd", "3"], "reverse"])):
        out.append({"kind": "roundtrip", "create": list(create), "hist": list(hist), "ns": apply_history(create, hist),
                    "wkw": {}, "internal_taxa": False,
                    "trees": [[True, {"taxon": None, "label": None, "len": None, "kids": [leaf(l, 1.0) for l in create[:3]]}]]})
    return out


def exhaustive_cases():
    """every ordered rose-tree shape with <= 5 leaves (no unifurcations) plus unifurcation chains, with fixed tricky
    labels, each under the three rooting states and two option settings"""
    tricky = ["a b", "x_y", "it's", "(1)", "[c]", "a=b", "b\\c", "Ab", "7", "\u00e9 \u03a9", "a:b", ";;", "q\tr"]
    lens = [None, 0, 1.5, 1e-05, 12]
    out = []
    shapes = []
    for n in range(1, 6):
        shapes.extend(dvtrees.all_shapes(n))
    shapes.extend([[[]], [[[]]], [[[], []]], [[[[]]], []]])      # unifurcations
    k = 0
    for shape in shapes:
        for rooted, wkw in ((True, {}), (False, {"unquoted_underscores": True, "preserve_spaces": True}), (None, {"preserve_spaces": True})):
            counter = [0]

            def conv(s):
                nonlocal k
                k += 1
                nd = {"taxon": None, "label": None, "len": lens[k % len(lens)], "kids": [conv(x) for x in s]}
                if not s:
                    nd["taxon"] = tricky[counter[0] % len(tricky)]
                    counter[0] += 1
                elif k % 3 == 0:
                    nd["label"] = tricky[(k // 3) % len(tricky)]
                return nd
            sp = conv(shape)
            used = [nd["taxon"] for nd in spec_nodes(sp) if nd["taxon"] is not None]
            out.append({"kind": "roundtrip", "ns": used, "trees": [[rooted, sp]], "wkw": dict(wkw), "internal_taxa": False})
    return out


# ----------------------------------------------------------------------------------------------

def search(ctx, budget_s):
    t0 = time.time()
    rng = random.Random(ctx.seed + 4242)
    n = 0
    for case in witness_cases():
        v = oracle(case, observe(case))
        if v:
            ctx.violation(v[0], {"case": case}, key=v[1])
    # read-back routes and reading histories (lazy iterators interleaved with other reads): 40% of the budget
    from dv import c02_routes
    c02_routes.search_more(ctx, random.Random(ctx.seed + 777), 0.4 * budget_s)
    while time.time() - t0 < budget_s and n < 20000:
        case = gen_roundtrip_case(rng, 8)
        obs = observe(case)
        v = oracle(case, obs)
        n += 1
        if v:
            ctx.violation(v[0], {"case": case, "observed": {"written": obs["written"], "pipes": obs["pipes"]}}, key=v[1])
    ctx.notes.append("search: %d further round-trip cases through the oracle" % n)


def count_case(ctx, case):
    ctx.count("kind:" + case["kind"])
    if case.get("hist"):
        ctx.count("namespace:reordered")
    if case["kind"] == "reader":
        return
    ctx.count("ntrees:%d" % len(case["trees"]))
    for k, v in case["wkw"].items():
        ctx.count("w:%s" % k)
    for r, sp in case["trees"]:
        ctx.count("rooting:%s" % r)
        nn = len(spec_nodes(sp))
        ctx.count("nodes:%s" % ("1" if nn == 1 else "2-5" if nn <= 5 else "6-15" if nn <= 15 else "16+"))
    for l in case["ns"]:
        if l in tuple(STRUCT5):
            ctx.count("label:struct1")
        elif any(ord(c) > 127 for c in l):
            ctx.count("label:nonascii")
        elif l.isdigit():
            ctx.count("label:digits")
        elif any(c in PUNCT for c in l):
            ctx.count("label:punct")
        else:
            ctx.count("label:plain")


def run(tier, seed, replay=None):
    ctx = core.Ctx("C02", tier, seed)
    ctx.assumptions = [
        "coq/Model/Tokenizer.v, Newick.v are hand transcriptions of tokenizer.py / nexusprocessing.py / newickwriter.py / newickreader.py; tied by this correspondence run (writer text and reader result compared separately)",
        "the tokenizer's character sets, both protect_regex classes and the rooting tokens are regenerated from the source on every run (coq/Gen/CharClasses.v)",
        "edge-length numerals: Python float formatting/parsing is abstract (render_len/parse_len with the round-trip premise as a Section hypothesis); the harness tabulates float() per token",
        "str.lower is an uninterpreted function in the theorems; in the correspondence run it is character-wise (checked by the harness on every string)",
        "NEXUS layer: coq/Model/C02Nexus.v models documents of the shape NexusWriter produces for one tree list over one namespace (TITLE/LINK/CHARACTERS/SETS statements give NUnmodelled); accession_index = position",
        "metadata: coq/Model/C02Meta.v (weights, item comments, annotation comments of NewickWriter / NewickReader._process_tree_comments / process_comments_for_item) and C02MetaAnn.v (parse_comment_metadata_to_annotations: backtracking semantics of the two regular expressions) are hand transcriptions tied by the metadata correspondence stage (exact text, exact read result incl. annotations up to permutation); float() per weight part and float division are tabulated by the harness; the generated facts of coq/Gen/NewickMeta.v are proved equal to the model's",
        "NeXML: coq/Model/C02Nexml.v models writer and reader at element level (otu/node/edge/rootedge records, id maps, root attribute); the XML text layer (xml library, quoteattr, id rendering, float text) is trusted: the harness parses the written text with ElementTree into the records",
    ]
    if replay:
        r = json.load(open(replay))["replay"]
        case = r["case"]
        obs = observe(case)
        print("oracle:", oracle(case, obs))
        if case["kind"] == "roundtrip":
            print("written:", repr(obs["written"]))
        return 0
    ok = core.proof_stage(ctx, ["Props/C02.vo"], gen_needed=("CharClasses", "NewickGen", "NewickMeta", "C02MapObjGen"))
    if not ok:
        core.broken_proof(ctx, search)
    n = 500 if tier == "quick" else 8000
    maxleaves = 8 if tier == "quick" else 20
    cases = list(witness_cases())
    if "empty-tree-list-newick" in ctx.known:
        # proposed finding (exercised once it is listed): an empty TreeList is written to Newick as the empty
        # document, which NewickReader rejects
        cases.append({"kind": "roundtrip", "ns": ["a"], "trees": [], "wkw": {}, "internal_taxa": False})
    for _ in range(n):
        if ctx.rng.random() < 0.3:
            cases.append(gen_reader_case(ctx.rng))
        else:
            cases.append(gen_roundtrip_case(ctx.rng, maxleaves))
    if tier == "thorough":
        cases.extend(exhaustive_cases())
    for c in cases:
        count_case(ctx, c)
    core.corr_stage(ctx, cases, observe, to_coq, HEADER, "case_ok", oracle=oracle, show_fn="case_show",
                    nontrivial=nontrivial, search=search, shard=250, sample_fn=sample_fn)
    # NEXUS layer (TAXA block + TREES block, with/without TRANSLATE): Model/C02Nexus.v vs NexusWriter/NexusReader
    from dv import c02_nexus
    ncases = []
    for w in witness_cases():
        if w.get("hist"):            # fixed re-ordered namespaces, with and without TRANSLATE
            for tr in (False, True):
                ncases.append(dict(copy.deepcopy(w), kind="nexus", translate=tr))
    ncases += [c02_nexus.gen_case(ctx.rng, maxleaves) for _ in range(200 if tier == "quick" else 3000)]
    for c in ncases:
        ctx.count("nexus:translate" if c["translate"] else "nexus:plain")
        if any(l.isdigit() for l in c["ns"]):
            ctx.count("nexus:numeric-labels")
    core.corr_stage(ctx, ncases, c02_nexus.observe, c02_nexus.to_coq, c02_nexus.HEADER, "ncase_ok", oracle=c02_nexus.oracle,
                    show_fn="ncase_show", nontrivial=c02_nexus.nontrivial, search=search, shard=250,
                    label="nexus correspondence", sample_fn=c02_nexus.sample_fn)
    # NeXML at element level: Model/C02Nexml.v vs NexmlWriter/NexmlReader (XML text layer trusted)
    from dv import c02_nexml
    xcases = [c02_nexml.gen_case(ctx.rng, maxleaves) for _ in range(150 if tier == "quick" else 2000)]
    ctx.count("nexml:cases", len(xcases))
    core.corr_stage(ctx, xcases, c02_nexml.observe, c02_nexml.to_coq, c02_nexml.HEADER, "xcase_ok", oracle=c02_nexml.oracle,
                    show_fn="xcase_show", nontrivial=c02_nexml.nontrivial, search=search, shard=250,
                    label="xmlelement correspondence", sample_fn=c02_nexml.sample_fn)
    # metadata: rooting state, tree weights, annotations, comments: Model/C02Meta.v + C02MetaAnn.v vs NewickWriter/NewickReader
    from dv import c02_meta
    mcases = list(c02_meta.witness_cases())
    mcases += [c02_meta.gen_case(ctx.rng, maxleaves) for _ in range(250 if tier == "quick" else 4000)]
    for c in mcases:
        ctx.count("meta:" + c["kind"])
        if c["kind"] == "meta":
            for k in ("store_tree_weights", "suppress_item_comments", "suppress_annotations"):
                if k in c["wkw"]:
                    ctx.count("meta:w:" + k)
            ctx.count("meta:extract" if c["r_extract"] else "meta:no-extract")
            ctx.count("meta:safe-texts" if c.get("safe") else "meta:tricky-texts")
    core.corr_stage(ctx, mcases, c02_meta.observe, c02_meta.to_coq, c02_meta.HEADER, "mcase_ok", oracle=c02_meta.oracle,
                    show_fn="mcase_show", nontrivial=c02_meta.nontrivial, search=search, shard=250,
                    label="metadata correspondence", sample_fn=c02_meta.sample_fn)
    # read-back ROUTES and reading HISTORIES: every documented reader entry point on every written document, lazy iterators
    # interleaved with other reads (py/dv/c02_routes.py, Model/C02Routes.v)
    from dv import c02_routes
    rcases = list(c02_routes.witness_cases())
    rcases += [c02_routes.gen_case(ctx.rng, min(maxleaves, 8)) for _ in range(120 if tier == "quick" else 2000)]
    for c in rcases:
        c02_routes.count_case(ctx, c)
    core.corr_stage(ctx, rcases, c02_routes.observe, c02_routes.to_coq, c02_routes.HEADER, "rcase_ok", oracle=c02_routes.oracle,
                    show_fn="rcase_show", nontrivial=c02_routes.nontrivial, search=search, shard=40,
                    label="routes correspondence", sample_fn=c02_routes.sample_fn)
    return ctx.finish(
        level="proof",
        rule="random rose trees (1-8 leaves quick / 1-20 thorough, unifurcations, single nodes, 1-3 trees per list) x labels biased to "
             "()[]{}/\\,;:=*'\"`+-<>_ space tab, digits-only, mixed case, non-ASCII; lengths None/0/ints/scientific floats; rooting "
             "True/False/None; option pairs (default), (unquoted_underscores+preserve_underscores), preserve_spaces, both; thorough adds every "
             "ordered shape with <=5 leaves x 3 rooting/option settings with fixed tricky labels; 30% reader-only "
             "texts (token soup, grammar with blanks/comments, perturbed statements); fixed witness cases. Non-trivial: >=3 nodes and a "
             "label with a special or non-ASCII character (round trip), text of >=4 characters (reader-only); distinct by content. "
             "Metadata stage: the same trees decorated with weights (None / floats / ints / Fractions), tree, node and edge comments and annotations "
             "(str / int / bool / lists; 70% from a safe alphabet, 30% with & = , { } \" : / [ ] quotes, rooting- and weight-like texts), writer options "
             "store_tree_weights / suppress_item_comments / suppress_annotations, reader store_tree_weights (10% mismatched) and extract_comment_metadata; "
             "30% reader-only texts full of weight / rooting / metadata-like comments (FigTree and NHX forms); fixed probes incl. the _refuted witnesses and 48 "
             "single-node trees under the enumerated options; non-trivial: >=2 nodes and some weight/comment/annotation. "
             "Routes stage: 1-2 written documents (Newick / NEXUS / NEXUS+TRANSLATE / NeXML, half with decimal-integer labels that are other taxa's "
             "positions, extra trees introducing them late) read back through TreeList.get, TreeList.read, Tree.get(tree_offset=k) for every k, DataSet.get, "
             "Tree.yield_from_files (file object, path, without namespace, schema nexus/newick) and TreeArray.read, alone and in histories of 2-3 lazy "
             "iterators advanced in random interleavings with eager reads in between; all delivered trees re-observed after every step; fixed cases: "
             "integer labels out of order, two documents iterated in step, a parse inside the loop; non-trivial: >=3 nodes")
