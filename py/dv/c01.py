"""C01 - bipartition encoding is exact, canonical and sufficient to rebuild the topology."""
import itertools
import json
import random
import time

from dv import core, trees, c01_hist
from dv.core import cz, cbool, clist, copt, cpair

HEADER = ("From DV Require Import Model.PyPrims Model.Tree Model.C01Model Model.C01GenPrims Model.C01ObjModel.\n"
          "From Coq Require Import ZArith. Open Scope Z_scope.")

ROOTINGS = (True, False, None)
VIA_OPS = ("reroot_at_node", "reroot_at_edge", "reseed_at", "to_outgroup_position", "prune_taxa", "retain_taxa",
           "prune_subtree")


# ----------------------------------------------------------------------------------------------
# case generation
# ----------------------------------------------------------------------------------------------

def gen_ns_params(rng, ntaxa):
    mode = rng.choice(["plain", "holes", "extra", "sorted", "all", "holes", "all"])
    p = {"ntaxa": ntaxa, "holes": 0, "extra": 0, "sort": False, "seed": rng.randrange(10 ** 9)}
    if mode in ("holes", "all"):
        p["holes"] = rng.randint(1, 4)
    if mode in ("extra", "all"):
        p["extra"] = rng.randint(1, 4)
    if mode in ("sorted", "all"):
        p["sort"] = True
    return p


def build_ns(p):
    return trees.make_namespace(p["ntaxa"], random.Random(p["seed"]), holes=p["holes"],
                                extra=p["extra"], sort=p["sort"])


def gen_enc_case(rng, maxleaves=40, clean=False):
    n = rng.choice([1, 1, 2, 2, 3, 3, 4, 5, 6, 7, 8]) if rng.random() < 0.35 else rng.randint(1, maxleaves)
    shape = rng.choice(["binary", "poly", "mixed", "caterpillar", "star", "mixed"])
    unif = rng.choice([0.0, 0.0, 0.15, 0.4])
    lengths = rng.choice(["mixed", "dyadic", "none"])
    t = trees.gen_tree(rng, n, shape=shape, lengths=lengths, unifurcations=unif)
    dirty = "clean"
    if not clean and rng.random() < 0.12:
        lv = trees.leaves(t)
        k = rng.random()
        if k < 0.5:
            rng.choice(lv)["taxon"] = None
            dirty = "taxonless-leaf"
        elif len(lv) >= 2:
            a, b = rng.sample(lv, 2)
            a["taxon"] = b["taxon"]
            dirty = "duplicate-taxon"
    probes = [rng.getrandbits(n + 6) for _ in range(rng.randint(0, 3))]
    case = {"kind": "enc", "tree": t, "rooted": rng.choice(ROOTINGS), "ns": gen_ns_params(rng, n),
            "twice": rng.random() < 0.3, "probes": probes, "shape": shape, "dirty": dirty, "unif": unif > 0,
            "su": rng.random() < 0.75, "cb": rng.random() < 0.75, "hist": [], "via": None,
            "ss": False, "mut": False, "entry": "encode_bipartitions"}
    if rng.random() < 0.25:
        # the documented keywords suppress_storage / is_bipartitions_mutable, the entry point update_bipartitions
        case["ss"] = rng.random() < 0.6
        case["mut"] = rng.random() < 0.4
        case["entry"] = rng.choice(["encode_bipartitions", "update_bipartitions"])
    k = rng.random()
    if k < 0.15:
        # namespace history before the tree is encoded: bits get cached (taxon_bitmask / an encoded tree),
        # members are removed and the SAME Taxon objects added back (new accession index)
        h = []
        for _ in range(rng.randint(1, 4)):
            x = rng.randrange(n)
            h.append(rng.choice([["cache", x], ["cache", x], ["encode"], ["readd", x], ["readd", x], ["readd", x]]))
        case["hist"] = h
    elif k < 0.40 and dirty == "clean" and n >= 3 and unif == 0.0:
        # the encoding is produced by an operation called with update_bipartitions=True
        for nd in trees.preorder(t):
            nd["len"] = None
        case["via"] = [rng.choice(VIA_OPS), rng.randrange(10 ** 6)]
        case["twice"] = False
        case["su"] = case["cb"] = True
        case["ss"] = case["mut"] = False
        case["entry"] = "encode_bipartitions"
    return case


def gen_bits_case(rng):
    w = rng.choice([3, 4, 5, 6, 8, 12, 20, 45])
    f = rng.getrandbits(w)
    a = rng.getrandbits(w)
    b = rng.getrandbits(w)
    k = rng.random()
    if k < 0.25:
        a &= f
        b &= f
    elif k < 0.35:
        a = f
    elif k < 0.45:
        b = f & ~a
    elif k < 0.55:
        a, b, f = -a, b, f
    elif k < 0.6:
        a, b, f = a, -b, -f
    return {"kind": "bits", "a": a, "b": b, "f": f}


def gen_bip_case(rng):
    w = rng.choice([3, 4, 5, 6, 8, 12, 30])
    f = rng.getrandbits(w) | (1 << rng.randrange(w))
    a = rng.getrandbits(w)
    b = rng.getrandbits(w)
    k = rng.random()
    if k < 0.3:
        a &= f
        b &= f
    elif k < 0.4:
        b = f & ~a
    elif k < 0.5:
        b = a | (rng.getrandbits(w) & f)
    return {"kind": "bip", "a": a, "b": b, "f": f, "rooted": rng.choice(ROOTINGS)}


def gen_from_case(rng, maxleaves=30, source=None):
    """rebuild from the (shuffled) encoding of a tree with distinct member taxa, or from random masks"""
    enc = source or gen_enc_case(rng, maxleaves, clean=True)
    mode = rng.choice(["tree", "tree", "tree", "tree+noise", "random"])
    return {"kind": "from", "tree": enc["tree"], "rooted": enc["rooted"], "ns": enc["ns"], "mode": mode,
            "shuffle": rng.randrange(10 ** 9), "shape": enc.get("shape", "?")}


# ----------------------------------------------------------------------------------------------
# observation of the real library
# ----------------------------------------------------------------------------------------------

def setup_tree(case):
    ns, objs = build_ns(case["ns"])
    tree, by_id = trees.build_dendropy(case["tree"], objs, is_rooted=case["rooted"], namespace=ns)
    tindex = {id(o): k for k, o in enumerate(objs)}
    for op in case.get("hist") or []:
        if op[0] == "cache":
            ns.taxon_bitmask(objs[op[1]])
        elif op[0] == "encode":
            import dendropy
            other = dendropy.Tree(taxon_namespace=ns)
            for o in objs[:len(trees.leaves(case["tree"]))]:
                other.seed_node.new_child(taxon=o)
            other.encode_bipartitions()
        elif op[0] == "readd":
            ns.remove_taxon(objs[op[1]])
            ns.add_taxon(objs[op[1]])
    acc = [[k, ns.accession_index(o)] for k, o in enumerate(objs)]
    return ns, objs, tree, tindex, acc


def apply_via(tree, via, tindex):
    """an operation that is asked to leave up-to-date bipartitions behind"""
    rng = random.Random(via[1])
    op = via[0]
    internal = [nd for nd in tree.preorder_node_iter() if nd._child_nodes and nd is not tree.seed_node]
    nonseed = [nd for nd in tree.preorder_node_iter() if nd is not tree.seed_node]
    leaves = [nd for nd in tree.leaf_node_iter()]
    if op in ("reroot_at_node", "reseed_at"):
        if not internal:
            return "n/a"
        getattr(tree, op)(rng.choice(internal), update_bipartitions=True)
    elif op == "reroot_at_edge":
        if not internal:
            return "n/a"
        tree.reroot_at_edge(rng.choice(internal).edge, update_bipartitions=True)
    elif op == "to_outgroup_position":
        tree.to_outgroup_position(rng.choice(nonseed), update_bipartitions=True)
    elif op in ("prune_taxa", "retain_taxa"):
        k = rng.randint(1, max(1, len(leaves) - 2))
        chosen = [nd.taxon for nd in rng.sample(leaves, k)]
        if op == "retain_taxa":
            chosen = [nd.taxon for nd in leaves if nd.taxon not in chosen]
        getattr(tree, op)(chosen, update_bipartitions=True)
    elif op == "prune_subtree":
        cand = [nd for nd in nonseed if len(list(nd.leaf_iter())) <= len(leaves) - 2]
        if not cand:
            return "n/a"
        tree.prune_subtree(rng.choice(cand), update_bipartitions=True)
    else:
        raise ValueError(op)
    return "done"


def observe_enc(case):
    import dendropy
    from dendropy.datamodel.treemodel import Bipartition
    ns, objs, tree, tindex, acc = setup_tree(case)
    kw = {"suppress_unifurcations": case.get("su", True),
          "collapse_unrooted_basal_bifurcation": case.get("cb", True)}
    if case.get("ss"):
        kw["suppress_storage"] = True
    if case.get("mut"):
        kw["is_bipartitions_mutable"] = True
    entry = case.get("entry", "encode_bipartitions")
    via_done = None
    ret = None
    try:
        if case.get("via"):
            via_done = apply_via(tree, case["via"], tindex)
            if via_done == "n/a":
                tree.encode_bipartitions()
        else:
            ret = getattr(tree, entry)(**kw)
            if case["twice"]:
                ret = getattr(tree, entry)(**kw)
    except Exception as e:
        return {"error": core.exc_enum(e), "acc": acc, "via_done": via_done}
    stored = tree.bipartition_encoding
    storage = ["none" if stored is None else "list",
               "none" if ret is None else ("stored" if ret is stored else "other")]
    spec, problems = trees.dump_dendropy(tree, tindex)

    def masks(b):
        if b is None:
            return [-1, -1]
        return [b.leafset_bitmask if b.leafset_bitmask is not None else -1,
                b.split_bitmask if b.split_bitmask is not None else -1]
    # read from the edges BEFORE anything that may encode again (split_bitmask_edge_map does so when no list is stored)
    edges = [[e.head_node._dv_id] + masks(e._bipartition) for e in tree.postorder_edge_iter()]
    edge_flags = [[b.is_rooted, b.is_mutable, b.tree_leafset_bitmask]
                  for b in (e._bipartition for e in tree.postorder_edge_iter()) if b is not None]
    enc = [masks(b) for b in (tree.bipartition_encoding or [])]
    # decoding the stored leafsets through the namespace
    decoded = []
    for e in tree.postorder_edge_iter():
        try:
            decoded.append(sorted(tindex.get(id(x), -1) for x in e.bipartition.leafset_taxa(ns)))
        except Exception as ex:
            decoded.append("raised " + core.exc_enum(ex))
    flags = sorted(set(tuple(f) for f in edge_flags), key=repr)
    tree_mask = tree.seed_node.edge.bipartition.leafset_bitmask
    probes = []
    if tree_mask and not case.get("ss"):         # without a stored list the probe would encode again
        for a in case["probes"]:
            bip = Bipartition(leafset_bitmask=a, tree_leafset_bitmask=tree_mask, is_rooted=tree.is_rooted)
            probes.append([a, bool(tree.is_compatible_with_bipartition(bip, is_bipartitions_updated=True)),
                           bip.split_bitmask])
    try:
        # mutable bipartitions are unhashable by design; without a stored list the map encodes again
        keys = None if (case.get("ss") or case.get("mut")) else sorted(tree.split_bitmask_edge_map.keys())
    except Exception as e:   # seen: tree without any taxon (tree mask 0) keeps mutable bipartitions -> unhashable
        keys = "raised " + core.exc_enum(e)
    return {"via_done": via_done, "decoded": decoded, "storage": storage,
            "tree": spec, "problems": problems, "edges": edges, "enc": enc, "rooted": tree.is_rooted,
            "acc": acc, "probes": probes, "map_keys": keys, "flags": [list(f) for f in flags]}


def observe_bits(case):
    from dendropy.utility import bitprocessing as bp
    from dendropy.datamodel.treemodel import Bipartition as B
    a, b, f = case["a"], case["b"], case["f"]
    return {"lsb": bp.least_significant_set_bit(a), "popcount": bp.num_set_bits(a),
            "norm": B.normalize_bitmask(a, f, bp.least_significant_set_bit(f)),
            "trivial": bool(B.is_trivial_bitmask(a, f)), "trivial_leafset": bool(B.is_trivial_leafset(a)),
            "compat": bool(B.is_compatible_bitmasks(a, b, f))}


def observe_bip(case):
    from dendropy.datamodel.treemodel import Bipartition as B
    a, b, f, r = case["a"], case["b"], case["f"], case["rooted"]
    b1 = B(leafset_bitmask=a, tree_leafset_bitmask=f, is_rooted=r)
    b2 = B(leafset_bitmask=b, tree_leafset_bitmask=f, is_rooted=r)
    return {"b1": [b1.leafset_bitmask, b1.split_bitmask], "b2": [b2.leafset_bitmask, b2.split_bitmask],
            "trivial": bool(b1.is_trivial()), "compat": bool(b1.is_compatible_with(b2)),
            "compat_int": bool(b1.is_compatible_with(b)),
            "nested": bool(b1.is_nested_within(b2)),
            "nested_masked": bool(b1.is_nested_within(b2, is_other_masked_for_tree_leafset=True)),
            "leafset_nested": bool(b1.is_leafset_nested_within(b2)),
            "leafset_nested_int": bool(b1.is_leafset_nested_within(b))}


def dump_mtree(node, tindex):
    kids = [dump_mtree(c, tindex) for c in node._child_nodes]
    tx = None
    if node.taxon is not None and not kids:
        tx = tindex.get(id(node.taxon), -1)
    return [node.edge.bipartition.leafset_bitmask, tx, kids]


def observe_from(case):
    import dendropy
    ns, objs, tree, tindex, acc = setup_tree(case)
    tree.encode_bipartitions()
    rng = random.Random(case["shuffle"])
    enc = list(tree.bipartition_encoding)
    count = ns._current_accession_count
    if case["mode"] == "random":
        splits = [rng.getrandbits(count + 1) for _ in range(rng.randint(0, 12))]
        bips = None
    else:
        rng.shuffle(enc)
        bips = enc
        splits = [b.split_bitmask for b in enc]
        if case["mode"] == "tree+noise":
            for _ in range(rng.randint(1, 5)):
                splits.insert(rng.randint(0, len(splits)), rng.getrandbits(count + 1))
            bips = None
    nslist = [[tindex[id(t)], ns.accession_index(t)] for t in ns]
    out = {"ns": nslist, "count": count, "splits": splits, "rooted": tree.is_rooted,
           "orig": trees.dump_dendropy(tree, tindex)[0]}
    try:
        t2 = dendropy.Tree.from_split_bitmasks(splits, taxon_namespace=ns, is_rooted=tree.is_rooted)
        out["result"] = dump_mtree(t2.seed_node, tindex)
        out["result_rooted"] = t2.is_rooted
        if bips is not None:
            t3 = dendropy.Tree.from_bipartition_encoding(bips, taxon_namespace=ns, is_rooted=tree.is_rooted)
            out["result_bips"] = dump_mtree(t3.seed_node, tindex)
    except Exception as e:
        out["error"] = "%s: %s" % (core.exc_enum(e), e)
        out["result"] = [-1, None, []]
    return out


def observe(case):
    if case["kind"] == "hist":
        return c01_hist.observe_hist(case, setup_tree, dump_mtree)
    return {"enc": observe_enc, "bits": observe_bits, "bip": observe_bip, "from": observe_from}[case["kind"]](case)


# ----------------------------------------------------------------------------------------------
# oracle: the property stated naively on the implementation's observation
# ----------------------------------------------------------------------------------------------

def bits_of(m):
    return frozenset(i for i in range(m.bit_length()) if (m >> i) & 1)


def spec_leaf_bits(t, acc):
    """set of accession indices of the taxa on the leaves below t (naive recursion)"""
    if not t["kids"]:
        return frozenset() if t["taxon"] is None else frozenset([acc[t["taxon"]]])
    s = frozenset()
    for k in t["kids"]:
        s |= spec_leaf_bits(k, acc)
    return s


def spec_clades(t, acc, out):
    s = spec_leaf_bits(t, acc)
    out.append(s)
    for k in t["kids"]:
        spec_clades(k, acc, out)
    return out


def nested(t, acc):
    """canonical rooted topology: unifurcations suppressed, children as a frozenset (multiset-safe
    because leaves carry distinct taxa when this is used)"""
    if not t["kids"]:
        return ("leaf", None if t["taxon"] is None else acc[t["taxon"]])
    if len(t["kids"]) == 1:
        return nested(t["kids"][0], acc)
    ks = [nested(k, acc) for k in t["kids"]]
    return frozenset(ks) if len(set(ks)) == len(ks) else tuple(sorted(ks, key=repr))


def usplits(t, acc):
    """unrooted splits of the spec tree as a set of frozenset({side, other side})"""
    allb = spec_leaf_bits(t, acc)
    return set(frozenset([c, allb - c]) for c in spec_clades(t, acc, []))


def set_compatible(A, B, F, rooted):
    A, B = A & F, B & F
    if not (A & B) or A <= B or B <= A:
        return True
    return (not rooted) and (A | B) == F


def oracle_enc(case, obs):
    if "error" in obs:
        return ("encode_bipartitions raised %s" % obs["error"], "encode-raises")
    acc = dict((k, v) for k, v in obs["acc"])
    if obs["problems"]:
        return ("tree is ill-formed after encode_bipartitions: %s" % obs["problems"][:3], "structure-problems")
    out = obs["tree"]
    by_id = {n["id"]: n for n in trees.preorder(out)}
    post_ids = [n["id"] for n in trees.postorder(out)]
    if [e[0] for e in obs["edges"]] != post_ids:
        return ("edges with bipartitions are not the post-order edges of the tree", "edge-order")
    S = spec_leaf_bits(out, acc)
    via = case.get("via") and obs.get("via_done") == "done"
    tag = ("after %s(update_bipartitions=True): " % case["via"][0]) if via else \
          (("after namespace history %s: " % case["hist"]) if case.get("hist") else "")
    kwk = ""
    if case.get("ss"):
        tag += "%s(suppress_storage=True), bipartitions read from the edges: " % case.get("entry")
        kwk = ":suppress_storage"
    elif case.get("mut") or case.get("entry", "encode_bipartitions") != "encode_bipartitions":
        tag += "%s(is_bipartitions_mutable=%s): " % (case.get("entry"), case.get("mut"))
        kwk = ":" + case.get("entry") + ("-mutable" if case.get("mut") else "")
    if not case.get("via") and "storage" in obs:
        want_storage = ["none", "none"] if case.get("ss") else \
            ["list", "none" if case.get("entry") == "update_bipartitions" else "stored"]
        if obs["storage"] != want_storage:
            return (tag + "bipartition_encoding / return value are %s, documented %s" % (obs["storage"], want_storage),
                    "storage-keyword")
    if not via and S != spec_leaf_bits(case["tree"], acc):
        return ("leaf taxa changed by encode_bipartitions", "leaf-taxa-changed")
    rooted_after = obs["rooted"]
    low = min(S) if S else None
    for nid, ls, sp in obs["edges"]:
        want = spec_leaf_bits(by_id[nid], acc)
        if ls < 0 or bits_of(ls) != want:
            return (tag + "leafset bitmask %s of edge %d is not the taxa below it %s (bits by accession_index now)"
                    % (bin(ls), nid, sorted(want)), "leafset-not-exact" + kwk)
        if rooted_after:
            wsp = want
        else:
            wsp = (S - want) if (low is not None and low in want) else want
        if sp < 0 or bits_of(sp) != wsp:
            return (tag + "split bitmask %s of edge %d (leafset %s, tree leaf bits %s, rooted=%s) is not %s"
                    % (bin(sp), nid, sorted(want), sorted(S), rooted_after, sorted(wsp)), "split-not-normalised" + kwk)
    for (nid, _ls, _sp), dec in zip(obs["edges"], obs.get("decoded", [])):
        below = sorted(set(n["taxon"] for n in trees.leaves(by_id[nid]) if n["taxon"] is not None))
        if dec != below:
            return (tag + "leafset_taxa() of edge %d gives %s, the taxa below are %s" % (nid, dec, below),
                    "leafset-taxa-decoding")
    if via:
        # an operation may reorder children after it has encoded (to_outgroup_position): same bipartitions
        if sorted(obs["enc"]) != sorted([ls, sp] for _n, ls, sp in obs["edges"]):
            return (tag + "bipartition_encoding does not hold the bipartitions of the tree's edges", "encoding-list")
    elif not case.get("ss") and obs["enc"] != [[ls, sp] for _n, ls, sp in obs["edges"]]:
        return ("bipartition_encoding is not the list of the tree's edge bipartitions in post-order", "encoding-list")
    if obs["map_keys"] is None:
        pass
    elif isinstance(obs["map_keys"], str):
        if S:
            return ("split_bitmask_edge_map %s on a tree with taxa" % obs["map_keys"], "edge-map-raises")
        # a tree without any taxon: compile_split_bitmask returns early and leaves every bipartition
        # mutable (unhashable); outside the property's domain (no taxa to encode), recorded in the notes
    elif sorted(set(sp for _n, _l, sp in obs["edges"])) != obs["map_keys"]:
        return ("split_bitmask_edge_map keys differ from the edges' split bitmasks", "edge-map-keys")
    if case.get("su", True) and any(len(n["kids"]) == 1 for n in trees.preorder(out)):
        return ("unifurcation left after encode_bipartitions", "unifurcation-left")
    r0 = case["rooted"]
    if via:
        return None       # the operation legitimately changes structure / rooting; masks were checked above
    if rooted_after != r0 and not (r0 is None and rooted_after is False):
        return ("is_rooted changed from %s to %s" % (r0, rooted_after), "rooting-flag")
    if case["dirty"] == "clean":
        if r0:
            if nested(out, acc) != nested(case["tree"], acc):
                return ("rooted topology changed by encode_bipartitions", "topology-changed")
        elif usplits(out, acc) != usplits(case["tree"], acc):
            return ("unrooted topology changed by encode_bipartitions", "topology-changed")
    # tree-level compatibility probes
    enc_sets = [bits_of(sp) for _n, _l, sp in obs["edges"]]
    for a, got, bsplit in (obs["probes"] if case["dirty"] == "clean" else []):
        A = bits_of(bsplit)
        want = all(set_compatible(E, A, S, bool(rooted_after)) for E in enc_sets)
        if got != want:
            return ("is_compatible_with_bipartition(split %s) = %s on tree with splits %s"
                    % (bin(bsplit), got, [bin(sp) for _n, _l, sp in obs["edges"]]), "tree-compatible")
    return None


def oracle_bits(case, obs):
    a, b, f = case["a"], case["b"], case["f"]
    if a > 0:
        if obs["lsb"] != 1 << min(bits_of(a)):
            return ("least_significant_set_bit(%d) = %d" % (a, obs["lsb"]), "lsb")
        if obs["popcount"] != len(bits_of(a)):
            return ("num_set_bits(%d) = %d" % (a, obs["popcount"]), "popcount")
        if obs["trivial_leafset"] != (len(bits_of(a)) == 1):
            return ("is_trivial_leafset(%d) = %s" % (a, obs["trivial_leafset"]), "trivial-leafset")
    if a >= 0 and f > 0:
        A, F = bits_of(a), bits_of(f)
        low = min(F)
        want = (F - A) if low in A else (A & F)
        if obs["norm"] < 0 or bits_of(obs["norm"]) != want:
            return ("normalize_bitmask(%d, %d, lsb) = %d" % (a, f, obs["norm"]), "normalize")
        wt = len(A & F) <= 1 or len(F - A) <= 1 or a == 0 or a == f
        if obs["trivial"] != wt:
            return ("is_trivial_bitmask(%d, %d) = %s" % (a, f, obs["trivial"]), "trivial")
    if a >= 0 and b >= 0 and f > 0:
        A, B, F = bits_of(a) & bits_of(f), bits_of(b) & bits_of(f), bits_of(f)
        want = set_compatible(A, B, F, False)
        if obs["compat"] != want:
            if want and (A | B) == F:
                return ("Bipartition.is_compatible_bitmasks(%s, %s, %s) is False although the two sides "
                        "cover fill (same splits written from their other sides are accepted)"
                        % (bin(a), bin(b), bin(f)), "compat-union-case:is_compatible_bitmasks")
            return ("is_compatible_bitmasks(%d, %d, %d) = %s" % (a, b, f, obs["compat"]), "compatible")
    return None


def oracle_bip(case, obs):
    a, b, f, r = case["a"], case["b"], case["f"], case["rooted"]
    F = bits_of(f)
    low = min(F)

    def mk(x):
        L = bits_of(x) & F
        return L, (L if r else ((F - L) if low in L else L))
    (L1, S1), (L2, S2) = mk(a), mk(b)
    for name, (L, S), got in (("b1", (L1, S1), obs["b1"]), ("b2", (L2, S2), obs["b2"])):
        if got[0] < 0 or got[1] < 0 or bits_of(got[0]) != L or bits_of(got[1]) != S:
            return ("Bipartition(leafset=%d, tree_leafset=%d, rooted=%s) has leafset %d split %d"
                    % (a if name == "b1" else b, f, r, got[0], got[1]), "bip-construct")
    if obs["trivial"] != (len(S1) <= 1 or len(F - S1) <= 1):
        return ("is_trivial() = %s for split %s in %s" % (obs["trivial"], sorted(S1), sorted(F)), "bip-trivial")
    if obs["compat"] != set_compatible(S1, S2, F, bool(r)):
        return ("is_compatible_with(Bipartition) = %s for %s, %s in %s rooted=%s"
                % (obs["compat"], sorted(S1), sorted(S2), sorted(F), r), "bip-compatible")
    B = bits_of(b) & F
    want = set_compatible(S1, B, F, bool(r))
    if obs["compat_int"] != want:
        if want and (S1 | B) == F:
            return ("Bipartition.is_compatible_with(int %s) is False for split %s of %s although the int's "
                    "other side %s is nested in / disjoint from it" % (bin(b), bin(obs["b1"][1]), bin(f),
                                                                      sorted(F - B)),
                    "compat-union-case:is_compatible_with(int)")
        return ("is_compatible_with(int) = %s" % obs["compat_int"], "bip-compatible-int")
    m1, m2 = ((L1, L2) if r else (S1, S2))
    if obs["nested"] != (m1 <= m2) or obs["nested_masked"] != (m1 <= m2):
        return ("is_nested_within = %s/%s for %s, %s" % (obs["nested"], obs["nested_masked"], sorted(m1), sorted(m2)),
                "bip-nested")
    if obs["leafset_nested"] != (L1 <= L2) or obs["leafset_nested_int"] != (L1 <= B):
        return ("is_leafset_nested_within = %s/%s" % (obs["leafset_nested"], obs["leafset_nested_int"]),
                "bip-leafset-nested")
    return None


def m_leafbits(m, acc):
    if not m[2]:
        return frozenset() if m[1] is None else frozenset([acc[m[1]]])
    s = frozenset()
    for k in m[2]:
        s |= m_leafbits(k, acc)
    return s


def m_nodes(m):
    out = [m]
    for k in m[2]:
        out.extend(m_nodes(k))
    return out


def oracle_from(case, obs):
    if "error" in obs:
        return ("from_split_bitmasks raised %s" % obs["error"], "from-splits-raises")
    if "result_bips" in obs and obs["result_bips"] != obs["result"]:
        return ("from_bipartition_encoding and from_split_bitmasks build different trees", "from-bips-differs")
    acc = dict((k, v) for k, v in obs["ns"])
    res = obs["result"]
    ALL = frozenset(acc.values())
    for nd in m_nodes(res):
        if bits_of(nd[0]) != m_leafbits(nd, acc):
            return ("stored leafset mask of a rebuilt node is not its leaf set", "from-mask")
    if m_leafbits(res, acc) != ALL or sum(1 for nd in m_nodes(res) if not nd[2]) != len(ALL):
        return ("rebuilt tree does not carry every namespace taxon exactly once", "from-taxa")
    if case["mode"] != "tree":
        return None
    orig = obs["orig"]
    S = spec_leaf_bits(orig, acc)
    got_clades = set(m_leafbits(nd, acc) for nd in m_nodes(res))
    if obs["rooted"]:
        want = set(c for c in spec_clades(orig, acc, []))
        nontriv = lambda cs: set(c for c in cs if len(c) >= 2 and c != ALL)
        if nontriv(got_clades) != nontriv(want):
            return ("tree rebuilt from the shuffled rooted encoding has clades %s, the tree has %s"
                    % (sorted(map(sorted, nontriv(got_clades))), sorted(map(sorted, nontriv(want)))), "from-topology")
    else:
        want = set(s for s in usplits(orig, acc) if all(len(x) >= 2 for x in s))
        got = set()
        for c in got_clades:
            s = frozenset([c & S, S - c])
            if len(s) == 2 and all(len(x) >= 2 for x in s):
                got.add(s)
        if got != want:
            return ("tree rebuilt from the shuffled unrooted encoding has a different split set on the tree's taxa",
                    "from-topology")
    # taxa of the namespace that are not on the tree hang off the root
    extra = ALL - S
    rootkids = [k for k in res[2] if not k[2]]
    if not extra <= set(b for k in rootkids for b in m_leafbits(k, acc)) and len(ALL) > 1:
        return ("namespace members that are not on the tree are not children of the root", "from-extra")
    return None


def oracle(case, obs):
    if case["kind"] == "hist":
        return c01_hist.oracle_hist(case, obs, spec_leaf_bits, bits_of, oracle_from)
    return {"enc": oracle_enc, "bits": oracle_bits, "bip": oracle_bip, "from": oracle_from}[case["kind"]](case, obs)


# ----------------------------------------------------------------------------------------------
# Coq terms
# ----------------------------------------------------------------------------------------------

def c_ob(x):
    return copt(x, cbool)


def c_mtree(m):
    return "(M %s %s %s)" % (cz(m[0]), copt(m[1], cz), clist([c_mtree(k) for k in m[2]]))


def to_coq(case, obs):
    if case["kind"] == "hist":
        return "(XHist %s)" % c01_hist.to_coq_hist(case, obs)
    return "(XBase %s)" % to_coq_base(case, obs)


def to_coq_base(case, obs):
    k = case["kind"]
    if k == "enc":
        acc = clist([cpair(cz(a), cz(b)) for a, b in obs["acc"]])
        if "error" in obs:
            exp = "(mkEnc (T (-1) None None None []) None [] [])"
            probes = "[]"
        else:
            exp = "(mkEnc %s %s %s %s)" % (
                trees.c_tree(obs["tree"]), c_ob(obs["rooted"]),
                clist([cpair(cz(n), cpair(cz(l), cz(s))) for n, l, s in obs["edges"]]),
                # suppress_storage: no list is stored (checked by the oracle and, object level, by the history cases)
                clist([cpair(cz(l), cz(s)) for l, s in (obs["enc"] if not case.get("ss") else
                                                        [[l, s] for _n, l, s in obs["edges"]])]))
            probes = clist([cpair(cz(a), cbool(g)) for a, g, _s in obs["probes"]])
        if case.get("via") and obs.get("via_done") == "done" and "error" not in obs:
            exp = "(mkEnc %s %s %s %s)" % (
                trees.c_tree(obs["tree"]), c_ob(obs["rooted"]),
                clist([cpair(cz(n), cpair(cz(l), cz(s))) for n, l, s in obs["edges"]]),
                clist([cpair(cz(l), cz(s)) for _n, l, s in obs["edges"]]))
            # stored bipartitions after the operation = a plain encoding of the tree as it is now
            return "(CEnc false false %s %s %s false %s [])" % (acc, c_ob(obs["rooted"]), trees.c_tree(obs["tree"]), exp)
        return "(CEnc %s %s %s %s %s %s %s %s)" % (cbool(case.get("su", True)), cbool(case.get("cb", True)),
                                                  acc, c_ob(case["rooted"]), trees.c_tree(case["tree"]),
                                            cbool(case["twice"]), exp, probes)
    if k == "bits":
        return "(CBits %s %s %s (mkBits %s %s %s %s %s %s))" % (
            cz(case["a"]), cz(case["b"]), cz(case["f"]), cz(obs["lsb"]), cz(obs["popcount"]), cz(obs["norm"]),
            cbool(obs["trivial"]), cbool(obs["trivial_leafset"]), cbool(obs["compat"]))
    if k == "bip":
        return "(CBip %s %s %s %s (mkBip %s %s %s %s %s %s %s %s %s))" % (
            cz(case["a"]), cz(case["b"]), cz(case["f"]), c_ob(case["rooted"]),
            cpair(cz(obs["b1"][0]), cz(obs["b1"][1])), cpair(cz(obs["b2"][0]), cz(obs["b2"][1])),
            cbool(obs["trivial"]), cbool(obs["compat"]), cbool(obs["compat_int"]), cbool(obs["nested"]),
            cbool(obs["nested_masked"]), cbool(obs["leafset_nested"]), cbool(obs["leafset_nested_int"]))
    if k == "from":
        return "(CFrom %s %s %s %s %s)" % (
            clist([cpair(cz(a), cz(b)) for a, b in obs["ns"]]), cz(obs["count"]), c_ob(obs["rooted"]),
            clist([cz(s) for s in obs["splits"]]), c_mtree(obs["result"]))
    raise ValueError(k)


def nontrivial(case, obs):
    k = case["kind"]
    if k == "enc":
        return "edges" in obs and len(obs["edges"]) >= 4
    if k == "hist":
        if case.get("supp"):
            # suppress_unifurcations(update_bipartitions=True) really removed a node from an encoded tree
            ne = [len(o["edges"]) for o in obs["steps"] if "edges" in o]
            return any(case["steps"][o["step"]][0] == "supp" and "edges" in o and o["step"] > 0
                       and len(o["edges"]) < len(obs["steps"][o["step"] - 1].get("edges", []))
                       for o in obs["steps"]) and max(ne or [0]) >= 4
        return sum(1 for o in obs["steps"] if "saved" in o and len(o["saved"]) >= 2) >= 1 and \
            any(len(o.get("edges", [])) >= 4 for o in obs["steps"])
    if k == "from":
        return len(obs.get("splits", [])) >= 3
    return True


def sample_fn(case, obs):
    if case["kind"] == "hist":
        return {"kind": "hist", "newick": trees.newick(case["tree"], with_len=False), "rooted": case["rooted"],
                "ns": case["ns"], "steps": case["steps"],
                "tokens_last_step": [r and r[0] for _n, r in (obs["steps"][-1].get("edges") or [])][:8]}
    if case["kind"] in ("enc", "from"):
        return {"kind": case["kind"], "newick": trees.newick(case["tree"], with_len=False), "rooted": case["rooted"],
                "ns": case["ns"], "observed_edges": (obs.get("edges") or obs.get("splits") or [])[:6]}
    return {"case": case, "observed": obs}


# ----------------------------------------------------------------------------------------------
# exhaustive small scope
# ----------------------------------------------------------------------------------------------

ACC_MAPS = (
    {"holes": 0, "extra": 0, "sort": False},
    {"holes": 2, "extra": 1, "sort": False},
    {"holes": 1, "extra": 2, "sort": True},
)


def exhaustive_cases(maxleaves=6):
    """every ordered shape (no unifurcations) with <= maxleaves leaves x every rooting x 3 accession
    maps; taxa assigned so that the lowest bit is not always the first leaf"""
    k = 0
    for n in range(1, maxleaves + 1):
        for shape in trees.all_shapes(n):
            for rooted in ROOTINGS:
                for am in ACC_MAPS:
                    k += 1
                    t = trees.shape_to_tree(shape)
                    lv = trees.leaves(t)
                    rot = k % n
                    for i, lf in enumerate(lv):
                        lf["taxon"] = (i + rot) % n
                    nsp = dict(am, ntaxa=n, seed=k)
                    enc = {"kind": "enc", "tree": t, "rooted": rooted, "ns": nsp, "twice": k % 5 == 0,
                           "su": k % 7 != 0, "cb": k % 3 != 0,
                           "probes": [(k * 2654435761) % (1 << (n + 3))], "shape": "exhaustive", "dirty": "clean",
                           "unif": False}
                    yield enc
                    yield {"kind": "from", "tree": t, "rooted": rooted, "ns": nsp, "mode": "tree",
                           "shuffle": k, "shape": "exhaustive"}


def gen_forced(rng, what):
    """an encode case that surely has a namespace history / goes through an update_bipartitions=True operation"""
    while True:
        c = gen_enc_case(rng, clean=(what == "via"))
        if what == "via" and c["via"]:
            return c
        if what == "hist" and c["hist"] and any(op[0] == "readd" for op in c["hist"]):
            return c
        if what == "kw" and (c.get("ss") or c.get("mut") or c.get("entry") != "encode_bipartitions"):
            return c


def gen_cases(ctx, rng, n_enc, n_from, n_bits, n_bip):
    cases = []
    for _ in range(n_enc):
        cases.append(gen_enc_case(rng))
    for _ in range(max(1, n_enc // 5)):
        cases.append(gen_forced(rng, "via"))
    for _ in range(max(1, n_enc // 8)):
        cases.append(gen_forced(rng, "hist"))
    for _ in range(n_from):
        cases.append(gen_from_case(rng))
    for i in range(max(2, n_enc // 3)):
        cases.append(c01_hist.gen_hist_case(rng, gen_ns_params, force_ss=(i % 5 == 0)))
    for _ in range(max(2, n_enc // 8)):
        cases.append(c01_hist.gen_supp_case(rng, gen_ns_params))
    for _ in range(n_bits):
        cases.append(gen_bits_case(rng))
    for _ in range(n_bip):
        cases.append(gen_bip_case(rng))
    return cases


def gen_hist_case(rng):
    if rng.random() < 0.35:
        return c01_hist.gen_supp_case(rng, gen_ns_params)
    return c01_hist.gen_hist_case(rng, gen_ns_params, force_ss=rng.random() < 0.2)


def search(ctx, budget_s):
    t0 = time.time()
    rng = random.Random(ctx.seed + 4242)
    n = 0
    hrng = random.Random(ctx.seed + 77)
    first = [gen_hist_case(hrng) for _ in range(90)] + [gen_forced(hrng, "kw") for _ in range(60)]
    for case in itertools.chain(first, exhaustive_cases(5), iter(lambda: None, 1)):
        if time.time() - t0 > budget_s or n > 60000:
            break
        if case is None:
            case = rng.choice([gen_enc_case, gen_from_case, gen_bits_case, gen_bip_case, gen_hist_case,
                               gen_hist_case])(rng)
        try:
            obs = observe(case)
        except Exception as e:
            ctx.violation("search: harness could not observe: %s" % e, {"case": case}, no_input=True)
            return
        v = oracle(case, obs)
        n += 1
        if v:
            ctx.violation(v[0], {"case": case, "observed": obs}, key=v[1])
            if ctx.violations:
                return
    ctx.notes.append("search: %d further cases through the oracle, no unlisted violation" % n)


def gen_overwritten():
    """True when coq/Gen/Bipartition.v is not what the translator derives from this run's source"""
    import os
    from dv import gen_bipartition, gen_bipartition_obj, gen_supp_obj
    for mod, name in ((gen_bipartition, "Bipartition.v"), (gen_bipartition_obj, "BipartitionObj.v"),
                      (gen_supp_obj, "SuppObj.v")):
        try:
            want = mod.generate(core.REPO)
        except Exception:
            continue              # fail-closed stub: handled by proof_stage
        try:
            with open(os.path.join(core.COQ, "Gen", name)) as f:
                if f.read() != want:
                    return True
        except OSError:
            return True
    return False


def run(tier, seed, replay=None):
    ctx = core.Ctx("C01", tier, seed)
    ctx.assumptions = [
        "coq/Model/C01Model.v is a hand transcription of encode_bipartitions / collapse_basal_bifurcation / "
        "from_split_bitmasks / Bipartition construction and predicates on rose trees; tied by this correspondence run",
        "the bit-level functions are the translated ones (coq/Gen/BitFns.v, regenerated from the source each run)",
        "encode_bipartitions (loop body, flags, second pass), compile_split_bitmask & co., the Bipartition predicates, taxon_bitmask / all_taxa_bitmask are ALSO translated from the AST on every run (coq/Gen/Bipartition.v) and proved equal to the model (Props/C01Gen.v); trusted there: the primitive semantics of coq/Model/C01GenPrims.v",
        "object level (coq/Model/C01ObjModel.v): Bipartition objects are store cells; edges, Tree.bipartition_encoding and the lists returned by earlier encodings refer to cells; encode_bipartitions / update_bipartitions (four keywords) are transcribed as to which object is created, bound, written in place and returned, and this reading is ALSO generated from the source's statements (py/dv/gen_bipartition_obj.py -> coq/Gen/BipartitionObj.v, proved equal to the model in Props/C01Gen.v; trusted there: coq/Model/C01ObjPrims.v - heap primitives, the property getter Edge.bipartition, map() as a lazy iterator consumed by list()/for; the statements of suppress_unifurcations that fill and use bipartitions_to_delete are generated too: py/dv/gen_supp_obj.py -> coq/Gen/SuppObj.v, trusted coq/Model/C01SuppPrims.v - a set keyed by id() or by Bipartition.__hash__/__eq__, truthiness); suppress_unifurcations(update_bipartitions=True) is transcribed as the filter of the stored list by object identity (obj_supp; the structure it leaves is taken from the observation); every other tree operation is modelled as a change of structure and rooting flag that leaves Edge._bipartition bindings and Bipartition attributes alone (the only writers in the library are encode_bipartitions and from_split_bitmasks on its own new tree; the history cases re-observe every object after every step)",
        "post-order stack traversal of encode_bipartitions is modelled by structural recursion (traversal order is C15's subject)",
        "every leaf taxon is a member of the tree's namespace (taxon_bitmask of a non-member raises KeyError)",
        "from_split_bitmasks: the leaf-to-root climb is modelled as the root-to-leaf descent to the deepest node covering the split (same node on masks that grow towards the root)",
        "a tree without any taxon (tree mask 0) keeps mutable bipartitions and split_bitmask_edge_map raises AssertionError: outside the property's domain, not flagged",
        "edge lengths are dyadic rationals for which binary64 addition is exact",
    ]
    if replay:
        r = json.load(open(replay))["replay"]
        case = r["case"]
        obs = observe(case)
        print("observed:", json.dumps(obs, default=str)[:3000])
        print("oracle:", oracle(case, obs))
        print("model:", core.show_cases("C01", HEADER, "xcase_show", [to_coq(case, obs)]))
        return 0
    ok = core.proof_stage(ctx, ["Props/C01.vo", "Props/C01Gen.vo"], gen_needed=("BitFns", "Bipartition", "SuppObj"))
    if gen_overwritten():
        # another check running concurrently regenerates coq/Gen from its own DV_REPO: build again
        ctx.notes.append("coq/Gen/Bipartition.v was overwritten by a concurrent run during the build; proof stage repeated")
        ctx.obligations = []
        ok = core.proof_stage(ctx, ["Props/C01.vo", "Props/C01Gen.vo"], gen_needed=("BitFns", "Bipartition", "SuppObj"))
        if gen_overwritten():
            ctx.obligation("coq/Gen/Bipartition.v stable during the build (no concurrent regeneration)", False)
            ok = False
    if ok:
        # second theorem file: the generated code (coq/Gen/Bipartition.v) equals the model
        res = core.props_check("C01", "Props/C01Gen.v")
        if not res["ok"]:
            ctx.obligation("Props/C01Gen.v compiles", False)
            ctx.build_log = res["log"][-6000:]
            ctx.notes.append("Props/C01Gen.v failed: %s" % core.failing_file(res["log"]))
            ok = False
        else:
            for th in res["theorems"]:
                ax = res["assumptions"].get(th)
                good = ax is not None and not ax
                ctx.obligation("theorem %s (generated code = model)" % th, good)
                if not good:
                    ctx.notes.append("theorem %s: Print Assumptions missing or axioms %s" % (th, ax))
                    ok = False
    if not ok:
        core.broken_proof(ctx, search)
    rng = ctx.rng
    if tier == "quick":
        cases = gen_cases(ctx, rng, 330, 170, 150, 150)
    else:
        cases = gen_cases(ctx, rng, 3000, 1500, 1500, 1500)
        cases.extend(exhaustive_cases(6))
    for c in cases:
        ctx.count("kind:" + c["kind"])
        if c["kind"] == "hist":
            for st in c["steps"]:
                ctx.count("hist:%s" % (st[5] if st[0] == "enc" else st[0] + "-" + st[1]))
                if st[0] == "enc":
                    ctx.count("hist:suppress_storage=%s" % st[3])
                    ctx.count("hist:is_bipartitions_mutable=%s" % st[4])
            ctx.count("hist:encodings=%d" % sum(1 for st in c["steps"] if st[0] not in ("edit", "supp")))
            if c.get("supp"):
                ctx.count("hist:unifurcations-kept-then-suppressed")
        if c["kind"] in ("enc", "from", "hist"):
            ctx.count("shape:" + c["shape"])
            ctx.count("rooted:%s" % c["rooted"])
            ctx.count("leaves:%d-%d" % ((len(trees.leaves(c["tree"])) - 1) // 10 * 10 + 1,
                                        (len(trees.leaves(c["tree"])) - 1) // 10 * 10 + 10))
            ctx.count("ns:holes" if c["ns"]["holes"] else "ns:noholes")
            ctx.count("ns:extra" if c["ns"]["extra"] else "ns:noextra")
            ctx.count("ns:sorted" if c["ns"]["sort"] else "ns:unsorted")
        if c["kind"] == "enc":
            ctx.count("enc:" + c["dirty"])
            ctx.count("enc:unifurcations" if c["unif"] else "enc:no-unifurcations")
            ctx.count("enc:twice" if c["twice"] else "enc:once")
            ctx.count("enc:suppress_unifurcations=%s" % c.get("su", True))
            ctx.count("enc:suppress_storage=%s" % c.get("ss", False))
            ctx.count("enc:is_bipartitions_mutable=%s" % c.get("mut", False))
            ctx.count("enc:entry=%s" % c.get("entry", "encode_bipartitions"))
            if c.get("hist"):
                ctx.count("enc:namespace-history")
            if c.get("via"):
                ctx.count("enc:via-" + c["via"][0])
            ctx.count("enc:collapse_unrooted_basal_bifurcation=%s" % c.get("cb", True))
        if c["kind"] == "from":
            ctx.count("from:" + c["mode"])
    core.corr_stage(ctx, cases, observe, to_coq, HEADER, "xcase_ok", oracle=oracle, show_fn="xcase_show",
                    nontrivial=nontrivial, search=search, shard=250, sample_fn=sample_fn)
    return ctx.finish(
        level="proof",
        rule="random rose trees with 1-40 leaves (binary / polytomy / mixed / caterpillar / star / single node, "
             "optional unifurcations, missing lengths, occasionally a taxon-less or duplicate-taxon leaf), is_rooted "
             "in {True, False, None}, namespaces with vacated accession indices / extra members / sorted; "
             "namespace histories before encoding (bits cached by taxon_bitmask / an encoded tree, members removed and the same Taxon object re-added); encodings left behind by reroot_at_node / reroot_at_edge / reseed_at / to_outgroup_position / prune_taxa / retain_taxa / prune_subtree called with update_bipartitions=True (every stored mask compared with the naive recomputation for the tree's current structure, rooting flag and namespace; leafset_taxa() decoding); encode_bipartitions once or twice with suppress_unifurcations / collapse_unrooted_basal_bifurcation each False in ~25% of the cases, in ~25% of the cases through update_bipartitions and/or with suppress_storage=True (bipartitions then read from the edges) / is_bipartitions_mutable=True, tree-level compatibility probes; object-level HISTORIES on one tree (3-12 leaves): encode (all four keywords, either entry point), keep what was returned (the list object; with suppress_storage the objects on the edges), edit the tree (SPR, reroot_at_node / reseed_at / reroot_at_edge / to_outgroup_position with update_bipartitions=False, Edge.collapse, prune a leaf, child shuffle, a new node in an edge) or call reroot_at_node / reroot_at_edge / reseed_at / prune_taxa / retain_taxa / prune_subtree with update_bipartitions=True, encode again, ...; wave 8: histories on trees WITH outdegree-one nodes (above internal nodes, leaves, the root, in chains) that encode with suppress_unifurcations=False and then call suppress_unifurcations(update_bipartitions=True) - the operation that maintains the stored list by dropping the removed nodes' objects - possibly after further edits (new nodes inside edges) and encodings (oracle: no outdegree-one node left, the maintained list holds exactly one object per edge with exact masks, its split set is that of a fresh encoding, saved lists unchanged, a tree rebuilt from the maintained list has the tree's clades); after EVERY step the identity (token by first sight, objects kept alive) and all six attributes of every Bipartition reachable from the edges, from bipartition_encoding and from every saved list are observed and compared with the model up to renaming of identities; oracle: masks exact after each encoding, a saved encoding never changes (objects and masks), an encoding consists of new objects, each saved encoding still rebuilds (shuffled, from_bipartition_encoding) the topology it was taken from; rebuild from shuffled encodings, "
             "encodings with noise and random mask lists; static bit predicates on random mask triples (incl. "
             "negative masks); Bipartition objects built from random masks; thorough adds every shape <= 6 leaves "
             "x 3 rootings x 3 accession maps. A tree case is non-trivial with >= 4 retained edges (enc) or >= 3 "
             "splits (from); distinct by full case content")
