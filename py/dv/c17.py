"""C17 - node ages, the ultrametricity check and the unary tree statistics match their definitions.

Three kinds of cases, all on spec trees of dv.trees (edge lengths = integers in units of 2**-10, so
every sum/difference the library forms is exact in binary64):

  ages   calc_node_ages (precision / forcing options / internal-only), node_ages or
         internal_node_ages on a fresh copy, then set_edge_lengths_from_node_ages on the aged tree
  depth  calc_node_root_distances, resolve_node_depths, resolve_node_ages, num_lineages_at,
         length, max_distance_from_root, minmax_leaf_distance_from_root
  stats  treemeasure.B1, colless_tree_imbalance, sackin_index (every normalisation), N_bar,
         treeness, pybus_harvey_gamma; the same on the tree with every child list reversed

The model (coq/Model/C17Model.v) is evaluated on the same input inside coqc; `case_ok` compares.
The oracle recomputes tip / root distances by explicit path walks and the statistics from their
published definitions with exact fractions.
"""
import copy
import math
import random
from fractions import Fraction

from dv import core, trees
from dv import c17_hist
from dv.core import cz, cbool, clist, copt, cpair, cq

HEADER = ("From DV Require Import Model.PyPrims Model.Tree Model.C17Model.\n"
          "From Coq Require Import ZArith QArith. Open Scope Z_scope.")

UNIT = trees.UNIT
FUNIT = Fraction(UNIT)
NORMS = [None, False, True, "max", "yule", "pda", "bad"]
NORM_COQ = {None: "NNone", False: "NFalse", True: "NTrue", "max": "NMax", "yule": "NYule",
            "pda": "NPda", "bad": "NBad"}

KEY_DRIFT = "ultrametricity-drift-accepted"
KEY_MASKED = "ultrametricity-error-masked-by-typeerror"


# ----------------------------------------------------------------------------------------------
# precision values
# ----------------------------------------------------------------------------------------------

def prec_value(p):
    """case encoding -> (pass_argument, python value)"""
    if p == "default":
        return False, None
    if p == "none":
        return True, None
    if p == "false":
        return True, False
    if p == "int0":
        return True, 0                 # the int 0 (falsy, like 0.0 and False): an exact check
    return True, float(p)


def ubits(case):
    """lengths of a case are integers in units of 2**-ubits (default: the 2**-10 grid of dv.trees; the fine-grid
    ages cases use 2**-40 so that deviations of about 1e-9 on trees of height ~4 are exact binary64 values too)"""
    return case.get("ubits", 10)


def funit(ub):
    return Fraction(1, 2 ** ub)


def prec_units(p, ub=10):
    """case encoding -> None (check disabled) | integer number of units deciding `d > precision`
    exactly for every integer d:  d*unit > p  <=>  d > floor(p/unit)"""
    if p in ("none", "false"):
        return None
    if p == "int0":
        return 0
    if p == "default":
        from dendropy.utility import constants
        v = Fraction(constants.DEFAULT_ULTRAMETRICITY_PRECISION)
    else:
        v = Fraction(float(p))
    if v < 0:
        return None
    return int(v / funit(ub) // 1)


def c_prec(p, ub=10):
    if p == "none":
        return "PNone"
    if p == "false":
        return "PFalse"
    if p in ("default", "int0"):
        return "(PNum %s)" % cz(prec_units(p, ub))
    v = Fraction(float(p))
    if v < 0:
        return "(PNum (-1))"
    return "(PNum %s)" % cz(int(v / funit(ub) // 1))


# ----------------------------------------------------------------------------------------------
# generators
# ----------------------------------------------------------------------------------------------

def strip(t):
    for nd in trees.preorder(t):
        nd.pop("_age", None)
    return t


def gen_ultrametric(rng, nleaves, shape=None, unif=0.0, scale=1):
    """scale: every node-age step is multiplied by it (time scale of the tree: 1, 1e3, 1e7 on the 2**-10 grid, i.e.
    node ages up to ~1e8; 2**30 on the 2**-40 grid)"""
    t = trees.gen_tree(rng, nleaves, shape=shape, lengths="none", unifurcations=unif)
    steps = rng.choice([[256, 512, 1024, 1536], [1, 2, 3, 5, 8], [0, 256, 256, 512], [1024], [3, 700, 4096]])
    if scale != 1:
        steps = [x * scale for x in steps]

    def assign(nd):
        if not nd["kids"]:
            nd["_age"] = 0
            return
        for k in nd["kids"]:
            assign(k)
        nd["_age"] = max(k["_age"] for k in nd["kids"]) + rng.choice(steps)
        for k in nd["kids"]:
            k["len"] = nd["_age"] - k["_age"]
    assign(t)
    t["len"] = rng.choice([None, None, 0, 512, 1024])
    return strip(t)


def perturb(rng, t, pu):
    """shift one edge below the root by about the precision"""
    nodes = trees.preorder(t)[1:]
    if not nodes:
        return "single"
    nd = rng.choice(nodes)
    base = pu if pu is not None else rng.choice([0, 1, 256])
    delta = rng.choice([base, base + 1, base - 1, -base, -(base + 1), 1, -1, 2 * base, 2 * base + 1])
    nd["len"] = (nd["len"] or 0) + delta
    if delta == 0:
        return "exact"
    return "at" if abs(delta) == base else ("above" if abs(delta) > base else "below")


PRECS = ["default", "none", "false", -1.0, -0.5 * UNIT, 0, 0.0, UNIT, 2 * UNIT, 3 * UNIT, 256 * UNIT, 512 * UNIT,
         1024 * UNIT, 0.0015, 1e-5, 0.5, 1.0, 10 * UNIT]

# time-scale regimes: the ultrametricity precision is an ABSOLUTE bound whatever the scale of the tree
#   "large"  2**-10 grid, node-age steps x 1e3 or x 1e7 (ages up to ~4e8): deviations of 1..3 units (about 1e-3)
#            are far below 1e-9 * age but above the precisions 0 / 1e-9 / 1e-5 / 1e-3
#   "fine"   2**-40 grid, node-age steps of 0.25..4 (height ~4): deviations of 1 unit (9e-13) and of about 1100
#            units (1e-9) around the precisions 0 and 1e-9
# every length, age and difference stays an exact binary64 value in both (< 2**53 units)
SCALE_PRECS = ["default", "default", 0, 0.0, 1e-9, 1e-9, 1e-3, 1e-5, 0.0015, UNIT, "none"]
FINE_BITS = 40
FINE_PRECS = [0, 0.0, 1e-9, 1e-9, 2e-9, "default", 1e-5, 1e-12, "none"]


def gen_tree_any(rng, maxleaves):
    n = rng.randint(1, maxleaves)
    r = rng.random()
    unif = rng.choice([0.0, 0.0, 0.0, 0.15])
    if r < 0.55:
        t = gen_ultrametric(rng, n, unif=unif)
        kind = "ultrametric"
    else:
        t = trees.gen_tree(rng, n, lengths=rng.choice(["dyadic", "positive", "int", "mixed", "unit", "dyadic"]),
                           unifurcations=unif)
        kind = "random"
        if rng.random() < 0.1:
            nd = rng.choice(trees.preorder(t))
            if nd["len"] is not None:
                nd["len"] = -nd["len"]
                kind = "random-negative"
    return t, kind


def gen_scaled_ages_case(rng, maxleaves):
    """ultrametric tree at a large time scale / on the fine grid, one or two edges perturbed around the precision"""
    n = rng.randint(2, maxleaves)
    unif = rng.choice([0.0, 0.0, 0.0, 0.15])
    case = {}
    if rng.random() < 0.5:
        scale = rng.choice([10 ** 3, 10 ** 7, 10 ** 7])
        t = gen_ultrametric(rng, n, unif=unif, scale=scale)
        p = rng.choice(SCALE_PRECS)
        ub = 10
        kind = "scaled-1e%d" % (3 if scale == 10 ** 3 else 7)
    else:
        ub = FINE_BITS
        t = gen_ultrametric(rng, n, unif=unif, scale=2 ** (FINE_BITS - 10))
        p = rng.choice(FINE_PRECS)
        case["ubits"] = ub
        kind = "fine-grid"
    pu = prec_units(p, ub)
    r = rng.random()
    if r < 0.8:
        kind += "-perturbed-" + perturb(rng, t, pu)
        if rng.random() < 0.25:
            kind += "+" + perturb(rng, t, pu)
    f = rng.random()
    fmax, fmin = (True, False) if f < 0.05 else (False, True) if f < 0.1 else (False, False)
    case.update({"kind": "ages", "gen": kind, "tree": t, "prec": p, "fmax": fmax, "fmin": fmin,
                 "io": rng.random() < 0.35,
                 "mn": rng.choice([0, 0, 0, None, 256, -1024, 1]), "mn_default": rng.random() < 0.3,
                 "eon": rng.random() < 0.4})
    return case


def gen_ages_case(rng, maxleaves):
    if rng.random() < 0.25:
        return gen_scaled_ages_case(rng, maxleaves)
    t, kind = gen_tree_any(rng, maxleaves)
    p = rng.choice(PRECS)
    pu = None
    try:
        pu = prec_units(p)
    except Exception:
        pass
    if kind == "ultrametric" and rng.random() < 0.7:
        kind = "ultrametric-perturbed-" + perturb(rng, t, pu)
        if rng.random() < 0.3:
            kind += "+" + perturb(rng, t, pu)
    if rng.random() < 0.12:
        nd = rng.choice(trees.preorder(t))
        nd["len"] = None
        kind += "+none"
    f = rng.random()
    fmax, fmin = (True, False) if f < 0.12 else (False, True) if f < 0.24 else (True, True) if f < 0.27 else (False, False)
    return {"kind": "ages", "gen": kind, "tree": t, "prec": p, "fmax": fmax, "fmin": fmin,
            "io": rng.random() < 0.35,
            "mn": rng.choice([0, 0, 0, None, 256, -1024, 1]), "mn_default": rng.random() < 0.3,
            "eon": rng.random() < 0.4}


def gen_depth_case(rng, maxleaves):
    t, kind = gen_tree_any(rng, maxleaves)
    if rng.random() < 0.1:
        nd = rng.choice(trees.preorder(t))
        nd["len"] = None
        kind += "+none"
    # query depths: node depths, just around them, 0, beyond
    ds = set([0, 1, -1])
    acc = {}

    def walk(nd, d):
        acc[nd["id"]] = d
        for k in nd["kids"]:
            walk(k, d + (k["len"] or 0))
    walk(t, 0)
    vals = sorted(set(acc.values()))
    for v in rng.sample(vals, min(len(vals), 4)):
        ds.update([v, v + 1, v - 1])
    if len(vals) >= 2:
        a, b = rng.sample(vals, 2)
        ds.add((a + b) // 2)
    ds.add(max(vals) + 5)
    return {"kind": "depth", "gen": kind, "tree": t, "xs": sorted(ds)}


def gen_stats_case(rng, maxleaves):
    r = rng.random()
    n = rng.randint(1, maxleaves)
    if r < 0.6:
        t = gen_ultrametric(rng, n, shape=rng.choice(["binary", "binary", "caterpillar", "binary"]))
        kind = "ultrametric-binary"
        if rng.random() < 0.25:
            kind += "-perturbed-" + perturb(rng, t, rng.choice([0, 1, 2]))
    elif r < 0.8:
        t = trees.gen_tree(rng, n, shape="binary", lengths=rng.choice(["positive", "dyadic", "mixed", "none"]))
        kind = "binary"
    else:
        t, kind = gen_tree_any(rng, maxleaves)
    if t["len"] is None and rng.random() < 0.3:
        t["len"] = 512
    return {"kind": "stats", "gen": kind, "tree": t,
            "gprecs": ["default"] + rng.sample(["none", 0, UNIT, 2 * UNIT, 1.0, -1.0], 2)}


# pybus_harvey_gamma(tree, prec): the ultrametricity precision handed to the gamma entry point, every kind of value
# (falsy ones included: 0, 0.0 = exact check, False = check disabled, None = check disabled), through the function
# and through the deprecated Tree.pybus_harvey_gamma method, on the 2**-40 grid (deviations of one unit = 9e-13,
# of about 1e-9, and around the default 1e-5) and on the 2**-10 grid (deviations around 1e-3 and grossly crooked)
GAMMA_PRECS = ["int0", 0.0, "false", "none", "default", 1e-12, 1e-9, -1.0, 1.0, UNIT]


def gen_gamma_case(rng, maxleaves):
    n = rng.randint(3, max(3, min(maxleaves, 9)))
    fine = rng.random() < 0.7
    ub = FINE_BITS if fine else 10
    t = gen_ultrametric(rng, n, shape=rng.choice(["binary", "binary", "caterpillar"]),
                        scale=2 ** (FINE_BITS - 10) if fine else 1)
    k = rng.sample(GAMMA_PRECS, 3)
    for must in rng.sample(["int0", 0.0, "false", "none", "default"], 2):
        if must not in k:
            k.append(must)
    kind = "gamma-prec-" + ("fine" if fine else "coarse")
    r = rng.random()
    if r < 0.8:
        # deviation around one of the precisions in play (or 0 / 1 / 256 units when all of them disable the check)
        pus = [prec_units(p, ub) for p in k if prec_units(p, ub) is not None]
        kind += "-perturbed-" + perturb(rng, t, rng.choice(pus) if pus else None)
        if rng.random() < 0.25:
            kind += "+" + perturb(rng, t, rng.choice([0, 1, 3]))
    case = {"kind": "stats", "gen": kind, "tree": t, "gprecs": k,
            "groutes": [rng.choice(["fn", "fn", "method"]) for _ in k]}
    if fine:
        case["ubits"] = ub
    return case


def gamma_fixed_cases():
    """tips off by 2**-30 (inside the default 1e-5, outside 0) and a grossly crooked tree, every precision value,
    both entry points"""
    def tree(lens, ub):
        lf = lambda i, x, l: {"id": i, "taxon": x, "label": None, "len": l, "kids": []}
        nd = lambda i, l, ks: {"id": i, "taxon": None, "label": None, "len": l, "kids": ks}
        a, b, c, d = lens
        return nd(0, None, [nd(1, 1 << ub, [lf(2, 0, a), lf(3, 1, b)]), nd(4, 1 << ub, [lf(5, 2, c), lf(6, 3, d)])])
    u = 1 << FINE_BITS
    nearly = tree([u, u + (1 << 10), u, u], FINE_BITS)
    crooked = tree([1024, 3072, 512, 1024], 10)
    ps = ["int0", 0.0, "false", "none", "default", 1e-12, 1e-9, 1.0, -1.0]
    out = []
    for route in ("fn", "method"):
        out.append({"kind": "stats", "gen": "gamma-prec-fixed-nearly", "tree": copy.deepcopy(nearly), "gprecs": list(ps),
                    "groutes": [route] * len(ps), "ubits": FINE_BITS})
        out.append({"kind": "stats", "gen": "gamma-prec-fixed-crooked", "tree": copy.deepcopy(crooked), "gprecs": list(ps),
                    "groutes": [route] * len(ps)})
    return out


def f16_witness():
    lf = lambda i, x, l: {"id": i, "taxon": x, "label": None, "len": l, "kids": []}
    return {"id": 0, "taxon": None, "label": None, "len": None, "kids": [
        {"id": 1, "taxon": None, "label": None, "len": 10, "kids": [lf(2, 0, 10), lf(3, 1, 19)]},
        lf(4, 2, 11)]}


def fixed_cases():
    w = f16_witness()
    out = [{"kind": "ages", "gen": "F16-witness", "tree": copy.deepcopy(w), "prec": 10 * UNIT, "fmax": False,
            "fmin": False, "io": False, "mn": 0, "mn_default": True, "eon": False}]
    # the same tree with the two tips of the cherry exchanged: rejected
    w2 = copy.deepcopy(w)
    w2["kids"][0]["kids"].reverse()
    out.append(dict(out[0], gen="F16-witness-swapped", tree=w2))
    # boundary: second child exactly at / one unit above the precision
    for d in (0, 1):
        b = copy.deepcopy(w)
        b["kids"][0]["kids"][1]["len"] = 10 + 10 + d
        b["kids"][1]["len"] = 20
        out.append(dict(out[0], gen="boundary+%d" % d, tree=b))
    # a later sibling without length when the error message is formatted
    m = copy.deepcopy(w)
    m["kids"].append({"id": 5, "taxon": 3, "label": None, "len": None, "kids": []})
    m["kids"][1]["len"] = 100
    out.append(dict(out[0], gen="masked-typeerror", tree=m))
    out.append({"kind": "stats", "gen": "F16-witness", "tree": copy.deepcopy(w), "gprecs": ["default", 10 * UNIT]})
    out.append({"kind": "depth", "gen": "F16-witness", "tree": copy.deepcopy(w), "xs": [0, 10, 11, 20, 29, 30]})
    out.extend(gamma_fixed_cases())
    return out


# ----------------------------------------------------------------------------------------------
# observation of the implementation
# ----------------------------------------------------------------------------------------------

def build(spec, ub=10):
    import dendropy
    n = len(trees.leaves(spec))
    ns = dendropy.TaxonNamespace()
    objs = [ns.new_taxon("t%d" % k) for k in range(max(n, 1) + 1)]
    tree, by_id = trees.build_dendropy(spec, objs, is_rooted=True, namespace=ns)
    if ub != 10:
        u = 2.0 ** -ub
        for nd in trees.preorder(spec):
            by_id[nd["id"]].edge.length = None if nd["len"] is None else units_of(nd["len"] * u, ub) * u
    return tree, by_id


def units_of(x, ub):
    """float -> exact integer number of 2**-ub units (raises when off the grid or beyond exact binary64 range)"""
    if x is None:
        return None
    fr = Fraction(float(x)) * 2 ** ub
    if fr.denominator != 1 or abs(fr.numerator) >= 2 ** 53:
        raise ValueError("%r is not an exact multiple of 2**-%d below 2**53 units" % (x, ub))
    return fr.numerator


def dump_units(tree, spec, by_id, ub):
    """the tree in spec form with lengths in 2**-ub units (structure must be untouched: same child lists)"""
    def walk(s):
        nd = by_id[s["id"]]
        if [getattr(c, "_dv_id", None) for c in nd._child_nodes] != [k["id"] for k in s["kids"]]:
            raise RuntimeError("tree damaged: child list of node %d changed" % s["id"])
        return {"id": s["id"], "taxon": s["taxon"], "label": s["label"], "len": units_of(nd.edge.length, ub),
                "kids": [walk(k) for k in s["kids"]]}
    return walk(spec)


def cerr_enum(e):
    from dendropy.utility import error as dperr
    if isinstance(e, dperr.UltrametricityError):
        return "Ultra"
    return core.exc_enum(e)


def units(x):
    return trees.len_units(float(x))


def attempt(fn, conv=lambda v: v, enum=core.exc_enum):
    try:
        return ["ok", conv(fn())]
    except Exception as e:       # noqa - every exception class is an observation
        return ["err", enum(e)]


def calc_kwargs(case):
    kw = {}
    use, val = prec_value(case["prec"])
    if use:
        kw["ultrametricity_precision"] = val
    if case["fmax"]:
        kw["is_force_max_age"] = True
    if case["fmin"]:
        kw["is_force_min_age"] = True
    return kw


def observe_ages(case):
    spec = case["tree"]
    ub = ubits(case)
    if ub != 10:
        return observe_ages_fine(case, ub)
    tree, by_id = build(spec)
    post = [nd["id"] for nd in trees.postorder(spec)]
    kw = calc_kwargs(case)
    obs = {}
    try:
        ret = tree.calc_node_ages(is_return_internal_node_ages_only=case["io"], **kw)
        obs["calc"] = ["ok", [[i, units(by_id[i].age)] for i in post],
                       [[i, trees.len_units(by_id[i].edge.length)] for i in post],
                       [units(v) for v in ret]]
    except Exception as e:
        aged = [by_id[i].age is not None for i in post]
        k = sum(aged)
        if aged != [True] * k + [False] * (len(post) - k):
            raise RuntimeError("ages assigned out of post-order: %r" % (aged,))
        obs["calc"] = ["err", cerr_enum(e), k]
    # the sorting wrappers on a fresh copy
    tree2, _b2 = build(spec)
    if case["io"]:
        obs["sorted"] = attempt(lambda: tree2.internal_node_ages(**kw), lambda l: [units(v) for v in l], cerr_enum)
    else:
        obs["sorted"] = attempt(lambda: tree2.node_ages(**kw), lambda l: [units(v) for v in l], cerr_enum)
    # set_edge_lengths_from_node_ages on the aged tree
    if obs["calc"][0] == "ok":
        skw = {"error_on_negative_edge_lengths": case["eon"]}
        if not case["mn_default"]:
            skw["minimum_edge_length"] = None if case["mn"] is None else case["mn"] * UNIT
        taxon_index = {}
        for nd in tree.preorder_node_iter():
            if nd.taxon is not None:
                taxon_index[id(nd.taxon)] = by_id_taxon(spec, nd._dv_id)

        def run():
            tree.set_edge_lengths_from_node_ages(**skw)
            d, problems = trees.dump_dendropy(tree, taxon_index)
            if problems:
                raise RuntimeError("tree damaged: %r" % problems)
            return d
        obs["setlen"] = attempt(run)
    else:
        obs["setlen"] = None
    return obs


def observe_ages_fine(case, ub):
    """observe_ages for lengths on the 2**-ub grid (same observation format, units of 2**-ub)"""
    spec = case["tree"]
    u = 2.0 ** -ub
    un = lambda x: units_of(x, ub)
    tree, by_id = build(spec, ub)
    post = [nd["id"] for nd in trees.postorder(spec)]
    kw = calc_kwargs(case)
    obs = {}
    try:
        ret = tree.calc_node_ages(is_return_internal_node_ages_only=case["io"], **kw)
        obs["calc"] = ["ok", [[i, un(by_id[i].age)] for i in post],
                       [[i, un(by_id[i].edge.length)] for i in post],
                       [un(v) for v in ret]]
    except Exception as e:
        aged = [by_id[i].age is not None for i in post]
        k = sum(aged)
        if aged != [True] * k + [False] * (len(post) - k):
            raise RuntimeError("ages assigned out of post-order: %r" % (aged,))
        obs["calc"] = ["err", cerr_enum(e), k]
    tree2, _b2 = build(spec, ub)
    if case["io"]:
        obs["sorted"] = attempt(lambda: tree2.internal_node_ages(**kw), lambda l: [un(v) for v in l], cerr_enum)
    else:
        obs["sorted"] = attempt(lambda: tree2.node_ages(**kw), lambda l: [un(v) for v in l], cerr_enum)
    if obs["calc"][0] == "ok":
        skw = {"error_on_negative_edge_lengths": case["eon"]}
        if not case["mn_default"]:
            skw["minimum_edge_length"] = None if case["mn"] is None else case["mn"] * u

        def run():
            tree.set_edge_lengths_from_node_ages(**skw)
            return dump_units(tree, spec, by_id, ub)
        obs["setlen"] = attempt(run)
    else:
        obs["setlen"] = None
    return obs


def by_id_taxon(spec, i):
    for nd in trees.preorder(spec):
        if nd["id"] == i:
            return nd["taxon"]
    return None


def observe_depth(case):
    spec = case["tree"]
    tree, by_id = build(spec)
    pre = [nd["id"] for nd in trees.preorder(spec)]
    obs = {}

    def all_d():
        tree.calc_node_root_distances(return_leaf_distances_only=False)
        return [[i, units(by_id[i].root_distance)] for i in pre]
    obs["all_d"] = attempt(all_d)
    t2, _ = build(spec)
    obs["ret_leaf"] = attempt(lambda: t2.calc_node_root_distances(), lambda l: [units(v) for v in l])
    t3, _ = build(spec)
    obs["ret_all"] = attempt(lambda: t3.calc_node_root_distances(return_leaf_distances_only=False),
                             lambda l: [units(v) for v in l])
    t4, b4 = build(spec)

    def rdepths():
        cache = t4.resolve_node_depths()
        out = [[nd._dv_id, units(v)] for nd, v in cache.items()]
        for i, v in out:
            if units(b4[i].depth) != v:
                raise RuntimeError("depth attribute differs from the returned cache")
        return out
    obs["rdepths"] = attempt(rdepths)
    t5, b5 = build(spec)

    def rages():
        cache = t5.resolve_node_ages()
        out = [[nd._dv_id, units(v)] for nd, v in cache.items()]
        for i, v in out:
            if units(b5[i].age) != v:
                raise RuntimeError("age attribute differs from the returned cache")
        return out
    obs["rages"] = attempt(rages)
    t6, _ = build(spec)
    obs["lineages"] = [[x, attempt(lambda: t6.num_lineages_at(x * UNIT))] for x in case["xs"]]
    obs["length"] = units(tree.length())
    obs["maxd"] = attempt(lambda: tree.max_distance_from_root(), units)
    obs["minmax"] = attempt(lambda: tree.minmax_leaf_distance_from_root(), lambda p: [units(p[0]), units(p[1])])
    return obs


def fl(x):
    """float -> exact rational as [num, den]"""
    fr = Fraction(float(x))
    return [fr.numerator, fr.denominator]


def reversed_spec(spec):
    t = copy.deepcopy(spec)
    for nd in trees.preorder(t):
        nd["kids"].reverse()
    return t


def stats_of(spec, gprecs, ub=10, routes=None):
    import warnings
    from dendropy.calculate import treemeasure as tm
    out = {}
    mk = lambda: build(spec, ub)[0]
    routes = routes or ["fn"] * len(gprecs)

    def method(tree, *a, **kw):
        from dendropy.utility import deprecate
        deprecate._initialize_deprecation_warnings()    # installs its own filter once; ours goes in front
        with warnings.catch_warnings():
            warnings.simplefilter("ignore")
            return tree.pybus_harvey_gamma(*a, **kw)
    out["b1"] = attempt(lambda: tm.B1(mk()), fl)
    out["colless"] = [attempt(lambda nm=nm: tm.colless_tree_imbalance(mk(), normalize=nm), fl) for nm in NORMS]
    out["colless_default"] = attempt(lambda: tm.colless_tree_imbalance(mk()), fl)
    out["sackin"] = [attempt(lambda nm=nm: tm.sackin_index(mk(), normalize=nm), fl) for nm in NORMS]
    out["sackin_default"] = attempt(lambda: tm.sackin_index(mk()), fl)
    out["nbar"] = attempt(lambda: tm.N_bar(mk()), fl)
    out["treeness"] = attempt(lambda: tm.treeness(mk()), fl)
    gam = []
    ages_route = []
    for p, route in zip(gprecs, routes):
        use, val = prec_value(p)
        if route == "method":
            # deprecated Tree.pybus_harvey_gamma(prec=...): keyword or positional
            if use and p in ("none", "default", 1.0):
                gam.append(attempt(lambda: method(mk(), val), fl, cerr_enum))              # positional
            elif use:
                gam.append(attempt(lambda: method(mk(), prec=val), fl, cerr_enum))
            else:
                gam.append(attempt(lambda: method(mk()), fl, cerr_enum))
        elif use:
            gam.append(attempt(lambda: tm.pybus_harvey_gamma(mk(), prec=val), fl, cerr_enum))
        else:
            gam.append(attempt(lambda: tm.pybus_harvey_gamma(mk()), fl, cerr_enum))
        # the other route to the same check: calc_node_ages with the same precision on a fresh tree object
        if use:
            ages_route.append(attempt(lambda: mk().calc_node_ages(ultrametricity_precision=val), lambda v: None, cerr_enum))
        else:
            ages_route.append(attempt(lambda: mk().calc_node_ages(), lambda v: None, cerr_enum))
    out["gamma"] = gam
    out["gamma_ages_route"] = ages_route
    return out


def observe_stats(case):
    from dendropy.calculate import treemeasure as tm
    spec = case["tree"]
    n = len(trees.leaves(spec))
    obs = stats_of(spec, case["gprecs"], ubits(case), case.get("groutes"))
    obs["rev"] = stats_of(reversed_spec(spec), case["gprecs"], ubits(case), case.get("groutes"))
    obs["tr"] = {"ln_n": fl(math.log(n)), "ln_2": fl(math.log(2)), "euler": fl(tm.EULERS_CONSTANT),
                 "pow15": fl(pow(n, 3.0 / 2)), "sqrt_f": fl(pow(1 / (12 * (n - 2.0)), 0.5)) if n > 2 else [0, 1]}
    return obs


def observe(case):
    with core.alarm(20):
        if case["kind"] == "ages":
            return observe_ages(case)
        if case["kind"] == "depth":
            return observe_depth(case)
        if case["kind"] == "hist":
            return c17_hist.observe_hist(case, _SELF)
        return observe_stats(case)


# ----------------------------------------------------------------------------------------------
# which form of the ultrametricity test does the working tree implement?
# ----------------------------------------------------------------------------------------------

_VARIANT = {}


def fixed_variant():
    """True when the working tree rejects the F16 witness with UltrametricityError (the repaired,
    global test: coq calc_node_ages_fix); False for the present first-child test."""
    if "fx" not in _VARIANT:
        tree, _ = build(f16_witness())
        try:
            tree.calc_node_ages(ultrametricity_precision=10 * UNIT)
            _VARIANT["fx"] = False
        except Exception as e:
            _VARIANT["fx"] = cerr_enum(e) == "Ultra"
    return _VARIANT["fx"]


# ----------------------------------------------------------------------------------------------
# Coq rendering
# ----------------------------------------------------------------------------------------------

def c_err(e):
    return e


def c_cerr(e):
    return "Ultra" if e == "Ultra" else "(Py %s)" % e


def c_res(o, f):
    return "(Ok %s)" % f(o[1]) if o[0] == "ok" else "(Err %s)" % o[1]


def c_zz(p):
    return cpair(cz(p[0]), cz(p[1]))


def c_lzz(l):
    return clist([c_zz(p) for p in l])


def c_lz(l):
    return clist([cz(v) for v in l])


def c_q(p):
    return cq(Fraction(p[0], p[1]))


def c_sobs(o):
    return "(SVal %s)" % c_q(o[1]) if o[0] == "ok" else "(SErr %s)" % o[1]


def c_gobs(o):
    return "(GVal %s)" % c_q(o[1]) if o[0] == "ok" else "(GObsErr %s)" % c_cerr(o[1])


def to_coq(case, obs):
    """one correspondence case = a list of model cases (a history yields one per query group)"""
    if case["kind"] == "hist":
        return clist(c17_hist.to_coq_terms(case, obs, _SELF))
    return clist([to_coq1(case, obs)])


def to_coq1(case, obs):
    t = trees.c_tree(case["tree"])
    if case["kind"] == "ages":
        cfg = "(mkCfg %s %s %s)" % (c_prec(case["prec"], ubits(case)), cbool(case["fmax"]), cbool(case["fmin"]))
        c = obs["calc"]
        if c[0] == "ok":
            o = "(AgesOk %s %s %s)" % (c_lzz(c[1]), clist([cpair(cz(i), copt(l, cz)) for i, l in c[2]]), c_lz(c[3]))
        else:
            o = "(AgesErr %s %s)" % (c_cerr(c[1]), cz(c[2]))
        s = obs["sorted"]
        so = "(LOk %s)" % c_lz(s[1]) if s[0] == "ok" else "(LErr %s)" % c_cerr(s[1])
        mn = 0 if case["mn_default"] else case["mn"]
        sl = obs["setlen"]
        slc = "(Err OtherErr)" if sl is None else c_res(sl, trees.c_tree)
        return "(CaseAges %s %s %s %s %s %s %s %s %s)" % (cbool(fixed_variant()), t, cfg,
                                                       cbool(case["io"]), o, so, copt(mn, cz), cbool(case["eon"]), slc)
    if case["kind"] == "depth":
        lin = clist([cpair(cz(x), c_res(r, cz)) for x, r in obs["lineages"]])
        return "(CaseDepth %s %s %s %s %s %s %s %s %s %s)" % (
            t, c_res(obs["all_d"], c_lzz), c_res(obs["ret_leaf"], c_lz), c_res(obs["ret_all"], c_lz),
            c_res(obs["rdepths"], c_lzz), c_res(obs["rages"], c_lzz), lin, cz(obs["length"]),
            c_res(obs["maxd"], cz), c_res(obs["minmax"], c_zz))
    w = obs["tr"]
    tr = "(mkTr %s %s %s %s %s)" % (c_q(w["ln_n"]), c_q(w["ln_2"]), c_q(w["euler"]), c_q(w["pow15"]), c_q(w["sqrt_f"]))
    col = [cpair(NORM_COQ[nm], c_sobs(o)) for nm, o in zip(NORMS, obs["colless"])]
    col.append(cpair("NMax", c_sobs(obs["colless_default"])))        # default normalize="max"
    sac = [cpair(NORM_COQ[nm], c_sobs(o)) for nm, o in zip(NORMS, obs["sackin"])]
    sac.append(cpair("NTrue", c_sobs(obs["sackin_default"])))        # default normalize=True
    gam = clist([cpair(c_prec(p, ubits(case)), c_gobs(o)) for p, o in zip(case["gprecs"], obs["gamma"])])
    return "(CaseStats %s %s %s %s %s %s %s %s %s)" % (cbool(fixed_variant()), t, tr,
                                                    c_sobs(obs["b1"]), clist(col), clist(sac), c_sobs(obs["nbar"]),
                                                    c_sobs(obs["treeness"]), gam)


# ----------------------------------------------------------------------------------------------
# oracle: the property stated naively on the implementation's observation
# ----------------------------------------------------------------------------------------------

def index(spec):
    parent = {}
    node = {}

    def walk(nd, p):
        node[nd["id"]] = nd
        parent[nd["id"]] = p
        for k in nd["kids"]:
            walk(k, nd)
    walk(spec, None)
    return node, parent


def tip_distances(spec):
    """node id -> list of distances to every tip below it, each by walking up from the tip"""
    node, parent = index(spec)
    out = {i: [] for i in node}
    for i, nd in node.items():
        if nd["kids"]:
            continue
        d = 0
        cur = nd
        out[cur["id"]].append(0)
        while parent[cur["id"]] is not None:
            d += cur["len"] or 0
            cur = parent[cur["id"]]
            out[cur["id"]].append(d)
    return out


def newick_u(t, ub):
    def f(n):
        s = ""
        if n["kids"]:
            s = "(" + ",".join(f(k) for k in n["kids"]) + ")"
        s += ("t%d" % n["taxon"]) if n["taxon"] is not None else ""
        if n["len"] is not None:
            s += ":%r" % (n["len"] * 2.0 ** -ub)
        return s
    return f(t) + ";"


def first_child_path(nd):
    d = 0
    while nd["kids"]:
        nd = nd["kids"][0]
        d += nd["len"] or 0
    return d


def oracle_ages(case, obs):
    spec = case["tree"]
    node, parent = index(spec)
    td = tip_distances(spec)
    pu = prec_units(case["prec"], ubits(case))
    forced = case["fmax"] or case["fmin"]
    c = obs["calc"]
    nonroot_none = [i for i, nd in node.items() if parent[i] is not None and nd["len"] is None]
    if case["fmax"] and case["fmin"]:
        if not (c[0] == "err" and c[1] == "ValueErr"):
            return ("both forcing options given but no ValueError: %r" % (c[:2],), "both-forced-accepted")
        return None
    spread = {i: max(v) - min(v) for i, v in td.items()}
    worst = max(spread.values())
    if c[0] == "ok":
        ages = dict(c[1])
        for i, v in td.items():
            if case["fmax"]:
                if ages[i] != max(v):
                    return ("is_force_max_age: node %d has age %d, furthest tip is at %d" % (i, ages[i], max(v)), "forced-max-age")
            elif case["fmin"]:
                if ages[i] != min(v):
                    return ("is_force_min_age: node %d has age %d, nearest tip is at %d" % (i, ages[i], min(v)), "forced-min-age")
            elif not (min(v) <= ages[i] <= max(v)):
                return ("node %d: age %d outside the range of its tip distances [%d, %d]" % (i, ages[i], min(v), max(v)),
                        "age-not-a-tip-distance")
        ret = c[3]
        exp = [ages[nd["id"]] for nd in trees.postorder(spec) if not (case["io"] and not nd["kids"])]
        if ret != exp:
            return ("returned ages %r are not the node ages in post-order %r" % (ret, exp), "returned-ages")
        if obs["sorted"][0] != "ok" or obs["sorted"][1] != sorted(exp):
            return ("node_ages/internal_node_ages %r is not the sorted list of ages %r" % (obs["sorted"], sorted(exp)), "sorted-ages")
        if pu is not None and not forced and worst > pu:
            # accepted although some node has tip paths differing by more than the precision
            local = all(abs(first_child_path(nd) - (first_child_path(k) + (k["len"] or 0))) <= pu
                        for nd in node.values() for k in nd["kids"])
            bad = [i for i, s in spread.items() if s > pu][0]
            ub = ubits(case)
            what = ("accepted at precision %d units although tip paths below node %d differ by %d units (%s)"
                    % (pu, bad, spread[bad], trees.newick(spec)))
            if ub != 10 or max(max(v) for v in td.values()) > 10 ** 6:
                what = ("calc_node_ages(ultrametricity_precision=%r) accepted %s although the tip paths below node %d "
                        "differ by %r (%d units of 2**-%d; the precision is %d units)"
                        % (prec_value(case["prec"])[1] if case["prec"] != "default" else "default 1e-5",
                           newick_u(spec, ub), bad, spread[bad] * 2.0 ** -ub, spread[bad], ub, pu))
            return (what, KEY_DRIFT if local else "ultrametricity-violation-accepted")
        # round trip of the lengths
        sl = obs["setlen"]
        mn = 0 if case["mn_default"] else case["mn"]
        if worst == 0 and not forced or (forced and worst == 0):
            lens_ok = all(parent[i] is None or mn is None or (nd["len"] or 0) >= mn for i, nd in node.items())
            if lens_ok and not (case["eon"] and any((nd["len"] or 0) < 0 for i, nd in node.items() if parent[i] is not None)):
                if sl[0] != "ok":
                    return ("set_edge_lengths_from_node_ages failed on an ultrametric tree: %r" % (sl,), "roundtrip-error")
                for nd in trees.preorder(sl[1]):
                    o = node[nd["id"]]
                    want = o["len"] if parent[o["id"]] is None else (o["len"] or 0)
                    if nd["len"] != want:
                        return ("set_edge_lengths_from_node_ages: node %d gets length %r, had %r" % (nd["id"], nd["len"], want),
                                "roundtrip-length")
        return None
    # rejected
    e = c[1]
    if forced:
        if e == "TypeErr" and nonroot_none:
            return None          # forcing options add None lengths: outside the property (documented)
        return ("forcing option chosen but the call failed with %s" % e, "forced-rejected")
    if pu is None:
        return ("ultrametricity check disabled but the call failed with %s" % e, "disabled-rejected")
    if worst <= pu:
        return ("rejected (%s) at precision %d units although all tip paths below every node agree within %d units"
                % (e, pu, worst), "ultrametric-tree-rejected")
    if e == "Ultra":
        return None
    if e == "TypeErr" and nonroot_none:
        return ("non-ultrametric tree rejected with TypeError instead of UltrametricityError: the error message adds "
                "the None length of a later sibling (%s)" % trees.newick(spec), KEY_MASKED)
    return ("non-ultrametric tree rejected with %s instead of UltrametricityError" % e, "wrong-rejection-error")


def oracle_depth(case, obs):
    spec = case["tree"]
    node, parent = index(spec)
    nonroot_none = [i for i, nd in node.items() if parent[i] is not None and nd["len"] is None]
    depth = {}
    for i in node:
        d = 0
        cur = node[i]
        while parent[cur["id"]] is not None:
            d += cur["len"] or 0
            cur = parent[cur["id"]]
        depth[i] = d
    pre = [nd["id"] for nd in trees.preorder(spec)]
    total = sum((nd["len"] or 0) for nd in node.values())
    if obs["length"] != total:
        return ("length() = %d units, sum of edge lengths = %d" % (obs["length"], total), "tree-length")
    if nonroot_none:
        for k in ("all_d", "ret_leaf", "rdepths", "rages", "maxd", "minmax"):
            if obs[k][0] == "ok":
                return ("%s succeeded although an edge below the root has no length" % k, "none-length-depth")
        return None
    for k in ("all_d", "rdepths"):
        if obs[k] != ["ok", [[i, depth[i]] for i in pre]]:
            return ("%s: %r differs from the path sums from the root %r" % (k, obs[k], [[i, depth[i]] for i in pre]), "root-distance")
    leaf_d = [depth[i] for i in pre if not node[i]["kids"]]
    if obs["ret_leaf"] != ["ok", leaf_d] or obs["ret_all"] != ["ok", [depth[i] for i in pre]]:
        return ("returned root distances differ from the path sums", "root-distance-returned")
    m = max(depth.values())
    if obs["rages"] != ["ok", [[i, m - depth[i]] for i in pre]]:
        return ("resolve_node_ages differs from (max depth - depth)", "resolve-ages")
    if obs["maxd"] != ["ok", max(leaf_d)] or obs["minmax"] != ["ok", [min(leaf_d), max(leaf_d)]]:
        return ("max/minmax leaf distance from root wrong: %r %r" % (obs["maxd"], obs["minmax"]), "minmax-distance")
    positive = all(parent[i] is None or nd["len"] > 0 for i, nd in node.items())
    if positive:
        for x, r in obs["lineages"]:
            want = sum(1 for i in node if parent[i] is not None and depth[parent[i]["id"]] < x <= depth[i])
            if r != ["ok", want]:
                return ("num_lineages_at(%d units) = %r, edges crossing that depth: %d" % (x, r, want), "num-lineages")
    return None


def close(obsv, exact, tol=1e-12):
    a = Fraction(obsv[0], obsv[1])
    return abs(a - exact) <= Fraction(tol) * (1 + abs(a) + abs(exact))


def oracle_stats(case, obs):
    spec = case["tree"]
    node, parent = index(spec)
    lv = [nd for nd in node.values() if not nd["kids"]]
    n = len(lv)
    internal = [nd for nd in node.values() if nd["kids"]]

    def nleaves(nd):
        return 1 if not nd["kids"] else sum(nleaves(k) for k in nd["kids"])

    def height(nd):
        return 0 if not nd["kids"] else 1 + max(height(k) for k in nd["kids"])

    def depth_edges(nd):
        d = 0
        while parent[nd["id"]] is not None:
            nd = parent[nd["id"]]
            d += 1
        return d
    # B1 (Shao & Sokal 1990): sum over internal nodes other than the root of 1/M_i
    b1 = sum(Fraction(1, height(nd)) for nd in internal if parent[nd["id"]] is not None)
    if obs["b1"][0] != "ok" or not close(obs["b1"][1], b1):
        return ("B1 = %r, definition gives %s" % (obs["b1"], b1), "B1")
    # Sackin / N_bar
    sack = sum(depth_edges(nd) for nd in lv)
    sack2 = sum(nleaves(nd) for nd in internal)
    assert sack == sack2
    harm = sum(Fraction(1, j) for j in range(2, n + 1))
    exp_s = {None: Fraction(sack), False: Fraction(sack), True: Fraction(sack, n),
             "yule": (sack - 2 * n * harm) / n}
    for nm, o in zip(NORMS, obs["sackin"]):
        if nm in exp_s:
            if o[0] != "ok" or not close(o[1], exp_s[nm]):
                return ("sackin_index(normalize=%r) = %r, definition gives %s" % (nm, o, exp_s[nm]), "sackin")
        elif nm == "pda":
            if o[0] != "ok" or not math.isclose(o[1][0] / o[1][1], sack / n ** 1.5, rel_tol=1e-12):
                return ("sackin_index(normalize='pda') = %r" % (o,), "sackin-pda")
        elif o[0] != "err":
            return ("sackin_index(normalize=%r) accepted" % (nm,), "sackin-bad-normalize")
    if obs["sackin_default"] != obs["sackin"][NORMS.index(True)]:
        return ("sackin_index default differs from normalize=True", "sackin-default")
    if obs["nbar"][0] != "ok" or not close(obs["nbar"][1], Fraction(sack, n)):
        return ("N_bar = %r, mean leaf depth = %s" % (obs["nbar"], Fraction(sack, n)), "N_bar")
    # Colless on strictly bifurcating trees
    binary = all(len(nd["kids"]) == 2 for nd in internal)
    if binary:
        col = sum(abs(nleaves(nd["kids"][0]) - nleaves(nd["kids"][1])) for nd in internal)
        for nm, o in zip(NORMS, obs["colless"]):
            if nm in (None, False):
                want = Fraction(col)
            elif nm in (True, "max"):
                if n < 3:
                    continue         # normalising constant undefined
                want = Fraction(2 * col, (n - 1) * (n - 2))
            elif nm == "yule":
                f = (col - n * math.log(n) - n * (0.5772156649015329 - 1 - math.log(2))) / n
                if o[0] != "ok" or not math.isclose(o[1][0] / o[1][1], f, rel_tol=1e-9, abs_tol=1e-12):
                    return ("colless(normalize='yule') = %r, definition gives %r" % (o, f), "colless-yule")
                continue
            elif nm == "pda":
                if o[0] != "ok" or not math.isclose(o[1][0] / o[1][1], col / n ** 1.5, rel_tol=1e-12):
                    return ("colless(normalize='pda') = %r" % (o,), "colless-pda")
                continue
            else:
                if o[0] != "err":
                    return ("colless(normalize=%r) accepted" % (nm,), "colless-bad-normalize")
                continue
            if o[0] != "ok" or not close(o[1], want):
                return ("colless_tree_imbalance(normalize=%r) = %r, definition gives %s" % (nm, o, want), "colless")
        if n >= 3 and obs["colless_default"] != obs["colless"][NORMS.index("max")]:
            return ("colless default differs from normalize='max'", "colless-default")
    elif any(o[0] == "ok" for o in obs["colless"]):
        return ("colless_tree_imbalance accepted a tree that is not strictly bifurcating", "colless-nonbinary")
    # treeness
    nonroot = [nd for nd in node.values() if parent[nd["id"]] is not None]
    if all(nd["len"] is not None for nd in nonroot):
        tot = sum(nd["len"] for nd in nonroot)
        if tot != 0:
            want = Fraction(sum(nd["len"] for nd in nonroot if nd["kids"]), tot)
            if obs["treeness"][0] != "ok" or not close(obs["treeness"][1], want):
                return ("treeness = %r, internal/total length = %s" % (obs["treeness"], want), "treeness")
    # gamma (Pybus & Harvey 2000) from lineages through time, on exactly ultrametric binary trees
    td = tip_distances(spec)
    exact = all(max(v) == min(v) for v in td.values())
    # (with a negative length a child is older than its parent and "lineages through time" is undefined)
    if binary and exact and n >= 3 and all(nd["len"] is not None and nd["len"] >= 0 for nd in nonroot):
        ages = sorted((td[nd["id"]][0] for nd in internal), reverse=True)   # n-1 speciation times
        g = {}
        for k in range(2, n + 1):          # g_k: time during which k lineages exist
            older = ages[k - 2]
            younger = ages[k - 1] if k - 1 < len(ages) else 0
            g[k] = older - younger
        T = sum(k * g[k] for k in range(2, n + 1))
        if T != sum(nd["len"] for nd in nonroot):
            return ("internal: lineages-through-time T differs from the tree length", "oracle-self-check")
        if T != 0:
            inner = sum(sum(k * g[k] for k in range(2, i + 1)) for i in range(2, n))
            want = (Fraction(inner, n - 2) - Fraction(T, 2)) / T
            for p, o in zip(case["gprecs"], obs["gamma"]):
                val = o[1][0] / o[1][1] if o[0] == "ok" else None
                f = float(want) / math.sqrt(1.0 / (12 * (n - 2)))
                if val is None or not math.isclose(val, f, rel_tol=1e-10, abs_tol=1e-12):
                    return ("pybus_harvey_gamma(prec=%r) = %r, definition gives %r" % (p, o, f), "gamma")
    # gamma's ultrametricity precision (exact integers): a tree whose tip paths differ by more than prec is rejected,
    # one whose paths agree within prec is not, and with the check disabled (None / False / negative) nothing is
    # rejected - for every kind of prec value and both entry points
    ub = ubits(case)
    if all(nd["len"] is not None for nd in nonroot):
        spread = max(max(v) - min(v) for v in td.values())

        def fp(nd):                      # the path that always descends into the first child
            return 0 if not nd["kids"] else fp(nd["kids"][0]) + nd["kids"][0]["len"]
        local = max([abs(fp(nd) - (fp(c) + c["len"])) for nd in internal for c in nd["kids"][1:]] or [0])
        routes = case.get("groutes") or ["fn"] * len(case["gprecs"])
        for j, (p, o) in enumerate(zip(case["gprecs"], obs["gamma"])):
            pu = prec_units(p, ub)
            rejected = (o[0] == "err" and o[1] == "Ultra")
            entry = ("Tree.pybus_harvey_gamma" if routes[j] == "method" else "treemeasure.pybus_harvey_gamma")
            pclass = ("default" if p == "default" else "disabled" if pu is None else "zero" if pu == 0 and p in ("int0", 0, 0.0)
                      else "positive")
            if pu is None and rejected:
                return ("%s(prec=%r) raised UltrametricityError although prec disables the check (%s)"
                        % (entry, prec_value(p)[1], newick_u(spec, ub)), "gamma-prec-disabled-but-rejected")
            if pu is not None and spread <= pu and rejected:
                return ("%s(prec=%r) raised UltrametricityError although all tip paths below every node agree within "
                        "%d units of 2**-%d (prec = %d units) (%s)" % (entry, prec_value(p)[1], spread, ub, pu, newick_u(spec, ub)),
                        "gamma-prec-within-but-rejected:" + pclass)
            if pu is not None and local > pu and not rejected:
                return ("%s(prec=%r) returned %r although two tip paths below a node differ by %d units of 2**-%d "
                        "(prec = %d units): not rejected (%s)" % (entry, prec_value(p)[1], o, local, ub, pu, newick_u(spec, ub)),
                        "gamma-prec-beyond-but-accepted:" + pclass)
            # route A = route B: the same precision handed to calc_node_ages on a fresh tree object
            ar = obs["gamma_ages_route"][j]
            if rejected != (ar[0] == "err" and ar[1] == "Ultra"):
                return ("%s(prec=%r) %s, calc_node_ages(ultrametricity_precision=%r) on a fresh tree object %s (%s)"
                        % (entry, prec_value(p)[1], "raised UltrametricityError" if rejected else "did not reject",
                           prec_value(p)[1], "raised UltrametricityError" if not rejected else "did not reject",
                           newick_u(spec, ub)), "gamma-prec-differs-from-calc-node-ages:" + pclass)
    # independence of child order (every child list reversed)
    rev = obs["rev"]

    def same(a, b):
        if a[0] != b[0]:
            return False
        if a[0] == "err":
            return True          # which exception class comes first may depend on the order
        return close(a[1], Fraction(b[1][0], b[1][1]))
    for k in ("b1", "nbar", "treeness", "colless_default", "sackin_default"):
        if not same(obs[k], rev[k]):
            return ("%s depends on child order: %r vs %r" % (k, obs[k], rev[k]), "child-order-" + k)
    for k in ("colless", "sackin"):
        for a, b in zip(obs[k], rev[k]):
            if not same(a, b):
                return ("%s depends on child order: %r vs %r" % (k, a, b), "child-order-" + k)
    for p, a, b in zip(case["gprecs"], obs["gamma"], rev["gamma"]):
        pu = prec_units(p, ub)
        if (exact or pu == 0) and not same(a, b):
            return ("pybus_harvey_gamma(prec=%r) depends on child order: %r vs %r" % (p, a, b), "child-order-gamma")
    return None


def oracle(case, obs):
    if case["kind"] == "hist":
        return c17_hist.oracle_hist(case, obs, _SELF)
    if case["kind"] == "ages":
        return oracle_ages(case, obs)
    if case["kind"] == "depth":
        return oracle_depth(case, obs)
    return oracle_stats(case, obs)


# ----------------------------------------------------------------------------------------------

import sys as _sys
_SELF = _sys.modules[__name__]


def nontrivial(case, obs):
    return len(trees.preorder(case["tree"])) >= 4


STALE_GAMMA = [False]     # histories that query gamma on stale ages: only once that finding is listed


def gen_case(rng, maxleaves):
    r = rng.random()
    if r < 0.12:
        return c17_hist.gen_hist_case(rng, min(maxleaves, 8), _SELF, STALE_GAMMA[0])
    if r < 0.5:
        return gen_ages_case(rng, maxleaves)
    if r < 0.72:
        return gen_depth_case(rng, maxleaves)
    if r < 0.80:
        return gen_gamma_case(rng, maxleaves)
    return gen_stats_case(rng, maxleaves)


def exhaustive_cases(maxleaves=5):
    """every ordered tree shape with <= maxleaves leaves: unit lengths (caterpillars etc. are
    non-ultrametric), precisions on both sides, and the statistics"""
    out = []
    for n in range(1, maxleaves + 1):
        for shape in trees.all_shapes(n):
            t = trees.shape_to_tree(shape, lengths=lambda r: 1024)
            t["len"] = None
            for p in ("default", 1.0, 2.0, "none"):
                out.append({"kind": "ages", "gen": "exhaustive-unit", "tree": copy.deepcopy(t), "prec": p,
                            "fmax": False, "fmin": False, "io": False, "mn": 0, "mn_default": True, "eon": False})
            out.append({"kind": "stats", "gen": "exhaustive-unit", "tree": copy.deepcopy(t), "gprecs": ["default", "none"]})
            out.append({"kind": "depth", "gen": "exhaustive-unit", "tree": copy.deepcopy(t), "xs": [0, 512, 1024, 1536, 2048]})
    return out


def search(ctx, budget_s):
    import time
    t0 = time.time()
    rng = random.Random(ctx.seed + 1717)
    n = 0
    rs = random.Random(ctx.seed + 171)
    cases = fixed_cases() + c17_hist.fixed_hist_cases() + [gen_scaled_ages_case(rs, 8) for _ in range(150)] \
        + exhaustive_cases(4)
    while time.time() - t0 < budget_s and n < 20000:
        case = cases[n] if n < len(cases) else gen_case(rng, 10)
        n += 1
        try:
            obs = observe(case)
        except Exception:
            continue
        v = oracle(case, obs)
        if v:
            ctx.violation(v[0], {"case": case, "observed": obs}, key=v[1])
            if ctx.violations:
                return
    ctx.notes.append("search: %d further cases through the oracle, no unlisted violation" % n)


def proof_stage_stable(ctx):
    """core.proof_stage, repeated when another check regenerated coq/Gen/Ages.v from a different source
    tree between our regeneration and our build (coq/Gen is shared; only relevant under DV_REPO)."""
    import os
    from dv import gen_ages
    ok = False
    for _attempt in range(4):
        n_obl, n_notes = len(ctx.obligations), len(ctx.notes)
        ok = core.proof_stage(ctx, ["Props/C17.vo"], gen_needed=("Ages",))
        try:
            expected = gen_ages.generate(core.REPO)
        except Exception:
            return ok               # the translator failed closed: already recorded by proof_stage
        try:
            with open(os.path.join(core.COQ, "Gen", "Ages.v")) as f:
                actual = f.read()
        except OSError:
            actual = None
        if actual == expected:
            ctx.obligation("coq/Gen/Ages.v is the translation of the source tree under check", True)
            return ok
        del ctx.obligations[n_obl:]
        del ctx.notes[n_notes:]
    ctx.obligation("coq/Gen/Ages.v is the translation of the source tree under check", False)
    ctx.notes.append("coq/Gen/Ages.v kept being overwritten by concurrent checks of another source tree")
    return False


def run(tier, seed, replay=None):
    ctx = core.Ctx("C17", tier, seed)
    ctx.assumptions = [
        "model coq/Model/C17Model.v is a hand transcription of the anchored methods; tied by this correspondence run and, for "
        "calc_node_ages / calc_node_root_distances / num_lineages_at / B1 / colless / sackin / N_bar / treeness, by the translator "
        "py/dv/gen_ages.py (coq/Gen/Ages.v regenerated from the source every run) with machine-checked equalities generated = model "
        "(Props/C17.v gen_*_eq); trusted there: the Python meaning of the primitives in coq/Model/C17Prims.v",
        "exact arithmetic: lengths/ages/precisions are integers in units of 2^-10 (binary64 +,- exact on the generated trees); "
        "a float precision p is represented by floor(p/unit), which decides d > p identically for every integer d",
        "float-valued statistics are compared with the model's exact rational within 1e-12*(1+|a|+|b|); ln n, ln 2, n^1.5 and "
        "sqrt(1/(12(n-2))) are taken from Python's math library (the model checks pow15^2 = n^3, sqrt_f^2*12(n-2) = 1 and the "
        "Euler constant numerically; ln values are trusted)",
        "set_node_age_fn is not modelled; stale `age` attributes (pybus_harvey_gamma reuses them) are outside the model: every call is on a fresh tree",
        "after an exception leaves calc_node_ages only its class and the number of nodes already aged (post-order prefix) are compared, not the lengths coerced so far",
        "the model has two forms of the ultrametricity test (present first-child test / proposed global test); the harness picks the one the working tree implements by replaying the F16 witness",
    ]
    if replay:
        import json
        r = json.load(open(replay))["replay"]
        case = r["case"]
        obs = observe(case)
        print("observed:", obs)
        print("oracle:", oracle(case, obs))
        return 0
    ctx.notes.append("ultrametricity test of the working tree: %s"
                     % ("global (repaired form, model calc_node_ages_fix)" if fixed_variant()
                        else "local to first-child paths (model calc_node_ages; F16 present)"))
    ok = proof_stage_stable(ctx)
    if not ok:
        core.broken_proof(ctx, search)
    n = 800 if tier == "quick" else 20000
    maxl = 10 if tier == "quick" else 24
    STALE_GAMMA[0] = c17_hist.KEY_GAMMA_STALE in ctx.known
    cases = fixed_cases() + c17_hist.fixed_hist_cases() + [gen_case(ctx.rng, maxl) for _ in range(n)]
    if tier == "thorough":
        cases.extend(exhaustive_cases(6))
    for c in cases:
        ctx.count("kind:" + c["kind"])
        ctx.count("gen:" + c["gen"].split("+")[0])
        if c["kind"] == "hist":
            for st in c["steps"]:
                ctx.count("hist-step:" + st[0])
        if c["kind"] == "ages":
            ctx.count("prec:" + str(c["prec"]))
            ctx.count("force:%s%s" % ("max" if c["fmax"] else "", "min" if c["fmin"] else ""))
    outcomes = {}

    def observe_counted(case):
        obs = observe(case)
        if case["kind"] == "ages":
            k = "ages:" + (obs["calc"][0] if obs["calc"][0] == "ok" else obs["calc"][1])
            outcomes[k] = outcomes.get(k, 0) + 1
        return obs
    core.corr_stage(ctx, cases, observe_counted, to_coq, HEADER, "(forallb case_ok)", oracle=oracle,
                    show_fn="(map case_run)", nontrivial=nontrivial, search=search, shard=100,
                    sample_fn=lambda c, o: {"kind": c["kind"], "gen": c["gen"], "newick": trees.newick(c["tree"]),
                                            "prec": c.get("prec"), "observed": str(o)[:300]})
    for k, v in outcomes.items():
        ctx.count("outcome:" + k, v)
    return ctx.finish(level="proof",
                      rule="random trees (1-%d leaves; ultrametric from random dyadic node ages, one or two edges perturbed by "
                           "precision-1/precision/precision+1 units, random non-ultrametric, None / negative lengths, "
                           "unifurcations, polytomies) x 18 precision values incl. None/False/negative/default x forcing options; "
                           "a quarter of the ages cases are time-scale regimes: node-age steps x 1e3 / x 1e7 (ages up to ~4e8) with "
                           "deviations of a few 2^-10 units at precisions 0 / 1e-9 / 1e-5 / 1e-3, and trees of height ~4 on a 2^-40 "
                           "grid with deviations of 1 unit and ~1e-9 at precisions 0 / 1e-9 / 2e-9 / 1e-12 (all values exact in "
                           "binary64; oracle: rejected iff some node's tip paths differ by more than the precision, in exact integers); "
                           "depth cases query num_lineages_at at node depths +-1 unit; stats cases cover every normalisation and "
                           "the child-reversed tree; 8%% of the cases hand the gamma entry point an explicit precision of every kind "
                           "(int 0, 0.0, False, None, default, 1e-12, 1e-9, negative, 1.0, one grid unit) through "
                           "treemeasure.pybus_harvey_gamma(prec=) and the deprecated Tree.pybus_harvey_gamma (keyword and positional) "
                           "on binary ultrametric trees of the 2^-40 and 2^-10 grids perturbed by precision-1/precision/precision+1 "
                           "units (oracle in exact integers: rejected when two first-child paths differ by more than prec, not "
                           "rejected when all tip paths agree within prec or prec disables the check, and the same verdict as "
                           "calc_node_ages with that precision on a fresh tree); 12%% of the cases are histories on one tree object (query group, 1-2 edits of the "
                           "lengths by scale_edges / assignment / set_edge_lengths_from_node_ages / reroot_at_node, query group again, "
                           "up to 3 rounds, after a call that leaves root_distance or age attributes behind) judged on the tree as it "
                           "is at each query; thorough adds every ordered shape with <= 6 leaves; a case is non-trivial when "
                           "the tree has >= 4 nodes; distinct by full case content" % maxl)
