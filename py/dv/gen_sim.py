"""Translator: tree simulators of DendroPy  ->  coq/Gen/Sim.v   (property C18).

generate(repo) parses model/coalescent.py, model/birthdeath.py and calculate/probability.py with
`ast` and compiles the functions listed in PLAN statement by statement into Gallina over the
run-time library coq/Model/C18Prims.v (whose header states the Python meaning of each primitive)
and the script monad of coq/Model/C18Model.v:

  * every function denotes  args -> M result  (M = the typed draw script + call log); the methods of
    the `rng` argument are interface operations: rng.random() -> d_unit, rng.expovariate(x) ->
    d_exp x, rng.gauss(m, s) -> d_gauss m s, rng.sample(l, 2) -> py_sample2 l, rng.choice(l) ->
    d_choice (length l), rng.shuffle(l) -> d_perm (length l); sub-expressions that draw are bound
    with `let!` in Python's evaluation order
  * `while` becomes py_while <fuel> (fun carried => body) carried: the body ends in CNext / CBreak /
    CReturn; the carried tuple = the variables assigned in the body that exist before the loop; the
    fuel expression is the only thing taken from PLAN (Python has none)
  * `for` becomes  map (element-wise mutation of value nodes), fold_left (accumulation), py_for
    (early `return` / `break`) or py_forM (body draws)
  * `if` with a non-trivial continuation joins the variables assigned in its branches in a tuple; a
    branch that ends in break / continue / return / raise takes no continuation; an `if` in tail
    position passes the continuation to both branches; a test whose value is known at translation
    time (a keyword option fixed by PLAN, `x is None` on a value that cannot be None) selects its
    branch statically
  * expressions are typed (Q numbers, option Q for "None or number", nat for len()/indices, Z for
    integer arithmetic that may go negative, bool, value nodes, node identities, lists); `x is None
    or e` / `if x is None: x = c` establish that x is not None afterwards (py_unwrap)
  * gene-tree nodes (coalescent.py) are values G taxon length children; nodes of the birth-death
    family are identities into the tree held in the threaded variables st_tr / st_rates / st_next
  * keyword options are bound from the call described in PLAN or from the DEFAULT written in the
    source (`kwargs.pop(name, default)`, parameter defaults)
  * parent pointers of identity nodes: nd.parent_node -> b_parent tree nd (option), `is not None`
    establishes the fact that lets `nd = nd.parent_node` / len(nd.parent_node._child_nodes) unwrap it;
    tree.prune_subtree(nd, suppress_unifurcations=False) -> b_prune_subtree; a set of nodes is a list
  * a function can be cut into parts at statements named in PLAN (start / stop predicates on the
    AST); each part is a definition over the variables live at the cut
  * contained_coalescent_tree (class FnS): the containing tree is a value, a dict keyed by nodes an
    association list keyed by node identity (D[k] -> py_dict_get, D[k] = v -> d_set, k in D -> d_has,
    D[k].append/extend -> get + set); the reverse-map tests / sorted(...) / population-size `if` are
    recognised as exact shapes and become the fields of the model's species node

It is a compiler for a whitelisted subset: operators, call names, argument order, comparison
directions, loop sources and bounds, which variable or attribute is updated all come from the AST.
Anything outside the subset raises Unsupported (py2coq then writes a stub and every dependent proof
breaks).  Facts about rng threading in geometric_rv / poisson_rv / discrete_time_to_coalescence are
extracted as booleans.
"""
import ast
import os
from fractions import Fraction

OUTPUT = "Sim.v"


class Unsupported(Exception):
    pass


NOCONST = object()


# ----------------------------------------------------------------------------------------------
# types
# ----------------------------------------------------------------------------------------------
def TList(t):
    return ("list", t)


def TPair(a, b):
    return ("pair", a, b)


def TOpt(t):
    return ("opt", t)


def coq_ty(t):
    if t == "Q":
        return "Q"
    if t == "OQ":
        return "(option Q)"
    if t == "N":
        return "nat"
    if t in ("ON", "ObN", "OsN"):
        return "(option nat)"
    if t in ("stree", "snode"):
        return "stree"
    if t == "sedge":
        return "(stree * option nat)"
    if isinstance(t, tuple) and t[0] == "dict":
        return "(list (nat * %s))" % coq_ty(t[2])
    if t == "Z":
        return "Z"
    if t == "B":
        return "bool"
    if t == "gnode":
        return "gtree"
    if t == "bnode":
        return "nat"
    if t == "tax":
        return "nat"
    if t == "lab":
        return "lab"
    if t == "A":
        return "A"
    if t == "unit":
        return "unit"
    if t == "treeh":
        return "unit"
    if t == "btree":
        return "btree"
    if t == "rates":
        return "(list (nat * Q))"
    if t == "labs":
        return "(list lab)"
    if t == "Olabs":
        return "(option (list lab))"
    if isinstance(t, tuple) and t[0] == "list":
        return "(list %s)" % coq_ty(t[1])
    if isinstance(t, tuple) and t[0] == "pair":
        return "(%s * %s)" % (coq_ty(t[1]), coq_ty(t[2]))
    if isinstance(t, tuple) and t[0] == "sample2":
        return "(nat * nat)"
    raise Unsupported("no Coq type for %r" % (t,))


def is_list(t):
    return isinstance(t, tuple) and t[0] == "list"


class Var:
    def __init__(self, ty, coq, const=NOCONST, version=0):
        self.ty, self.coq, self.const, self.version = ty, coq, const, version

    def copy(self):
        v = Var(self.ty, self.coq, self.const, self.version)
        for k_, x in self.__dict__.items():
            if k_ not in ("ty", "coq", "const", "version"):
                setattr(v, k_, x)
        return v


def vname(n):
    return "v_" + n


def recarry(n, v, bump):
    """the variable n as carried through a loop: same type and flags, bound by the loop's pattern"""
    w = v.copy()
    w.coq, w.const, w.version = vname(n), NOCONST, v.version + bump
    return w


def tuple_pat(names):
    if not names:
        return "(_ : unit)"
    if len(names) == 1:
        return names[0]
    return "'(" + ", ".join(names) + ")"


def tuple_val(vals):
    if not vals:
        return "tt"
    if len(vals) == 1:
        return vals[0]
    return "(" + ", ".join(vals) + ")"


def tuple_ty(tys):
    if not tys:
        return "unit"
    if len(tys) == 1:
        return coq_ty(tys[0])
    return "(" + " * ".join(coq_ty(t) for t in tys) + ")"


def qlit(v):
    fr = Fraction(repr(v)) if isinstance(v, float) else Fraction(v)
    if fr.denominator == 1:
        return "(%d)%%Q" % fr.numerator if fr.numerator < 0 else "%d%%Q" % fr.numerator
    return "(%d # %d)%%Q" % (fr.numerator, fr.denominator)


DEFAULTS = {"lab": "(LO 0)", "N": "0", "Q": "0%Q", "tax": "0"}


class K:
    """continuations of a block: fall (normal end), brk, cont, ret(text) - all produce text of the
    block's result type"""
    def __init__(self, fall, brk=None, cont=None, ret=None):
        self.fall, self.brk, self.cont, self.ret = fall, brk, cont, ret


# functions generated by this module that other generated functions may call
#   python name -> dict(coq, params=[python parameter names passed positionally to the Coq function],
#                       consts={param: value the translation is specialised to}, ret=type)
KNOWN = {}


class Fn:
    def __init__(self, fn, spec, module):
        self.fn, self.spec, self.module = fn, spec, module
        self.tmp = 0
        self.aux = []            # auxiliary definitions emitted before the function
        self.fuels = list(spec.get("fuel", []))
        self.ret_ty = spec["ret"]
        self.rng_name = spec.get("rng", "rng")

    # ------------------------------------------------------------------ helpers
    def fresh(self, base="x"):
        self.tmp += 1
        return "%s%d" % (base, self.tmp)

    def bad(self, node, msg):
        raise Unsupported("%s line %d: %s" % (self.fn.name, getattr(node, "lineno", 0), msg))

    @staticmethod
    def balanced(t):
        d = 0
        for ch in t:
            if ch == "(":
                d += 1
            elif ch == ")":
                d -= 1
                if d < 0:
                    return False
        return d == 0

    @staticmethod
    def wrap(pre, body):
        for var, m in reversed(pre):
            body = "(let! %s := %s in\n  %s)" % (var, m, body)
        return body

    def facts(self, env):
        return env.setdefault("$facts", frozenset())

    def with_fact(self, env, f):
        env = dict(env)
        env["$facts"] = self.facts(env) | {f}
        return env

    def drop_facts(self, env, name):
        env["$facts"] = frozenset(f for f in self.facts(env) if not (f[1] == name or f[1].startswith(name + ".")))

    @staticmethod
    def path(e):
        """Name / attribute chain as a dotted string, or None"""
        if isinstance(e, ast.Name):
            return e.id
        if isinstance(e, ast.Attribute):
            p = Fn.path(e.value)
            return None if p is None else p + "." + e.attr
        return None

    # ------------------------------------------------------------------ coercions
    def coerce(self, txt, a, b, node=None, env=None, path=None):
        if a == b:
            return txt
        if a == "N" and txt.isdigit() and b == "Q":
            return qlit(int(txt))
        if a == "N" and txt.isdigit() and b == "Z":
            return "%s%%Z" % txt
        if a == "none" and b in ("OQ", "ON", "Olabs"):
            return "None"
        if a == "ON" and b == "N":
            if env is not None and path is not None and ("nonnone", path) in self.facts(env):
                return "(py_unwrap_n %s)" % txt
            self.bad(node, "an integer that may be None is used as a number")
        if a == "Q" and b == "OQ":
            return "(Some %s)" % txt
        if a == "N" and b == "ON":
            return "(Some %s)" % txt
        if a == "N" and b == "Z":
            return "(Z.of_nat %s)" % txt
        if a == "N" and b == "Q":
            return "(inject_Z (Z.of_nat %s))" % txt
        if a == "Z" and b == "Q":
            return "(inject_Z %s)" % txt
        if a == "OQ" and b == "Q":
            if env is not None and path is not None and ("nonnone", path) in self.facts(env):
                return "(py_unwrap %s)" % txt
            self.bad(node, "a value that may be None is used as a number")
        if is_list(a) and b == ("list", "A"):
            return txt
        if is_list(a) and is_list(b) and a[1] is None:
            return "(@nil %s)" % coq_ty(b[1])
        if a == "tax" and b == "N" or a == "N" and b == "tax":
            return txt
        self.bad(node, "cannot coerce %r to %r" % (a, b))

    def join_ty(self, a, b, node):
        if a == b:
            return a
        for hi in ("OQ", "Q", "ON", "Z"):
            try:
                self.coerce("x", a, hi, node)
                self.coerce("x", b, hi, node)
                if {a, b} <= {"Q", "N", "Z"} and hi == "OQ":
                    continue
                return hi
            except Unsupported:
                pass
        self.bad(node, "cannot join types %r and %r" % (a, b))

    # ------------------------------------------------------------------ expressions
    def ex(self, e, env):
        """-> (pre, text, type, const)"""
        if isinstance(e, ast.Constant):
            v = e.value
            if v is None:
                return [], "tt", "none", None
            if isinstance(v, bool):
                return [], ("true" if v else "false"), "B", v
            if isinstance(v, int):
                if v >= 0:
                    return [], "%d" % v, "N", v
                return [], "(%d)%%Z" % v, "Z", v
            if isinstance(v, float):
                return [], qlit(v), "Q", v
            if isinstance(v, str):
                return [], "tt", "str", v
            self.bad(e, "constant %r" % (v,))
        if isinstance(e, ast.Name):
            if e.id not in env:
                self.bad(e, "unknown name %s" % e.id)
            v = env[e.id]
            if v.const is not NOCONST:
                c = v.const
                if c is None:
                    return [], "tt", "none", None
                if isinstance(c, bool):
                    return [], ("true" if c else "false"), "B", c
                if isinstance(c, (int, float)):
                    return self.ex(ast.copy_location(ast.Constant(value=c), e), env)
                if isinstance(c, str):
                    return [], "tt", "str", c
                self.bad(e, "constant value %r" % (c,))
            return [], v.coq, v.ty, NOCONST
        if isinstance(e, ast.Attribute):
            return self.attribute(e, env)
        if isinstance(e, ast.Call):
            return self.call(e, env)
        if isinstance(e, ast.Subscript):
            return self.subscript(e, env)
        if isinstance(e, ast.BinOp):
            return self.binop(e, env)
        if isinstance(e, ast.UnaryOp):
            if isinstance(e.op, ast.Not):
                pre, t, c = self.truth(e.operand, env)
                return pre, "(negb %s)" % t, "B", (NOCONST if c is NOCONST else (not c))
            if isinstance(e.op, ast.USub):
                pre, t, ty, c = self.ex(e.operand, env)
                if c is not NOCONST and isinstance(c, (int, float)) and not isinstance(c, bool):
                    return self.ex(ast.copy_location(ast.Constant(value=-c), e), env)
                if ty == "Q":
                    return pre, "(Qopp %s)" % t, "Q", NOCONST
            self.bad(e, "unary operator")
        if isinstance(e, ast.Compare):
            return self.compare(e, env)
        if isinstance(e, ast.BoolOp):
            return self.boolop(e, env)
        if isinstance(e, ast.ListComp):
            return self.comprehension(e, env)
        if isinstance(e, ast.List):
            if not e.elts:
                return [], "[]", TList(None), NOCONST
            pre, parts, ty = [], [], None
            for el in e.elts:
                p, t, y, _c = self.ex(el, env)
                pre += p
                parts.append(t)
                ty = y if ty is None else self.join_ty(ty, y, e)
            return pre, "[" + "; ".join(parts) + "]", TList(ty), NOCONST
        if isinstance(e, ast.Tuple) and len(e.elts) == 2:
            pa, a, ta, _ = self.ex(e.elts[0], env)
            pb, b, tb, _ = self.ex(e.elts[1], env)
            return pa + pb, "(%s, %s)" % (a, b), TPair(ta, tb), NOCONST
        self.bad(e, "expression %s" % type(e).__name__)

    def attribute(self, e, env):
        p = self.path(e)
        # value node: X.edge.length
        if (e.attr == "length" and isinstance(e.value, ast.Attribute) and e.value.attr == "edge"
                and isinstance(e.value.value, ast.Name) and e.value.value.id in env
                and env[e.value.value.id].ty == "gnode"):
            return [], "(g_len %s)" % env[e.value.value.id].coq, "OQ", NOCONST
        return self.attribute_b(e, env, p)

    def attribute_b(self, e, env, p):
        self.bad(e, "attribute .%s" % e.attr)

    def subscript(self, e, env):
        pre, t, ty, _c = self.ex(e.value, env)
        if isinstance(ty, tuple) and ty[0] == "sample2":
            if not (isinstance(e.slice, ast.Constant) and e.slice.value in (0, 1)):
                self.bad(e, "sample indexed by a non-constant")
            lst = env.get(ty[1])
            if lst is None or lst.version != ty[2]:
                self.bad(e, "sampled list %s was modified before the sampled object is used" % ty[1])
            return pre, "(py_ref %s (%s %s))" % (lst.coq, "fst" if e.slice.value == 0 else "snd", t), lst.ty[1], NOCONST
        if is_list(ty) and isinstance(e.slice, ast.Constant) and e.slice.value == 0:
            v = self.fresh("x")
            return pre + [(v, "(py_first %s)" % t)], v, ty[1], NOCONST
        if is_list(ty):
            p2, i, ity, _ = self.ex(e.slice, env)
            if ty[1] == "Q" and ity == "N" and isinstance(e.slice, ast.Name) and env[e.slice.id].ty == "N" \
                    and getattr(env[e.slice.id], "in_range_of", None) == self.path(e.value):
                return pre + p2, "(py_getitem_q %s %s)" % (t, i), "Q", NOCONST
            if ity in ("ON", "N"):
                v = self.fresh("x")
                return pre + p2 + [(v, "(py_index %s %s)" % (t, self.coerce(i, ity, "ON", e)))], v, ty[1], NOCONST
        self.bad(e, "subscript of %r" % (ty,))

    def num(self, e, env, want=None):
        """numeric operand -> (pre, text, type in Q/N/Z)"""
        pre, t, ty, c = self.ex(e, env)
        if ty == "OQ":
            t = self.coerce(t, "OQ", "Q", e, env, self.path(e))
            ty = "Q"
        if ty == "ON":
            t = self.coerce(t, "ON", "N", e, env, self.path(e))
            ty = "N"
        if ty not in ("Q", "N", "Z"):
            self.bad(e, "numeric operand of type %r" % (ty,))
        return pre, t, ty, c

    def binop(self, e, env):
        pa, a, ta, ca = self.num(e.left, env)
        pb, b, tb, cb = self.num(e.right, env)
        pre = pa + pb
        if isinstance(e.op, ast.Div):
            return pre, "(%s / %s)%%Q" % (self.coerce(a, ta, "Q", e), self.coerce(b, tb, "Q", e)), "Q", NOCONST
        if "Q" in (ta, tb):
            a, b = self.coerce(a, ta, "Q", e), self.coerce(b, tb, "Q", e)
            op = {ast.Add: "+", ast.Sub: "-", ast.Mult: "*"}.get(type(e.op))
            if op is None:
                self.bad(e, "operator %s on numbers" % type(e.op).__name__)
            return pre, "(%s %s %s)%%Q" % (a, op, b), "Q", NOCONST
        if isinstance(e.op, ast.Sub):        # integers: may go negative
            return pre, "(%s - %s)%%Z" % (self.coerce(a, ta, "Z", e), self.coerce(b, tb, "Z", e)), "Z", NOCONST
        if isinstance(e.op, (ast.Add, ast.Mult)):
            op = "+" if isinstance(e.op, ast.Add) else "*"
            if ta == tb == "N":
                return pre, "(%s %s %s)" % (a, op, b), "N", NOCONST
            return pre, "(%s %s %s)%%Z" % (self.coerce(a, ta, "Z", e), op, self.coerce(b, tb, "Z", e)), "Z", NOCONST
        self.bad(e, "operator %s" % type(e.op).__name__)

    def compare(self, e, env):
        if len(e.ops) != 1:
            self.bad(e, "chained comparison")
        op, l, r = e.ops[0], e.left, e.comparators[0]
        if isinstance(op, (ast.Is, ast.IsNot)):
            if not (isinstance(r, ast.Constant) and r.value is None):
                self.bad(e, "`is` against something else than None")
            pre, t, ty, c = self.ex(l, env)
            if c is not NOCONST:
                v = (c is None)
            elif ty in ("OQ", "ON", "ObN", "OsN", "Olabs"):
                v = NOCONST
                res = "(py_is_none %s)" % t
            elif ty == "none":
                v = True
            else:
                v = False          # a number / node / list is never None
            if v is not NOCONST:
                v = v if isinstance(op, ast.Is) else (not v)
                return [], ("true" if v else "false"), "B", v
            if isinstance(op, ast.IsNot):
                res = "(negb %s)" % res
            return pre, res, "B", NOCONST
        if isinstance(op, (ast.In, ast.NotIn)):
            return self.contains(e, op, l, r, env)
        pa, a, ta, ca = self.num(l, env)
        pb, b, tb, cb = self.num(r, env)
        pre = pa + pb
        if ca is not NOCONST and cb is not NOCONST:
            v = {ast.Eq: ca == cb, ast.NotEq: ca != cb, ast.Lt: ca < cb, ast.LtE: ca <= cb,
                 ast.Gt: ca > cb, ast.GtE: ca >= cb}[type(op)]
            return [], ("true" if v else "false"), "B", v
        if "Q" in (ta, tb):
            a, b = self.coerce(a, ta, "Q", e), self.coerce(b, tb, "Q", e)
            txt = {ast.Lt: "(Qltb %s %s)" % (a, b), ast.Gt: "(Qltb %s %s)" % (b, a),
                   ast.LtE: "(Qle_bool %s %s)" % (a, b), ast.GtE: "(Qle_bool %s %s)" % (b, a),
                   ast.Eq: "(Qeq_bool %s %s)" % (a, b), ast.NotEq: "(negb (Qeq_bool %s %s))" % (a, b)}[type(op)]
            return pre, txt, "B", NOCONST
        if ta == tb == "N":
            txt = {ast.Lt: "(%s <? %s)" % (a, b), ast.Gt: "(%s <? %s)" % (b, a),
                   ast.LtE: "(%s <=? %s)" % (a, b), ast.GtE: "(%s <=? %s)" % (b, a),
                   ast.Eq: "(%s =? %s)" % (a, b), ast.NotEq: "(negb (%s =? %s))" % (a, b)}[type(op)]
            return pre, txt, "B", NOCONST
        a, b = self.coerce(a, ta, "Z", e), self.coerce(b, tb, "Z", e)
        txt = {ast.Lt: "(%s <? %s)%%Z" % (a, b), ast.Gt: "(%s <? %s)%%Z" % (b, a),
               ast.LtE: "(%s <=? %s)%%Z" % (a, b), ast.GtE: "(%s <=? %s)%%Z" % (b, a),
               ast.Eq: "(%s =? %s)%%Z" % (a, b), ast.NotEq: "(negb (%s =? %s)%%Z)" % (a, b)}[type(op)]
        return pre, txt, "B", NOCONST

    def contains(self, e, op, l, r, env):
        self.bad(e, "`in`")

    def truth(self, e, env):
        """-> (pre, bool text, const)"""
        pre, t, ty, c = self.ex(e, env)
        if c is not NOCONST:
            return [], ("true" if c else "false"), bool(c)
        if ty == "B":
            return pre, t, NOCONST
        if ty == "Q":
            return pre, "(negb (py_not_q %s))" % t, NOCONST
        if is_list(ty):
            return pre, "(negb (length %s =? 0))" % t, NOCONST
        self.bad(e, "truth value of %r" % (ty,))

    def cond(self, e, env):
        """condition of if/while -> (pre, text, const, env_true, env_false)"""
        if isinstance(e, ast.UnaryOp) and isinstance(e.op, ast.Not):
            pre, t, c, et, ef = self.cond(e.operand, env)
            neg = t[6:-1] if t.startswith("(negb ") and t.endswith(")") and t.count("(") == t.count(")") and self.balanced(t[6:-1]) else "(negb %s)" % t
            return pre, neg, (NOCONST if c is NOCONST else (not c)), ef, et
        if isinstance(e, ast.BoolOp):
            is_or = isinstance(e.op, ast.Or)
            cur_env = env
            pre_all, parts, known = [], [], NOCONST
            et, ef = env, env
            for i, v in enumerate(e.values):
                pre, t, c, vt, vf = self.cond(v, cur_env)
                if pre and i > 0:
                    self.bad(e, "a generator call in a short-circuit operand")
                pre_all += pre
                if c is not NOCONST:
                    if bool(c) == is_or:          # true in `or` / false in `and`: decides the whole test
                        if not parts:
                            return [], ("true" if is_or else "false"), is_or, env, env
                        parts.append("true" if is_or else "false")
                        break
                    continue                      # neutral element: drop the operand
                parts.append(t)
                cur_env = vf if is_or else vt     # facts that hold when evaluation continues
            if not parts:
                return [], ("false" if is_or else "true"), (not is_or), env, env
            out = parts[-1]
            for p in reversed(parts[:-1]):
                out = "(%s || %s)" % (p, out) if is_or else "(%s && %s)" % (p, out)
            if is_or:
                et, ef = env, cur_env
            else:
                et, ef = cur_env, env
            return pre_all, out, NOCONST, et, ef
        if isinstance(e, ast.Compare) and len(e.ops) == 1 and isinstance(e.ops[0], (ast.Is, ast.IsNot)) \
                and isinstance(e.comparators[0], ast.Constant) and e.comparators[0].value is None:
            pre, t, ty, c = self.compare(e, env)
            p = self.path(e.left)
            et, ef = env, env
            if c is NOCONST and p is not None:
                if isinstance(e.ops[0], ast.Is):
                    ef = self.with_fact(env, ("nonnone", p))
                else:
                    et = self.with_fact(env, ("nonnone", p))
            return pre, t, c, et, ef
        pre, t, c = self.truth(e, env)
        return pre, t, c, env, env

    def boolop(self, e, env):
        pre, t, c, _a, _b = self.cond(e, env)
        return pre, t, "B", c

    def comprehension(self, e, env):
        if len(e.generators) != 1 or e.generators[0].ifs or not isinstance(e.generators[0].target, ast.Name):
            self.bad(e, "comprehension form")
        g = e.generators[0]
        pre, src, sty, _ = self.ex(g.iter, env)
        if not is_list(sty):
            self.bad(e, "comprehension over %r" % (sty,))
        env2 = dict(env)
        env2[g.target.id] = Var(sty[1], vname(g.target.id))
        epre, et, ety, _ = self.ex(e.elt, env2)
        if epre:
            self.bad(e, "comprehension element that draws")
        return pre, "(map (fun %s => %s) %s)" % (vname(g.target.id), et, src), TList(ety), NOCONST

    # ------------------------------------------------------------------ calls
    def bind_call(self, e, callee_fn, node_args_offset=0):
        """python arguments of a call to a function whose def is known -> {param: ast or ('default', ast)}"""
        params = [a.arg for a in callee_fn.args.args]
        defaults = callee_fn.args.defaults
        dmap = dict(zip(params[len(params) - len(defaults):], defaults))
        out = {}
        for i, a in enumerate(e.args):
            out[params[i]] = a
        for kw in e.keywords:
            if kw.arg is None or kw.arg not in params:
                self.bad(e, "keyword argument %r" % kw.arg)
            out[kw.arg] = kw.value
        for p in params:
            if p not in out:
                if p not in dmap:
                    self.bad(e, "missing argument %s" % p)
                out[p] = dmap[p]
        return out

    def call_known(self, e, name, env):
        # the specialisation whose fixed options are the ones of this call
        args = self.bind_call(e, KNOWN[name][0]["fn"])
        k = None
        for cand in KNOWN[name]:
            ok = True
            for p, val in cand["consts"].items():
                _pp, _t, _ty, c = self.ex(args[p], env)
                if c is NOCONST or c != val or type(c) != type(val):
                    ok = False
            if ok:
                k = cand
                break
        if k is None:
            k = KNOWN[name][0]       # reported below
        pre, texts = [], []
        for p, want in k["params"]:
            pp, t, ty, _c = self.ex(args[p], env)
            pre += pp
            texts.append(self.coerce(t, ty, want, e, env, self.path(args[p])))
        for p, val in k["consts"].items():
            _pp, _t, _ty, c = self.ex(args[p], env)
            if c is NOCONST or c != val or type(c) != type(val):
                self.bad(e, "%s is translated for %s = %r only" % (name, p, val))
        rp = k.get("rng")
        if rp:
            a = args[rp]
            if not (isinstance(a, ast.Name) and a.id in env and env[a.id].ty == "rng"):
                self.bad(e, "%s must be called with the generator that was passed in" % name)
        v = self.fresh("x")
        return pre + [(v, "(%s %s)" % (k["coq"], " ".join(texts)))], v, k["ret"], NOCONST

    def call(self, e, env):
        f = e.func
        # rng methods
        if isinstance(f, ast.Attribute) and isinstance(f.value, ast.Name) and f.value.id in env \
                and env[f.value.id].ty == "rng":
            return self.rng_call(e, f.attr, env)
        fname = f.id if isinstance(f, ast.Name) else (f.attr if isinstance(f, ast.Attribute) else None)
        qual = self.path(f)
        if fname in KNOWN and qual in (fname, "probability." + fname, "coalescent." + fname):
            return self.call_known(e, fname, env)
        if qual == "len" and len(e.args) == 1 and not e.keywords:
            pre, t, ty, _ = self.ex(e.args[0], env)
            if not is_list(ty):
                self.bad(e, "len of %r" % (ty,))
            return pre, "(length %s)" % t, "N", NOCONST
        if qual == "sum" and len(e.args) == 1 and not e.keywords:
            pre, t, ty, _ = self.ex(e.args[0], env)
            if ty != TList("Q"):
                self.bad(e, "sum of %r" % (ty,))
            return pre, "(py_sum %s)" % t, "Q", NOCONST
        if qual == "list" and len(e.args) == 1 and not e.keywords:
            pre, t, ty, _ = self.ex(e.args[0], env)
            if not is_list(ty):
                self.bad(e, "list() of %r" % (ty,))
            return pre, t, ty, NOCONST
        if qual == "float" and len(e.args) == 1 and not e.keywords and isinstance(e.args[0], ast.Constant) \
                and isinstance(e.args[0].value, int) and not isinstance(e.args[0].value, bool):
            return [], qlit(e.args[0].value), "Q", NOCONST
        if qual == "combinatorics.choose" and len(e.args) == 2 and not e.keywords:
            pa, a, ta, _ = self.ex(e.args[0], env)
            _pb, _b, _tb, cb = self.ex(e.args[1], env)
            if cb != 2 or ta != "N":
                self.bad(e, "choose(n, k) is translated for k = 2 only")
            return pa, "(py_choose2 %s)" % a, "Q", NOCONST
        if qual in ("dendropy.Node", "new_node") and not e.args:
            if qual == "new_node" and not ("new_node" in env and env["new_node"].ty == "nodeclass"):
                self.bad(e, "new_node is not the node class")
            tax = "None"
            for kw in e.keywords:
                if kw.arg != "taxon":
                    self.bad(e, "Node(%s=..)" % kw.arg)
                p, t, ty, _ = self.ex(kw.value, env)
                if p or ty != "tax":
                    self.bad(e, "Node(taxon=<%r>)" % (ty,))
                tax = "(Some %s)" % t
            return [], "(g_new %s)" % tax, "gnode", NOCONST
        if qual == "dendropy.Tree":
            kws = {kw.arg: kw.value for kw in e.keywords}
            if e.args or set(kws) != {"taxon_namespace", "seed_node"}:
                self.bad(e, "Tree(...) form")
            return self.ex(kws["seed_node"], env)      # a tree is its seed node
        return self.call_b(e, qual, env)

    def call_b(self, e, qual, env):
        self.bad(e, "call %s" % (qual or ast.dump(e.func)))

    def rng_call(self, e, meth, env):
        if e.keywords:
            self.bad(e, "rng.%s with keywords" % meth)
        v = self.fresh("x")
        if meth == "random" and not e.args:
            return [(v, "d_unit")], v, "Q", NOCONST
        if meth == "expovariate" and len(e.args) == 1:
            p, t, ty, _ = self.num(e.args[0], env)
            return p + [(v, "(py_expovariate %s)" % self.coerce(t, ty, "Q", e))], v, "Q", NOCONST
        if meth == "gauss" and len(e.args) == 2:
            pa, a, ta, _ = self.num(e.args[0], env)
            pb, b, tb, _ = self.num(e.args[1], env)
            return pa + pb + [(v, "(d_gauss %s %s)" % (self.coerce(a, ta, "Q", e), self.coerce(b, tb, "Q", e)))], v, "Q", NOCONST
        if meth == "sample" and len(e.args) == 2 and isinstance(e.args[0], ast.Name) \
                and isinstance(e.args[1], ast.Constant) and e.args[1].value == 2:
            lst = env.get(e.args[0].id)
            if lst is None or not is_list(lst.ty):
                self.bad(e, "rng.sample of a non-list")
            return [(v, "(py_sample2 %s)" % lst.coq)], v, ("sample2", e.args[0].id, lst.version), NOCONST
        if meth == "choice" and len(e.args) == 1:
            p, t, ty, _ = self.ex(e.args[0], env)
            if not is_list(ty) or p:
                self.bad(e, "rng.choice of %r" % (ty,))
            i = self.fresh("i")
            return [(i, "(d_choice (length %s))" % t)], "(nth %s %s 0)" % (i, t), ty[1], NOCONST
        if meth == "randint" and len(e.args) == 2:
            pa, a, ta, _ = self.num(e.args[0], env)
            pb, b, tb, _ = self.num(e.args[1], env)
            if ta != "N":
                self.bad(e, "rng.randint lower bound")
            hi = b if tb == "N" else "(Z.to_nat %s)" % b
            return pa + pb + [(v, "(d_randint %s %s)" % (a, hi))], v, "N", NOCONST
        if meth == "uniform" and len(e.args) == 2 and all(
                isinstance(a, ast.Constant) and isinstance(a.value, int) and not isinstance(a.value, bool)
                for a in e.args) and (e.args[0].value, e.args[1].value) == (0, 1):
            return [(v, "py_uniform01")], v, "Q", NOCONST
        self.bad(e, "rng.%s" % meth)

    # ------------------------------------------------------------------ statement analysis
    def assigned(self, stmts, env):
        """names (of env / new locals) a block may rebind, in first-assignment order"""
        out = []

        def add(n):
            if n not in out:
                out.append(n)

        def tgt(t):
            if isinstance(t, ast.Name):
                add(t.id)
            elif isinstance(t, ast.Tuple):
                for x in t.elts:
                    tgt(x)
            elif isinstance(t, ast.Attribute):
                for n in self.attr_store_vars(t, env):
                    add(n)
            elif isinstance(t, ast.Subscript):
                p = self.path(t.value)
                if p is None:
                    self.bad(t, "subscript store")
                add(p.split(".")[0])
            else:
                self.bad(t, "assignment target")

        env = dict(env)
        for s in stmts:
            if isinstance(s, ast.Assign):
                for t in s.targets:
                    tgt(t)
                for n in self.expr_store_vars(s.value, env):
                    add(n)
                if len(s.targets) == 1 and isinstance(s.targets[0], ast.Name):
                    save = self.tmp
                    try:
                        _p, _t, ty, _c = self.ex(s.value, env)
                    except Unsupported:
                        ty = "?"
                    self.tmp = save
                    env[s.targets[0].id] = Var(ty, vname(s.targets[0].id))
            elif isinstance(s, ast.AugAssign):
                tgt(s.target)
            elif isinstance(s, ast.Expr):
                for n in self.expr_store_vars(s.value, env):
                    add(n)
            elif isinstance(s, ast.If):
                _pre, _t, c, _a, _b = self.cond_const_only(s.test, env)
                branches = [s.body, s.orelse] if c is NOCONST else ([s.body] if c else [s.orelse])
                for b in branches:
                    for n in self.assigned(b, env):
                        add(n)
            elif isinstance(s, (ast.For, ast.While)):
                if isinstance(s, ast.For):
                    inner = dict(env)
                    fs = self.for_source(s, env)
                    if fs is not None:
                        inner.update(fs[2])
                    for n in self.assigned(s.body, inner):
                        if fs is None or n not in fs[2]:
                            add(n)
                        elif fs[3] is not None:
                            add(fs[3])          # element-wise mutation rebinds the list
                else:
                    for n in self.assigned(s.body, env):
                        add(n)
            elif isinstance(s, ast.Try):
                for b in [s.body] + [h.body for h in s.handlers]:
                    for n in self.assigned(b, env):
                        add(n)
            elif isinstance(s, ast.Delete):
                for t in s.targets:
                    if not (isinstance(t, ast.Subscript) and isinstance(t.value, ast.Name)):
                        self.bad(s, "del form")
                    add(t.value.id)
            elif isinstance(s, (ast.Return, ast.Break, ast.Continue, ast.Pass, ast.Raise, ast.Assert)):
                pass
            else:
                self.bad(s, "statement %s" % type(s).__name__)
        return out

    def local_types(self, stmts, env):
        """types of the names assigned by simple assignments in a block (best effort)"""
        out = {}
        env = dict(env)
        for s in stmts:
            if isinstance(s, (ast.Assign, ast.AugAssign)):
                t = s.targets[0] if isinstance(s, ast.Assign) else s.target
                if isinstance(t, ast.Name):
                    save = self.tmp
                    try:
                        if isinstance(s, ast.Assign):
                            _p, _t, ty, _c = self.ex(s.value, env)
                        else:
                            ty = env[t.id].ty
                    except (Unsupported, KeyError):
                        ty = None
                    self.tmp = save
                    if ty is not None:
                        out[t.id] = ty
                        env[t.id] = Var(ty, vname(t.id))
            elif isinstance(s, ast.If):
                out.update(self.local_types(s.body, env))
                out.update(self.local_types(s.orelse, env))
        return out

    def cond_const_only(self, e, env):
        try:
            return self.cond(e, env)
        except Unsupported:
            return [], "?", NOCONST, env, env

    def attr_store_vars(self, t, env):
        """variables rebound by an attribute store"""
        root = self.path(t)
        if root is None:
            self.bad(t, "attribute store")
        r = root.split(".")[0]
        if r in env and env[r].ty == "gnode":
            return [r]
        return self.attr_store_vars_b(t, r, env)

    def attr_store_vars_b(self, t, r, env):
        self.bad(t, "store to attribute of %s" % r)

    def expr_store_vars(self, e, env):
        """variables rebound by evaluating an expression statement (method calls on lists / nodes)"""
        if isinstance(e, ast.Call) and isinstance(e.func, ast.Attribute) and isinstance(e.func.value, ast.Name):
            r, m = e.func.value.id, e.func.attr
            if r in env and is_list(env[r].ty) and m in ("append", "remove", "extend"):
                return [r]
            if r in env and env[r].ty == "gnode" and m == "add_child":
                return [r]
        return self.expr_store_vars_b(e, env)

    def expr_store_vars_b(self, e, env):
        return []

    def is_monadic(self, stmts, env):
        for s in stmts:
            for n in ast.walk(s):
                if isinstance(n, (ast.Raise, ast.While, ast.Delete)):
                    return True
                if isinstance(n, ast.Subscript) and isinstance(n.ctx, ast.Store) and isinstance(n.value, ast.Name) \
                        and n.value.id in env and is_list(env[n.value.id].ty):
                    return True
                if isinstance(n, ast.Call):
                    f = n.func
                    if isinstance(f, ast.Attribute) and isinstance(f.value, ast.Name) and f.value.id in env \
                            and env[f.value.id].ty == "rng":
                        return True
                    fname = f.id if isinstance(f, ast.Name) else (f.attr if isinstance(f, ast.Attribute) else None)
                    if fname in KNOWN or fname in self.monadic_calls():
                        return True
                if isinstance(n, ast.Subscript) and isinstance(n.ctx, ast.Load):
                    # indexing can raise, unless the index ranges over the indexed list / names a sampled object
                    v = n.value
                    if isinstance(v, ast.Name) and v.id in env and isinstance(env[v.id].ty, tuple) \
                            and env[v.id].ty[0] == "sample2":
                        continue
                    if isinstance(n.slice, ast.Name) and n.slice.id in env \
                            and getattr(env[n.slice.id], "in_range_of", None) == self.path(v):
                        continue
                    if isinstance(n.slice, ast.Name) and n.slice.id not in env:
                        continue          # a body-local index: decided when the body is compiled
                    return True
        return False

    def monadic_calls(self):
        return ()

    def abrupt(self, stmts, env):
        """does the block always end in break / continue / return / raise?"""
        for s in stmts:
            if isinstance(s, (ast.Return, ast.Break, ast.Continue, ast.Raise)):
                return True
            if isinstance(s, ast.If):
                _p, _t, c, _a, _b = self.cond_const_only(s.test, env)
                if c is NOCONST:
                    if s.orelse and self.abrupt(s.body, env) and self.abrupt(s.orelse, env):
                        return True
                elif self.abrupt(s.body if c else s.orelse, env):
                    return True
        return False

    def has(self, stmts, kinds, env, stop_at_loops=True):
        for s in stmts:
            if isinstance(s, kinds):
                return True
            if isinstance(s, ast.If):
                _p, _t, c, _a, _b = self.cond_const_only(s.test, env)
                bs = [s.body, s.orelse] if c is NOCONST else ([s.body] if c else [s.orelse])
                if any(self.has(b, kinds, env, stop_at_loops) for b in bs):
                    return True
            if isinstance(s, (ast.For, ast.While)):
                if ast.Return in (kinds if isinstance(kinds, tuple) else (kinds,)) and self.has(s.body, ast.Return, env, stop_at_loops):
                    return True
                if not stop_at_loops and self.has(s.body, kinds, env, stop_at_loops):
                    return True
            if isinstance(s, ast.Try):
                if any(self.has(b, kinds, env, stop_at_loops) for b in [s.body] + [h.body for h in s.handlers]):
                    return True
        return False

    def lift(self, kind, binders, body, env, bound):
        """emit `Definition <fn>_<kind><n> <free variables> := fun <binders> => body` before the function
        and return the application of that name to the free variables"""
        import re as _re
        self.nlift = getattr(self, "nlift", 0) + 1
        name = "%s_%s%d" % (self.spec["coq"], kind, self.nlift)
        words = set(_re.findall(r"\bv_[A-Za-z0-9_]+\b", body))
        fvs = []
        for n, v in env.items():
            if isinstance(v, Var) and v.const is NOCONST and v.coq in words and v.coq not in bound \
                    and v.ty not in ("rng", "nodeclass", "const", "none", "str") and v.coq not in [f[0] for f in fvs]:
                fvs.append((v.coq, coq_ty(v.ty)))
        self.aux.append("Definition %s %s :=\n  fun %s => %s.\n\n" % (
            name, " ".join("(%s : %s)" % f for f in fvs), binders, body))
        return "(%s%s)" % (name, "".join(" " + f[0] for f in fvs)) if fvs else name

    # ------------------------------------------------------------------ blocks
    def let(self, var, val, body):
        return "(let %s := %s in\n  %s)" % (var, val, body)

    def bind(self, env, name, ty, const=NOCONST, **extra):
        env = dict(env)
        old = env.get(name)
        v = Var(ty, vname(name), const, (old.version + 1) if old else 0)
        for k_, x in extra.items():
            setattr(v, k_, x)
        env[name] = v
        self.drop_facts(env, name)
        return env

    def block(self, stmts, env, k, mode):
        """mode 'M': result text : M T ; mode 'P': result text : T"""
        if not stmts:
            return k.fall(env)
        s, rest = stmts[0], stmts[1:]
        m = getattr(self, "st_" + type(s).__name__, None)
        if m is None:
            self.bad(s, "statement %s" % type(s).__name__)
        return m(s, rest, env, k, mode)

    def emit_pre(self, pre, body, mode, node):
        if pre and mode != "M":
            self.bad(node, "a generator call / operation that can raise inside a pure block")
        return self.wrap(pre, body)

    def st_Pass(self, s, rest, env, k, mode):
        return self.block(rest, env, k, mode)

    def st_Break(self, s, rest, env, k, mode):
        if k.brk is None:
            self.bad(s, "break outside a loop")
        return k.brk(env)

    def st_Continue(self, s, rest, env, k, mode):
        if k.cont is None:
            self.bad(s, "continue outside a loop")
        return k.cont(env)

    def st_Return(self, s, rest, env, k, mode):
        if k.ret is None:
            self.bad(s, "return here")
        if s.value is None:
            return k.ret("tt", "none", env)
        pre, t, ty, _c = self.ex(s.value, env)
        t = self.coerce(t, ty, self.ret_ty, s, env, self.path(s.value))
        return self.emit_pre(pre, k.ret(t, self.ret_ty, env), mode, s)

    def st_Raise(self, s, rest, env, k, mode):
        if mode != "M":
            self.bad(s, "raise inside a pure block")
        exc = s.exc
        name = None
        if isinstance(exc, ast.Call):
            name = self.path(exc.func)
        elif exc is not None:
            name = self.path(exc)
        err = {"Exception": "OtherErr", "ValueError": "ValueErr", "TypeError": "TypeErr",
               "IndexError": "IndexErr", "KeyError": "KeyErr",
               "TreeSimTotalExtinctionException": "OtherErr"}.get(name)
        if err is None:
            self.bad(s, "raise %s" % name)
        return "(raise PyPrims.%s)" % err

    def st_Assert(self, s, rest, env, k, mode):
        return self.block_assert(s, rest, env, k, mode)

    def block_assert(self, s, rest, env, k, mode):
        self.bad(s, "assert")

    def st_Expr(self, s, rest, env, k, mode):
        e = s.value
        if isinstance(e, ast.Constant) and isinstance(e.value, str):
            return self.block(rest, env, k, mode)        # doc string
        if isinstance(e, ast.Call) and isinstance(e.func, ast.Attribute) and isinstance(e.func.value, ast.Name):
            r, meth = e.func.value.id, e.func.attr
            if r in env and is_list(env[r].ty) and meth == "append" and len(e.args) == 1:
                pre, t, ty, _ = self.ex(e.args[0], env)
                lty = env[r].ty
                if lty[1] is None:
                    lty = TList(ty)
                t = self.coerce(t, ty, lty[1], e)
                old = env[r].coq
                env2 = self.bind(env, r, lty)
                return self.emit_pre(pre, self.let(env2[r].coq, "(%s ++ [%s])" % (old, t),
                                                   self.block(rest, env2, k, mode)), mode, s)
            if r in env and is_list(env[r].ty) and meth == "remove" and len(e.args) == 1:
                return self.list_remove(s, e, r, rest, env, k, mode)
            if r in env and env[r].ty == "gnode" and meth == "add_child" and len(e.args) == 1:
                pre, t, ty, _ = self.ex(e.args[0], env)
                if ty != "gnode":
                    self.bad(s, "add_child(%r)" % (ty,))
                old = env[r].coq
                env2 = self.bind(env, r, "gnode")
                return self.emit_pre(pre, self.let(env2[r].coq, "(g_add_child %s %s)" % (old, t),
                                                   self.block(rest, env2, k, mode)), mode, s)
        return self.st_Expr_b(s, rest, env, k, mode)

    def st_Expr_b(self, s, rest, env, k, mode):
        self.bad(s, "expression statement")

    def list_remove(self, s, e, r, rest, env, k, mode):
        a = e.args[0]
        # l.remove(sample[k])
        if isinstance(a, ast.Subscript) and isinstance(a.value, ast.Name) and a.value.id in env \
                and isinstance(env[a.value.id].ty, tuple) and env[a.value.id].ty[0] == "sample2" \
                and isinstance(a.slice, ast.Constant) and a.slice.value in (0, 1):
            sv = env[a.value.id]
            if sv.ty[1] != r:
                self.bad(s, "removing an object sampled from another list")
            removed = getattr(sv, "removed", ())
            lst = env[r]
            if a.slice.value == 0 and removed == () and lst.version == sv.ty[2]:
                txt = "(py_remove_ref1 (fst %s) %s)" % (sv.coq, lst.coq)
                newrem = (0,)
            elif a.slice.value == 1 and removed == (0,) and lst.version == getattr(sv, "after", None):
                txt = "(py_remove_ref2 (fst %s) (snd %s) %s)" % (sv.coq, sv.coq, lst.coq)
                newrem = (0, 1)
            else:
                self.bad(s, "removal pattern of sampled objects")
            env2 = self.bind(env, r, lst.ty)
            sv2 = sv.copy()
            sv2.removed = newrem
            sv2.after = env2[r].version
            env2[a.value.id] = sv2
            return self.let(env2[r].coq, txt, self.block(rest, env2, k, mode))
        return self.list_remove_b(s, e, r, rest, env, k, mode)

    def list_remove_b(self, s, e, r, rest, env, k, mode):
        self.bad(s, "list.remove form")

    def st_Assign(self, s, rest, env, k, mode):
        if len(s.targets) != 1:
            self.bad(s, "multiple assignment targets")
        t = s.targets[0]
        if isinstance(t, ast.Name):
            # new_node = nodes[0].__class__
            if isinstance(s.value, ast.Attribute) and s.value.attr == "__class__":
                env2 = dict(env)
                env2[t.id] = Var("nodeclass", "tt")
                return self.block(rest, env2, k, mode)
            pre, txt, ty, c = self.ex(s.value, env)
            if is_list(ty) and ty[1] is None:
                hint = self.spec.get("locals", {}).get(t.id)
                if hint is None:
                    self.bad(s, "element type of the empty list %s is not declared in PLAN" % t.id)
                ty, txt = hint, "(@nil %s)" % coq_ty(hint[1])
            hint = self.spec.get("locals", {}).get(t.id)
            if hint is not None and not is_list(hint) and ty != hint:
                txt, ty = self.coerce(txt, ty, hint, s), hint
                if txt == "None":
                    txt = "(@None %s)" % {"ON": "nat", "OQ": "Q", "Olabs": "(list lab)"}[hint]
            lazy = self.spec.get("none_locals", {}).get(t.id)
            if ty == "none" and lazy is not None:
                txt, ty, c = "(@None %s)" % {"Olabs": "(list lab)"}[lazy], lazy, NOCONST
            if ty == "none":
                env2 = self.bind(env, t.id, "none", None)
                return self.emit_pre(pre, self.block(rest, env2, k, mode), mode, s)
            if ty in ("str",) or (c is not NOCONST and isinstance(c, bool) and t.id in self.spec.get("flags", ())):
                env2 = self.bind(env, t.id, ty, c)
                return self.block(rest, env2, k, mode)
            extra = {}
            if isinstance(ty, tuple) and ty[0] == "sample2":
                extra = {"removed": ()}
            keep_opt = (t.id in env and env[t.id].const is NOCONST
                        and (env[t.id].ty, ty) in (("OQ", "Q"), ("ON", "N"), ("Olabs", TList("lab"))))
            if keep_opt:                     # a "None or number" variable keeps its type
                txt, ty = "(Some %s)" % txt, env[t.id].ty
            env2 = self.bind(env, t.id, ty, **extra)
            if keep_opt:
                env2 = self.with_fact(env2, ("nonnone", t.id))
            if txt == env2[t.id].coq and not pre:      # x = list(x)
                env2[t.id].version = env[t.id].version if t.id in env else 0
                return self.block(rest, env2, k, mode)
            if pre and pre[-1][0] == txt:              # bind the draw directly to the variable
                pre = pre[:-1] + [(env2[t.id].coq, pre[-1][1])]
                return self.emit_pre(pre, self.block(rest, env2, k, mode), mode, s)
            return self.emit_pre(pre, self.let(env2[t.id].coq, txt, self.block(rest, env2, k, mode)), mode, s)
        if isinstance(t, ast.Tuple) and all(isinstance(x, ast.Name) for x in t.elts) and len(t.elts) == 2:
            pre, txt, ty, _ = self.ex(s.value, env)
            if not (isinstance(ty, tuple) and ty[0] == "pair"):
                self.bad(s, "unpacking %r" % (ty,))
            env2 = self.bind(env, t.elts[0].id, ty[1])
            env2 = self.bind(env2, t.elts[1].id, ty[2])
            return self.emit_pre(pre, "(let '(%s, %s) := %s in\n  %s)" % (
                env2[t.elts[0].id].coq, env2[t.elts[1].id].coq, txt, self.block(rest, env2, k, mode)), mode, s)
        if isinstance(t, ast.Attribute):
            return self.attr_store(s, t, s.value, None, rest, env, k, mode)
        if isinstance(t, ast.Subscript):
            return self.subscript_store(s, t, rest, env, k, mode)
        self.bad(s, "assignment target")

    def subscript_store(self, s, t, rest, env, k, mode):
        # L[i] = v   (IndexError when i is out of range)
        if isinstance(t.value, ast.Name) and t.value.id in env and is_list(env[t.value.id].ty):
            L = t.value.id
            if mode != "M":
                self.bad(s, "list item store (can raise) inside a pure block")
            pi, i, ity, _ = self.ex(t.slice, env)
            pv, v, vty, _ = self.ex(s.value, env)
            if pi or pv or ity != "N":
                self.bad(s, "list item store form")
            v = self.coerce(v, vty, env[L].ty[1], s)
            old = env[L].coq
            env2 = self.bind(env, L, env[L].ty)
            return "(let! %s := py_list_set %s %s %s in\n  %s)" % (env2[L].coq, old, i, v, self.block(rest, env2, k, mode))
        self.bad(s, "subscript store")

    def st_Delete(self, s, rest, env, k, mode):
        # del L[i]   (IndexError when i is out of range)
        t = s.targets[0] if len(s.targets) == 1 else None
        if isinstance(t, ast.Subscript) and isinstance(t.value, ast.Name) and t.value.id in env \
                and is_list(env[t.value.id].ty):
            L = t.value.id
            if mode != "M":
                self.bad(s, "del (can raise) inside a pure block")
            pi, i, ity, _ = self.ex(t.slice, env)
            if pi or ity != "N":
                self.bad(s, "del form")
            old = env[L].coq
            env2 = self.bind(env, L, env[L].ty)
            return "(let! %s := py_list_del %s %s in\n  %s)" % (env2[L].coq, old, i, self.block(rest, env2, k, mode))
        self.bad(s, "del form")

    def st_AugAssign(self, s, rest, env, k, mode):
        t = s.target
        if isinstance(t, ast.Name):
            val = ast.copy_location(ast.BinOp(left=ast.copy_location(ast.Name(id=t.id, ctx=ast.Load()), s),
                                              op=s.op, right=s.value), s)
            return self.st_Assign(ast.copy_location(ast.Assign(targets=[t], value=val), s), rest, env, k, mode)
        if isinstance(t, ast.Attribute):
            return self.attr_store(s, t, s.value, s.op, rest, env, k, mode)
        self.bad(s, "augmented assignment target")

    def attr_store(self, s, t, value, op, rest, env, k, mode):
        # value node: X.edge.length = e ; X.taxon = e
        root = self.path(t).split(".")[0]
        if root in env and env[root].ty == "gnode":
            old = env[root].coq
            if self.path(t) == root + ".edge.length":
                if op is not None:
                    value = ast.copy_location(ast.BinOp(left=ast.copy_location(
                        ast.Attribute(value=t.value, attr=t.attr, ctx=ast.Load()), s), op=op, right=value), s)
                pre, txt, ty, _ = self.ex(value, env)
                txt = self.coerce(txt, ty, "OQ", s)
                env2 = self.bind(env, root, "gnode")
                if ty != "none":
                    env2 = self.with_fact(env2, ("nonnone", root + ".edge.length"))
                return self.emit_pre(pre, self.let(env2[root].coq, "(g_set_len %s %s)" % (old, txt),
                                                   self.block(rest, env2, k, mode)), mode, s)
            if self.path(t) == root + ".taxon" and op is None:
                pre, txt, ty, _ = self.ex(value, env)
                if ty != "tax":
                    self.bad(s, "taxon of type %r" % (ty,))
                env2 = self.bind(env, root, "gnode")
                return self.emit_pre(pre, self.let(env2[root].coq, "(g_set_tax %s (Some %s))" % (old, txt),
                                                   self.block(rest, env2, k, mode)), mode, s)
        return self.attr_store_b(s, t, value, op, rest, env, k, mode)

    def attr_store_b(self, s, t, value, op, rest, env, k, mode):
        self.bad(s, "attribute store .%s" % t.attr)

    # -- if --------------------------------------------------------------------------------------
    def is_rng_default(self, s, env):
        """`if rng is None: rng = GLOBAL_RNG`"""
        return (isinstance(s.test, ast.Compare) and isinstance(s.test.left, ast.Name)
                and s.test.left.id in env and env[s.test.left.id].ty == "rng"
                and len(s.test.ops) == 1 and isinstance(s.test.ops[0], ast.Is)
                and isinstance(s.test.comparators[0], ast.Constant) and s.test.comparators[0].value is None
                and len(s.body) == 1 and isinstance(s.body[0], ast.Assign)
                and isinstance(s.body[0].value, ast.Name) and s.body[0].value.id == "GLOBAL_RNG"
                and not s.orelse)

    def st_If(self, s, rest, env, k, mode):
        if self.is_rng_default(s, env):
            return self.block(rest, env, k, mode)       # the supplied generator is used
        pre, t, c, env_t, env_f = self.cond(s.test, env)
        if c is not NOCONST:
            return self.block((s.body if c else s.orelse) + rest, env, k, mode)
        a_abr, b_abr = self.abrupt(s.body, env), self.abrupt(s.orelse, env)
        if not rest or a_abr or b_abr:
            th = self.block(s.body + ([] if a_abr else rest), env_t, k, mode)
            el = self.block(s.orelse + ([] if b_abr else rest), env_f, k, mode)
            return self.emit_pre(pre, "(if %s\n   then %s\n   else %s)" % (t, th, el), mode, s)
        # join
        names = []
        a_names, b_names = self.assigned(s.body, env_t), self.assigned(s.orelse, env_f)
        for n in a_names + b_names:
            # a name first assigned on one path only is local to that path
            if n not in names and (n in env or (n in a_names and n in b_names)):
                names.append(n)
        inner_mode = "M" if (self.is_monadic(s.body, env) or self.is_monadic(s.orelse, env)) else "P"
        if inner_mode == "M" and mode != "M":
            self.bad(s, "a branch that draws inside a pure block")
        results = {}

        def fin(tag):
            def f(e2):
                for n in names:
                    if n not in e2:
                        self.bad(s, "%s is not assigned on every path" % n)
                results[tag] = e2
                val = tuple_val([e2[n].coq if e2[n].const is NOCONST else "tt" for n in names])
                return "(ret %s)" % val if inner_mode == "M" else val
            return f
        kk_t = K(fin("t"), k.brk, k.cont, k.ret)
        kk_f = K(fin("f"), k.brk, k.cont, k.ret)
        th = self.block(s.body, env_t, kk_t, inner_mode)
        el = self.block(s.orelse, env_f, kk_f, inner_mode)
        et, ef = results["t"], results["f"]
        env2 = dict(env)
        env2["$facts"] = self.facts(et) & self.facts(ef)
        # `if x is None: x = <not None>`: x is not None afterwards
        if (not s.orelse and len(s.body) == 1 and isinstance(s.body[0], ast.Assign)
                and isinstance(s.test, ast.Compare) and isinstance(s.test.ops[0], ast.Is)
                and self.path(s.test.left) is not None
                and self.path(s.body[0].targets[0]) == self.path(s.test.left)):
            p = self.path(s.test.left)
            if ("nonnone", p) in self.facts(et):
                env2["$facts"] = env2["$facts"] | {("nonnone", p)}
        pats = []
        for n in names:
            a, b = et[n], ef[n]
            if a.const is not NOCONST and b.const is not NOCONST and a.const == b.const:
                env2[n] = a.copy()
                pats.append("_")
                continue
            if a.const is not NOCONST or b.const is not NOCONST:
                self.bad(s, "%s is a translation-time constant on one path only" % n)
            ty = a.ty if a.ty == b.ty else self.join_ty(a.ty, b.ty, s)
            if a.ty != ty or b.ty != ty:
                self.bad(s, "%s has types %r and %r on the two paths" % (n, a.ty, b.ty))
            old = env.get(n)
            v = Var(ty, vname(n), NOCONST, max(a.version, b.version) + 1)
            env2[n] = v
            pats.append(v.coq)
        body = self.block(rest, env2, k, mode)
        sel = "(if %s\n   then %s\n   else %s)" % (t, th, el)
        if inner_mode == "M":
            return self.emit_pre(pre, "(let! %s := %s in\n  %s)" % (tuple_pat(pats).lstrip("'"), sel, body), mode, s)
        if len(pats) == 1:
            return self.emit_pre(pre, self.let(pats[0], sel, body), mode, s)
        return self.emit_pre(pre, "(let %s := %s in\n  %s)" % (tuple_pat(pats), sel, body), mode, s)

    # -- loops -----------------------------------------------------------------------------------
    def carried(self, body, env, extra_env=None):
        e = dict(env)
        if extra_env:
            e.update(extra_env)
        return [n for n in self.assigned(body, e) if n in env and env[n].const is NOCONST
                and env[n].ty not in ("nodeclass", "rng")]

    def st_While(self, s, rest, env, k, mode):
        if mode != "M":
            self.bad(s, "while inside a pure block")
        if s.orelse:
            self.bad(s, "while-else")
        if not self.fuels:
            self.bad(s, "no fuel declared for this while loop")
        fuel = self.fuels.pop(0)
        names = self.carried(s.body, env)
        if isinstance(s.test, ast.Constant) and s.test.value is True:
            used_after = {n.id for st_ in rest for n in ast.walk(st_) if isinstance(n, ast.Name)}
            ltypes = self.local_types(s.body, env)
            for n in self.assigned(s.body, env):
                if n not in env and n in used_after and n in ltypes and ltypes[n] in DEFAULTS:
                    # the body runs at least once before any exit: the initial value is never observed
                    env = dict(env)
                    env[n] = Var(ltypes[n], DEFAULTS[ltypes[n]])
                    names.append(n)
        has_ret = self.has(s.body, ast.Return, env)
        rty = coq_ty(self.ret_ty) if has_ret else "Empty_set"
        sty = tuple_ty([env[n].ty for n in names])

        def pack(e2):
            return tuple_val([e2[n].coq for n in names])
        kk = K(lambda e2: "(ret (CNext (R := %s) %s))" % (rty, pack(e2)),
               lambda e2: "(ret (CBreak (R := %s) %s))" % (rty, pack(e2)),
               lambda e2: "(ret (CNext (R := %s) %s))" % (rty, pack(e2)),
               (lambda t, ty, e2: "(ret (CReturn (St := %s) %s))" % (sty, t)) if has_ret else None)
        env_in = dict(env)
        for n in names:
            env_in[n] = recarry(n, env[n], 0)
        pre, t, c, env_t, _ef = self.cond(s.test, env_in)
        if pre:
            self.bad(s, "a loop test that draws")
        body = self.block(s.body, env_t, kk, "M")
        if c is NOCONST:
            body = "(if %s\n   then %s\n   else %s)" % (t, body, kk.brk(env_in))
        elif not c:
            self.bad(s, "while False")
        env2 = dict(env)
        for n in names:
            env2[n] = recarry(n, env[n], 1)
        self.drop_all_facts(env2, names)
        fueltxt = fuel.format(**{n: ("(py_unwrap_labs %s)" % env[n].coq if env[n].ty == "Olabs" else env[n].coq)
                                 for n in env if isinstance(env[n], Var)})
        cp = tuple_pat([vname(n) for n in names])
        bname = self.lift("while", "(s_ : %s)" % sty, "let %s := s_ in %s" % (cp if names else "_", body),
                          env, [vname(n) for n in names])
        loop = "(%s %s %s)" % (fueltxt, bname, pack(env))
        c_ = self.fresh("c")
        after = self.block(rest, env2, k, mode)
        if has_ret:
            retb = k.ret("r_", self.ret_ty, env)
        else:
            retb = "match r_ with end"
        return "(let! %s := %s in\n  match %s with\n  | CReturn r_ => %s\n  | CNext s_ | CBreak s_ => let %s := s_ in %s\n  end)" % (
            c_, loop, c_, retb, tuple_pat([vname(n) for n in names]) if names else "_", after)

    def drop_all_facts(self, env, names):
        for n in names:
            self.drop_facts(env, n)

    def for_source(self, s, env):
        """the iterated list of a for statement -> (list text, element pattern, element env, list variable) or None"""
        it = s.iter
        elem_env = {}
        if isinstance(it, ast.Call) and self.path(it.func) == "enumerate" and len(it.args) == 1:
            pre, src, sty, _ = self.ex(it.args[0], env)
            if not is_list(sty) or pre:
                self.bad(s, "enumerate of %r" % (sty,))
            if not (isinstance(s.target, ast.Tuple) and len(s.target.elts) == 2
                    and all(isinstance(x, ast.Name) for x in s.target.elts)):
                self.bad(s, "enumerate target")
            i, x = s.target.elts[0].id, s.target.elts[1].id
            iv = Var("N", vname(i))
            iv.in_range_of = self.path(it.args[0])
            elem_env = {i: iv, x: Var(sty[1], vname(x))}
            src = "(py_enumerate %s)" % src
            pat = "'(%s, %s)" % (vname(i), vname(x))
            ety = "(nat * %s)" % coq_ty(sty[1])
            srcname = None
        elif isinstance(it, ast.Call) and self.path(it.func) == "range" and isinstance(s.target, ast.Name):
            a = it.args
            if (len(a) == 3 and all(isinstance(x, ast.UnaryOp) and isinstance(x.op, ast.USub)
                                    and isinstance(x.operand, ast.Constant) and x.operand.value == 1 for x in a[1:])):
                pre, t, ty, _ = self.num(a[0], env)
                if pre:
                    self.bad(s, "range bound that draws")
                src = "(py_range_down %s)" % self.coerce(t, ty, "Z", s)
                iv = Var("N", vname(s.target.id))
                # range(len(X) - 1, -1, -1): the indices of X
                if (isinstance(a[0], ast.BinOp) and isinstance(a[0].op, ast.Sub) and isinstance(a[0].right, ast.Constant)
                        and a[0].right.value == 1 and isinstance(a[0].left, ast.Call)
                        and self.path(a[0].left.func) == "len"):
                    iv.in_range_of = self.path(a[0].left.args[0])
                elem_env = {s.target.id: iv}
                pat = vname(s.target.id)
                ety = "nat"
                srcname = None
            else:
                return None
        else:
            pre, src, sty, _ = self.ex(it, env)
            if not is_list(sty) or pre:
                return None
            if not isinstance(s.target, ast.Name):
                self.bad(s, "for target")
            elem_env = {s.target.id: Var(sty[1], vname(s.target.id))}
            pat = vname(s.target.id)
            ety = coq_ty(sty[1])
            srcname = it.id if isinstance(it, ast.Name) else None
        return src, pat, elem_env, srcname, ety

    def st_For(self, s, rest, env, k, mode):
        if s.orelse:
            self.bad(s, "for-else")
        fs = self.for_source(s, env)
        if fs is None:
            if isinstance(s.iter, ast.Call) and self.path(s.iter.func) == "range":
                return self.for_range_b(s, rest, env, k, mode)
            return self.for_other_b(s, rest, env, k, mode)
        src, pat, elem_env, srcname, ety = fs
        env_in0 = dict(env)
        env_in0.update(elem_env)
        asg = self.assigned(s.body, env_in0)
        monadic = self.is_monadic(s.body, env_in0)
        ctl = self.has(s.body, (ast.Return, ast.Break), env_in0)
        # -- scheme 1: element-wise mutation of value nodes:  l = map (fun x => body; x) l
        if (srcname is not None and isinstance(s.target, ast.Name) and elem_env[s.target.id].ty == "gnode"
                and asg == [s.target.id] and not monadic and not ctl
                and not self.has(s.body, ast.Continue, env_in0)):
            x = s.target.id
            kk = K(lambda e2: e2[x].coq)
            body = self.block(s.body, env_in0, kk, "P")
            env2 = self.bind(env, srcname, env[srcname].ty)
            env2[srcname].version = env[srcname].version      # same objects, same positions
            bname = self.lift("map", "(%s : gtree)" % pat, body, env, [pat])
            return self.let(env2[srcname].coq, "(map %s %s)" % (bname, src),
                            self.block(rest, env2, k, mode))
        names = [n for n in asg if n in env and env[n].const is NOCONST and env[n].ty not in ("nodeclass", "rng")]
        for n in asg:
            if n not in env and n not in elem_env:
                pass        # local to the body
        has_ret = self.has(s.body, ast.Return, env_in0)
        rty = coq_ty(self.ret_ty) if has_ret else "Empty_set"
        sty_ = tuple_ty([env[n].ty for n in names])

        def pack(e2):
            return tuple_val([e2[n].coq for n in names])
        env_in = dict(env_in0)
        for n in names:
            env_in[n] = recarry(n, env[n], 0)
        env2 = dict(env)
        for n in names:
            env2[n] = recarry(n, env[n], 1)
        self.drop_all_facts(env2, names)
        cpat = tuple_pat([vname(n) for n in names])
        if not monadic and not ctl:
            # -- scheme 2: accumulation: fold_left
            kk = K(pack, None, pack, None)
            body = self.block(s.body, env_in, kk, "P")
            after = self.block(rest, env2, k, mode)
            bname = self.lift("fold", "(s_ : %s) (e_ : %s)" % (sty_, ety),
                              "let %s := s_ in let %s := e_ in %s" % (cpat if names else "_", pat, body),
                              env, [vname(n) for n in names] + [v.coq for v in elem_env.values()])
            return "(let %s := fold_left %s %s %s in\n  %s)" % (cpat if names else "_", bname, src, pack(env), after)
        if not monadic:
            # -- scheme 3: py_for (pure body with return / break)
            kk = K(lambda e2: "(CNext (R := %s) %s)" % (rty, pack(e2)),
                   lambda e2: "(CBreak (R := %s) %s)" % (rty, pack(e2)),
                   lambda e2: "(CNext (R := %s) %s)" % (rty, pack(e2)),
                   (lambda t, ty, e2: "(CReturn (St := %s) %s)" % (sty_, t)) if has_ret else None)
            body = self.block(s.body, env_in, kk, "P")
            after = self.block(rest, env2, k, mode)
            retb = k.ret("r_", self.ret_ty, env) if has_ret else "match r_ with end"
            bname = self.lift("for", "(s_ : %s) (e_ : %s)" % (sty_, ety),
                              "let %s := s_ in let %s := e_ in %s" % (cpat if names else "_", pat, body),
                              env, [vname(n) for n in names] + [v.coq for v in elem_env.values()])
            return "match py_for %s %s %s with\n  | CReturn r_ => %s\n  | CNext s_ | CBreak s_ => let %s := s_ in %s\n  end" % (
                bname, src, pack(env), retb, cpat if names else "_", after)
        # -- scheme 4: py_forM
        if mode != "M":
            self.bad(s, "a loop that draws inside a pure block")
        kk = K(lambda e2: "(ret (CNext (R := %s) %s))" % (rty, pack(e2)),
               lambda e2: "(ret (CBreak (R := %s) %s))" % (rty, pack(e2)),
               lambda e2: "(ret (CNext (R := %s) %s))" % (rty, pack(e2)),
               (lambda t, ty, e2: "(ret (CReturn (St := %s) %s))" % (sty_, t)) if has_ret else None)
        body = self.block(s.body, env_in, kk, "M")
        after = self.block(rest, env2, k, mode)
        retb = k.ret("r_", self.ret_ty, env) if has_ret else "match r_ with end"
        c_ = self.fresh("c")
        bname = self.lift("forM", "(s_ : %s) (e_ : %s)" % (sty_, ety),
                          "let %s := s_ in let %s := e_ in %s" % (cpat if names else "_", pat, body),
                          env, [vname(n) for n in names] + [v.coq for v in elem_env.values()])
        return "(let! %s := py_forM %s %s %s in\n  match %s with\n  | CReturn r_ => %s\n  | CNext s_ | CBreak s_ => let %s := s_ in %s\n  end)" % (
            c_, bname, src, pack(env), c_, retb, cpat if names else "_", after)

    def for_range_b(self, s, rest, env, k, mode):
        self.bad(s, "range form")

    def for_other_b(self, s, rest, env, k, mode):
        self.bad(s, "for source")

    # ------------------------------------------------------------------ the function
    def translate(self):
        spec = self.spec
        env = {}
        params = []
        for a in self.fn.args.args:
            n = a.arg
            if n in spec["params"]:
                env[n] = Var(spec["params"][n], vname(n))
                params.append(n)
            elif n in spec.get("consts", {}):
                env[n] = Var("const", "tt", spec["consts"][n])
            elif n == self.rng_name:
                env[n] = Var("rng", "tt")
            elif n in spec.get("opaque", {}):
                env[n] = Var(spec["opaque"][n], "tt")      # not part of the modelled state
            else:
                self.bad(self.fn, "parameter %s is not described in PLAN" % n)
        order = spec.get("order", params)
        k = K(lambda e: self.fall_off(), None, None, lambda t, ty, e: "(ret %s)" % t)
        body = self.block(self.fn.body, env, k, "M")
        impl = "{A : Type} " if spec.get("poly") else ""
        head = "Definition %s %s%s : M %s :=\n  %s.\n" % (
            spec["coq"], impl, " ".join("(%s : %s)" % (vname(p), coq_ty(env[p].ty)) for p in order),
            coq_ty(self.ret_ty), body)
        if self.fuels:
            self.bad(self.fn, "unused fuel declarations")
        return "".join(self.aux) + head

    def fall_off(self):
        if self.ret_ty in ("ON", "OQ"):
            return "(ret None)"
        if self.ret_ty == "unit":
            return "(ret tt)"
        self.bad(self.fn, "the function can fall off its end but returns %r" % (self.ret_ty,))


# ----------------------------------------------------------------------------------------------
# the birth-death family: nodes are identities into the tree held in st_tr; the attributes
# birth_rate / death_rate live in st_brates / st_drates; st_next is the next fresh identity
# ----------------------------------------------------------------------------------------------
IGNORED_TREE_ATTRS = ("is_rooted",)


class FnB(Fn):
    STATE = ("st_tr", "st_brates", "st_drates", "st_next")

    def coqty(self, t):
        return coq_ty(t)

    # -- expressions -----------------------------------------------------------------------------
    def is_bnode(self, e, env):
        if isinstance(e, ast.Name) and e.id in env and env[e.id].ty == "bnode":
            return True
        # X.parent_node where the translator has established that it is not None
        if (isinstance(e, ast.Attribute) and e.attr == "parent_node" and self.is_bnode(e.value, env)
                and ("nonnone", self.path(e)) in self.facts(env)):
            return True
        return (isinstance(e, ast.Attribute) and e.attr == "seed_node" and isinstance(e.value, ast.Name)
                and e.value.id in env and env[e.value.id].ty == "treeh")

    def bnode(self, e, env):
        if isinstance(e, ast.Name):
            return env[e.id].coq
        if "st_tr" not in env:
            self.bad(e, "tree used before it is created")
        if e.attr == "parent_node":
            return "(py_unwrap_n (b_parent %s %s))" % (env["st_tr"].coq, self.bnode(e.value, env))
        return "(b_id %s)" % env["st_tr"].coq

    def is_kids(self, e, env):
        return isinstance(e, ast.Attribute) and e.attr == "_child_nodes" and self.is_bnode(e.value, env)

    def call(self, e, env):
        # len(X._child_nodes)
        if self.path(e.func) == "len" and len(e.args) == 1 and not e.keywords and self.is_kids(e.args[0], env):
            return [], "(b_nkids %s %s)" % (env["st_tr"].coq, self.bnode(e.args[0].value, env)), "N", NOCONST
        # len(taxon_namespace)
        if self.path(e.func) == "len" and len(e.args) == 1 and not e.keywords and isinstance(e.args[0], ast.Name) \
                and e.args[0].id in env and env[e.args[0].id].ty == "labs":
            return [], "(length %s)" % env[e.args[0].id].coq, "N", NOCONST
        # dendropy.TaxonNamespace(): a new, empty namespace
        if self.path(e.func) == "dendropy.TaxonNamespace" and not e.args and not e.keywords:
            return [], "(@nil lab)", "labs", NOCONST
        if self.is_kw_get(e, env):
            return self.kw_get(e, env)
        return Fn.call(self, e, env)

    # -- keyword options: kwargs.get(key[, default]) / kwargs[key] / key in kwargs -----------------
    #    a key listed under `kwargs` in PLAN is passed by the call; a key under `kwargs_dyn` is passed
    #    iff the corresponding parameter (an option) is not None; every other key is absent
    def is_kw_get(self, e, env):
        return (isinstance(e, ast.Call) and isinstance(e.func, ast.Attribute) and e.func.attr == "get"
                and isinstance(e.func.value, ast.Name) and e.func.value.id in env
                and env[e.func.value.id].ty == "kwargs" and not e.keywords and 1 <= len(e.args) <= 2
                and isinstance(e.args[0], ast.Constant) and isinstance(e.args[0].value, str))

    def kw_get(self, e, env):
        kw = env[e.func.value.id]
        key = e.args[0].value
        dflt = e.args[1] if len(e.args) == 2 else ast.copy_location(ast.Constant(value=None), e)
        if key in kw.keys:
            ty, coq = kw.keys[key]
            return [], coq, ty, NOCONST
        dyn = getattr(kw, "dyn", {})
        if key in dyn:
            ty, coq = dyn[key]
            base = {"ON": "N", "OQ": "Q"}[ty]
            if isinstance(dflt, ast.Constant) and dflt.value is None:
                return [], coq, ty, NOCONST
            pre, t, dty, _c = self.ex(dflt, env)
            if pre:
                self.bad(e, "default of option %s draws" % key)
            return [], "(py_kw_get %s %s)" % (coq, self.coerce(t, dty, base, e)), base, NOCONST
        if isinstance(dflt, ast.Name) and dflt.id == "GLOBAL_RNG":
            self.bad(e, "the generator is not passed: GLOBAL_RNG would be used")
        return self.ex(dflt, env)

    def subscript(self, e, env):
        # kwargs[key]
        if isinstance(e.value, ast.Name) and e.value.id in env and env[e.value.id].ty == "kwargs" \
                and isinstance(e.slice, ast.Constant) and isinstance(e.slice.value, str):
            kw, key = env[e.value.id], e.slice.value
            if key in kw.keys:
                ty, coq = kw.keys[key]
                return [], coq, ty, NOCONST
            dyn = getattr(kw, "dyn", {})
            if key in dyn and ("nonnone", "%s.%s" % (e.value.id, key)) in self.facts(env):
                ty, coq = dyn[key]
                if ty == "ON":
                    return [], "(py_unwrap_n %s)" % coq, "N", NOCONST
                return [], "(py_unwrap %s)" % coq, "Q", NOCONST
            self.bad(e, "kwargs[%r]: the key may be absent (KeyError)" % key)
        return Fn.subscript(self, e, env)

    def compare(self, e, env):
        # X is Y / X is not Y for two nodes: identity of nodes = equality of their identities
        if len(e.ops) == 1 and isinstance(e.ops[0], (ast.Is, ast.IsNot)) and self.is_bnode(e.left, env) \
                and self.is_bnode(e.comparators[0], env):
            txt = "(b_is %s %s)" % (self.bnode(e.left, env), self.bnode(e.comparators[0], env))
            if isinstance(e.ops[0], ast.IsNot):
                txt = "(negb %s)" % txt
            return [], txt, "B", NOCONST
        return Fn.compare(self, e, env)

    def cond(self, e, env):
        # key in kwargs / key not in kwargs for an option of kwargs_dyn: establishes that it is passed
        if isinstance(e, ast.Compare) and len(e.ops) == 1 and isinstance(e.ops[0], (ast.In, ast.NotIn)) \
                and isinstance(e.comparators[0], ast.Name) and e.comparators[0].id in env \
                and env[e.comparators[0].id].ty == "kwargs" and isinstance(e.left, ast.Constant) \
                and e.left.value in getattr(env[e.comparators[0].id], "dyn", {}):
            ty, coq = env[e.comparators[0].id].dyn[e.left.value]
            fact = ("nonnone", "%s.%s" % (e.comparators[0].id, e.left.value))
            if isinstance(e.ops[0], ast.In):
                return [], "(negb (py_is_none %s))" % coq, NOCONST, self.with_fact(env, fact), env
            return [], "(py_is_none %s)" % coq, NOCONST, env, self.with_fact(env, fact)
        return Fn.cond(self, e, env)

    def attribute_b(self, e, env, p):
        if e.attr == "seed_node" and self.is_bnode(e, env):
            return [], self.bnode(e, env), "bnode", NOCONST
        if e.attr == "parent_node" and self.is_bnode(e.value, env):
            return [], "(b_parent %s %s)" % (env["st_tr"].coq, self.bnode(e.value, env)), "ObN", NOCONST
        if e.attr in ("birth_rate", "death_rate") and self.is_bnode(e.value, env):
            store = "st_brates" if e.attr == "birth_rate" else "st_drates"
            return [], "(b_rate %s %s)" % (env[store].coq, self.bnode(e.value, env)), "Q", NOCONST
        if (e.attr == "length" and isinstance(e.value, ast.Attribute) and e.value.attr == "edge"
                and self.is_bnode(e.value.value, env)):
            return [], "(b_len %s %s)" % (env["st_tr"].coq, self.bnode(e.value.value, env)), "Q", NOCONST
        self.bad(e, "attribute .%s" % e.attr)

    def comprehension(self, e, env):
        # [t for t in taxon_namespace]: the taxa of the namespace, in accession order
        g = e.generators[0] if len(e.generators) == 1 else None
        if (g is not None and not g.ifs and isinstance(g.target, ast.Name) and isinstance(e.elt, ast.Name)
                and e.elt.id == g.target.id and isinstance(g.iter, ast.Name) and g.iter.id in env
                and env[g.iter.id].ty == "labs"):
            return [], "(seq 0 (length %s))" % env[g.iter.id].coq, TList("tax"), NOCONST
        return Fn.comprehension(self, e, env)

    def contains(self, e, op, l, r, env):
        if isinstance(r, ast.Name) and r.id in env and env[r.id].ty == TList("lab"):
            pre, t, ty, _ = self.ex(l, env)
            if ty != "lab" or pre:
                self.bad(e, "membership of %r in a label set" % (ty,))
            txt = "(lab_mem %s %s)" % (t, env[r.id].coq)
            if isinstance(op, ast.NotIn):
                txt = "(negb %s)" % txt
            return [], txt, "B", NOCONST
        if isinstance(r, ast.Name) and r.id in env and env[r.id].ty == "Olabs":
            if ("nonnone", r.id) not in self.facts(env):
                self.bad(e, "membership in a label set that may be None")
            pre, t, ty, _ = self.ex(l, env)
            if ty != "lab" or pre:
                self.bad(e, "membership of %r in a label set" % (ty,))
            txt = "(lab_mem %s (py_unwrap_labs %s))" % (t, env[r.id].coq)
            if isinstance(op, ast.NotIn):
                txt = "(negb %s)" % txt
            return [], txt, "B", NOCONST
        if isinstance(r, ast.Name) and r.id in env and env[r.id].ty == TList("bnode") and self.is_bnode(l, env):
            txt = "(memb %s %s)" % (self.bnode(l, env), env[r.id].coq)
            if isinstance(op, ast.NotIn):
                txt = "(negb %s)" % txt
            return [], txt, "B", NOCONST
        if isinstance(r, ast.Name) and r.id in env and env[r.id].ty == "kwargs" \
                and isinstance(l, ast.Constant) and isinstance(l.value, str):
            if l.value in getattr(env[r.id], "dyn", {}):
                pre, t, c, _a, _b = self.cond(e, env)
                return pre, t, "B", c
            v = l.value in env[r.id].keys
            if isinstance(op, ast.NotIn):
                v = not v
            return [], ("true" if v else "false"), "B", v
        self.bad(e, "`in`")

    def truth(self, e, env):
        if isinstance(e, ast.Name) and e.id in env and env[e.id].ty == "kwargs":
            v = bool(env[e.id].keys)
            return [], ("true" if v else "false"), v
        if self.is_kids(e, env):
            return [], "(negb (b_nkids %s %s =? 0))" % (env["st_tr"].coq, self.bnode(e.value, env)), NOCONST
        return Fn.truth(self, e, env)

    def call_b(self, e, qual, env):
        if isinstance(e.func, ast.Attribute) and e.func.attr == "leaf_nodes" and not e.args and not e.keywords \
                and isinstance(e.func.value, ast.Name) and e.func.value.id in env and env[e.func.value.id].ty == "treeh":
            return [], "(leaf_ids %s)" % env["st_tr"].coq, TList("bnode"), NOCONST
        if qual == "set" and not e.args and not e.keywords:
            return [], "[]", TList(None), NOCONST
        # set([t.label for t in pool]): the labels of the pooled taxa
        if qual == "set" and len(e.args) == 1 and isinstance(e.args[0], (ast.ListComp, ast.GeneratorExp)) and not e.keywords:
            lc = e.args[0]
            g = lc.generators[0] if len(lc.generators) == 1 else None
            if (g is not None and not g.ifs and isinstance(g.target, ast.Name) and isinstance(lc.elt, ast.Attribute)
                    and lc.elt.attr == "label" and isinstance(lc.elt.value, ast.Name) and lc.elt.value.id == g.target.id
                    and isinstance(g.iter, ast.Name) and g.iter.id in env and env[g.iter.id].ty == TList("tax")):
                ns = self.namespace_var(env, e)
                return [], "(map (py_label %s) %s)" % (ns.coq, env[g.iter.id].coq), TList("lab"), NOCONST
        # "{}{}".format("T", counter): the label T<counter>
        if (isinstance(e.func, ast.Attribute) and e.func.attr == "format" and isinstance(e.func.value, ast.Constant)
                and e.func.value.value == "{}{}" and len(e.args) == 2 and isinstance(e.args[0], ast.Constant)
                and e.args[0].value == "T" and not e.keywords):
            pre, t, ty, _ = self.ex(e.args[1], env)
            if ty != "N" or pre:
                self.bad(e, "label counter of type %r" % (ty,))
            return [], "(LT true %s)" % t, "lab", NOCONST
        if qual == "hasattr" and len(e.args) == 2 and self.is_bnode(e.args[0], env) \
                and isinstance(e.args[1], ast.Constant) and e.args[1].value in ("birth_rate", "death_rate"):
            store = "st_brates" if e.args[1].value == "birth_rate" else "st_drates"
            return [], "(b_has %s %s)" % (env[store].coq, self.bnode(e.args[0], env)), "B", NOCONST
        self.bad(e, "call %s" % (qual or ast.dump(e.func)))

    def call_known(self, e, name, env):
        pre, v, ty, c = Fn.call_known(self, e, name, env)
        if ty == "A":        # weighted_choice: the element type of its first argument
            args = self.bind_call(e, KNOWN[name][0]["fn"])
            _p, _t, sty, _c = self.ex(args["seq"], env)
            ty = sty[1]
        return pre, v, ty, c

    def namespace_var(self, env, node):
        for n, v in env.items():
            if isinstance(v, Var) and v.ty == "labs":
                return v
        self.bad(node, "no taxon namespace in scope")

    # -- statement analysis ----------------------------------------------------------------------
    def attr_store_vars_b(self, t, r, env):
        p = self.path(t)
        if p.endswith(".edge.length") or p.endswith(".taxon"):
            return ["st_tr"]
        if p.endswith(".birth_rate"):
            return ["st_brates"]
        if p.endswith(".death_rate"):
            return ["st_drates"]
        if r in env and env[r].ty == "treeh" and t.attr in IGNORED_TREE_ATTRS:
            return []
        self.bad(t, "store to attribute .%s" % t.attr)

    def expr_store_vars_b(self, e, env):
        if isinstance(e, ast.Call) and isinstance(e.func, ast.Attribute):
            if e.func.attr == "new_child":
                return ["st_tr", "st_next"]
            if e.func.attr in ("clear_child_nodes", "suppress_unifurcations", "prune_subtree"):
                return ["st_tr"]
            if e.func.attr == "randomly_assign_taxa":
                return ["st_tr"] + [n for n, v in env.items() if isinstance(v, Var) and v.ty == "labs"]
            if isinstance(e.func.value, ast.Name) and e.func.value.id in env:
                r, ty = e.func.value.id, env[e.func.value.id].ty
                if e.func.attr in ("shuffle",) and env[r].ty == "rng" and e.args and isinstance(e.args[0], ast.Name):
                    return [e.args[0].id]
                if e.func.attr in ("pop", "add") and is_list(ty):
                    return [r]
                if e.func.attr == "new_taxon" and ty == "labs":
                    return [r]
        return []

    def monadic_calls(self):
        return ("remove", "prune_subtree", "randomly_assign_taxa")

    # -- statements ------------------------------------------------------------------------------
    def st_Assign(self, s, rest, env, k, mode):
        t = s.targets[0] if len(s.targets) == 1 else None
        v = s.value
        # X = kwargs.pop(key, default)
        if (isinstance(t, ast.Name) and isinstance(v, ast.Call) and isinstance(v.func, ast.Attribute)
                and v.func.attr == "pop" and isinstance(v.func.value, ast.Name) and v.func.value.id in env
                and env[v.func.value.id].ty == "kwargs"):
            kw = env[v.func.value.id]
            if not (1 <= len(v.args) <= 2 and isinstance(v.args[0], ast.Constant) and isinstance(v.args[0].value, str)):
                self.bad(s, "kwargs.pop form")
            key = v.args[0].value
            env2 = dict(env)
            if key in kw.keys:
                ty, coq = kw.keys[key]
                kw2 = kw.copy()
                kw2.keys = {k_: x for k_, x in kw.keys.items() if k_ != key}
                env2[v.func.value.id] = kw2
                env2[t.id] = Var(ty, coq)
            else:
                if len(v.args) != 2:
                    self.bad(s, "kwargs.pop without default for an option that is not passed")
                d = v.args[1]
                if isinstance(d, ast.Constant):
                    env2[t.id] = Var("const", "tt", d.value)
                else:
                    self.bad(s, "default of option %s is not a literal" % key)
            return self.block(rest, env2, k, mode)
        # X = kwargs.get(key[, default]) for a key that is passed: X names the argument
        if isinstance(t, ast.Name) and self.is_kw_get(v, env) and v.args[0].value in env[v.func.value.id].keys:
            ty, coq = env[v.func.value.id].keys[v.args[0].value]
            env2 = dict(env)
            env2[t.id] = Var(ty, coq)
            self.drop_facts(env2, t.id)
            return self.block(rest, env2, k, mode)
        # tree = dendropy.Tree(taxon_namespace=X)
        if (isinstance(t, ast.Name) and isinstance(v, ast.Call) and self.path(v.func) == "dendropy.Tree"
                and not v.args and [kw_.arg for kw_ in v.keywords] == ["taxon_namespace"]):
            env2 = dict(env)
            env2[t.id] = Var("treeh", "tt")
            for n, ty, init in (("st_tr", "btree", "py_tree_new"), ("st_brates", "rates", "[]"),
                                ("st_drates", "rates", "[]"), ("st_next", "N", "1")):
                env2[n] = Var(ty, vname(n))
            body = self.block(rest, env2, k, mode)
            return "(let v_st_tr := py_tree_new in\n  let v_st_brates := (@nil (nat * Q)) in\n  let v_st_drates := (@nil (nat * Q)) in\n  let v_st_next := 1 in\n  %s)" % body
        # taxon = pool.pop()
        if (isinstance(t, ast.Name) and isinstance(v, ast.Call) and isinstance(v.func, ast.Attribute)
                and v.func.attr == "pop" and not v.args and isinstance(v.func.value, ast.Name)
                and v.func.value.id in env and is_list(env[v.func.value.id].ty)):
            r = v.func.value.id
            old = env[r].coq
            env2 = self.bind(env, r, env[r].ty)
            env2 = self.bind(env2, t.id, env[r].ty[1])
            return "(let '(%s, %s) := py_pop %s in\n  %s)" % (env2[r].coq, env2[t.id].coq, old,
                                                             self.block(rest, env2, k, mode))
        # taxon = taxon_namespace.new_taxon(label=label)
        if (isinstance(t, ast.Name) and isinstance(v, ast.Call) and isinstance(v.func, ast.Attribute)
                and v.func.attr == "new_taxon" and not v.args and [kw_.arg for kw_ in v.keywords] == ["label"]
                and isinstance(v.func.value, ast.Name) and v.func.value.id in env
                and env[v.func.value.id].ty == "labs"):
            r = v.func.value.id
            pre, lt, lty, _ = self.ex(v.keywords[0].value, env)
            if lty != "lab" or pre:
                self.bad(s, "new_taxon(label=<%r>)" % (lty,))
            old = env[r].coq
            env2 = self.bind(env, r, "labs")
            env2 = self.bind(env2, t.id, "tax")
            return "(let '(%s, %s) := py_new_taxon %s %s in\n  %s)" % (env2[r].coq, env2[t.id].coq, old, lt,
                                                                      self.block(rest, env2, k, mode))
        # nd = X.parent_node   (where X.parent_node is known not to be None)
        if isinstance(t, ast.Name) and isinstance(v, ast.Attribute) and v.attr == "parent_node":
            if not self.is_bnode(v, env):
                self.bad(s, "a parent that may be None is used as a node")
            txt = self.bnode(v, env)
            env2 = self.bind(env, t.id, "bnode")
            return self.let(env2[t.id].coq, txt, self.block(rest, env2, k, mode))
        # c = nd.new_child()
        if (isinstance(t, ast.Name) and isinstance(v, ast.Call) and isinstance(v.func, ast.Attribute)
                and v.func.attr == "new_child" and not v.args and not v.keywords and self.is_bnode(v.func.value, env)):
            nd = self.bnode(v.func.value, env)
            env2 = self.bind(env, t.id, "bnode")
            env2 = self.bind(env2, "st_tr", "btree")
            env2 = self.bind(env2, "st_next", "N")
            return "(let '(v_st_tr, v_st_next, %s) := py_new_child %s %s %s in\n  %s)" % (
                env2[t.id].coq, env["st_tr"].coq, env["st_next"].coq, nd, self.block(rest, env2, k, mode))
        return Fn.st_Assign(self, s, rest, env, k, mode)

    def attr_store_b(self, s, t, value, op, rest, env, k, mode):
        p = self.path(t)
        root = p.split(".")[0]
        if root in env and env[root].ty == "treeh" and t.attr in IGNORED_TREE_ATTRS:
            return self.block(rest, env, k, mode)
        if t.attr == "taxon" and self.is_bnode(t.value, env) and op is None:
            pre, txt, ty, _ = self.ex(value, env)
            if ty != "tax":
                self.bad(s, "taxon of type %r" % (ty,))
            env2 = self.bind(env, "st_tr", "btree")
            return self.emit_pre(pre, self.let("v_st_tr", "(b_set_tax %s %s %s)" % (
                env["st_tr"].coq, self.bnode(t.value, env), txt), self.block(rest, env2, k, mode)), mode, s)
        if t.attr in ("birth_rate", "death_rate") and self.is_bnode(t.value, env) and op is None:
            store = "st_brates" if t.attr == "birth_rate" else "st_drates"
            pre, txt, ty, _ = self.num(value, env)
            env2 = self.bind(env, store, "rates")
            return self.emit_pre(pre, self.let(vname(store), "(b_set_rate %s %s %s)" % (
                env[store].coq, self.bnode(t.value, env), self.coerce(txt, ty, "Q", s)),
                self.block(rest, env2, k, mode)), mode, s)
        if (t.attr == "length" and isinstance(t.value, ast.Attribute) and t.value.attr == "edge"
                and self.is_bnode(t.value.value, env)):
            nd = self.bnode(t.value.value, env)
            if op is not None:
                # X.edge.length <op>= e : read-modify-write of the same attribute
                sym = {ast.Add: "+", ast.Sub: "-", ast.Mult: "*", ast.Div: "/"}.get(type(op))
                if sym is None:
                    self.bad(s, "augmented assignment operator")
                pre, txt, ty, _ = self.num(value, env)
                env2 = self.bind(env, "st_tr", "btree")
                return self.emit_pre(pre, self.let("v_st_tr", "(b_upd_len %s %s (fun l_ => (l_ %s %s)%%Q))" % (
                    env["st_tr"].coq, nd, sym, self.coerce(txt, ty, "Q", s)), self.block(rest, env2, k, mode)), mode, s)
            pre, txt, ty, _ = self.num(value, env)
            env2 = self.bind(env, "st_tr", "btree")
            return self.emit_pre(pre, self.let("v_st_tr", "(b_set_len %s %s %s)" % (
                env["st_tr"].coq, nd, self.coerce(txt, ty, "Q", s)), self.block(rest, env2, k, mode)), mode, s)
        self.bad(s, "attribute store .%s" % t.attr)

    def st_Expr_b(self, s, rest, env, k, mode):
        e = s.value
        if isinstance(e, ast.Call):
            q = self.path(e.func)
            # setattr(nd, extinct_attr_name, v): an annotation outside the modelled state
            if q == "setattr" and len(e.args) == 3 and isinstance(e.args[1], ast.Name) \
                    and e.args[1].id in env and env[e.args[1].id].const == self.spec.get("annotation"):
                return self.block(rest, env, k, mode)
            if isinstance(e.func, ast.Attribute) and isinstance(e.func.value, ast.Name) and e.func.value.id in env:
                r, meth = e.func.value.id, e.func.attr
                # tree.suppress_unifurcations()
                if env[r].ty == "treeh" and meth == "suppress_unifurcations" and not e.args and not e.keywords:
                    env2 = self.bind(env, "st_tr", "btree")
                    return self.let("v_st_tr", "(suppress %s)" % env["st_tr"].coq, self.block(rest, env2, k, mode))
                # tree.prune_subtree(nd, suppress_unifurcations=False)
                if env[r].ty == "treeh" and meth == "prune_subtree" and len(e.args) == 1 and self.is_bnode(e.args[0], env) \
                        and [kw_.arg for kw_ in e.keywords] == ["suppress_unifurcations"] \
                        and isinstance(e.keywords[0].value, ast.Constant) and e.keywords[0].value.value is False:
                    if mode != "M":
                        self.bad(s, "prune_subtree (can raise) inside a pure block")
                    env2 = self.bind(env, "st_tr", "btree")
                    return "(let! v_st_tr := b_prune_subtree %s %s in\n  %s)" % (
                        env["st_tr"].coq, self.bnode(e.args[0], env), self.block(rest, env2, k, mode))
                # tree.prune_subtree(nd): suppress_unifurcations defaults to True
                if env[r].ty == "treeh" and meth == "prune_subtree" and len(e.args) == 1 and self.is_bnode(e.args[0], env) \
                        and not e.keywords:
                    if mode != "M":
                        self.bad(s, "prune_subtree (can raise) inside a pure block")
                    env2 = self.bind(env, "st_tr", "btree")
                    return "(let! v_st_tr := b_prune_subtree_s %s %s in\n  %s)" % (
                        env["st_tr"].coq, self.bnode(e.args[0], env), self.block(rest, env2, k, mode))
                # tree.randomly_assign_taxa(create_required_taxa=True, rng=rng)
                if env[r].ty == "treeh" and meth == "randomly_assign_taxa" and not e.args \
                        and sorted(kw_.arg for kw_ in e.keywords) == ["create_required_taxa", "rng"]:
                    kws = {kw_.arg: kw_.value for kw_ in e.keywords}
                    if not (isinstance(kws["create_required_taxa"], ast.Constant) and kws["create_required_taxa"].value is True):
                        self.bad(s, "randomly_assign_taxa is translated for create_required_taxa=True only")
                    if not (isinstance(kws["rng"], ast.Name) and kws["rng"].id in env and env[kws["rng"].id].ty == "rng"):
                        self.bad(s, "randomly_assign_taxa must be called with the generator that was passed in")
                    if mode != "M":
                        self.bad(s, "randomly_assign_taxa (draws) inside a pure block")
                    nsn = [n for n, v_ in env.items() if isinstance(v_, Var) and v_.ty == "labs"]
                    if len(nsn) != 1:
                        self.bad(s, "no unique taxon namespace in scope")
                    old_ns = env[nsn[0]].coq
                    env2 = self.bind(env, "st_tr", "btree")
                    env2 = self.bind(env2, nsn[0], "labs")
                    return "(let! (v_st_tr, %s) := py_randomly_assign_taxa %s %s in\n  %s)" % (
                        env2[nsn[0]].coq, env["st_tr"].coq, old_ns, self.block(rest, env2, k, mode))
                # node_set.add(nd)
                if env[r].ty == TList("bnode") and meth == "add" and len(e.args) == 1 and self.is_bnode(e.args[0], env):
                    old = env[r].coq
                    txt = self.bnode(e.args[0], env)
                    env2 = self.bind(env, r, env[r].ty)
                    return self.let(env2[r].coq, "(%s :: %s)" % (txt, old), self.block(rest, env2, k, mode))
                # rng.shuffle(l)
                if env[r].ty == "rng" and meth == "shuffle" and len(e.args) == 1 and isinstance(e.args[0], ast.Name) \
                        and e.args[0].id in env and is_list(env[e.args[0].id].ty):
                    if mode != "M":
                        self.bad(s, "rng.shuffle inside a pure block")
                    l = e.args[0].id
                    if env[l].ty[1] not in ("tax", "bnode", "N"):
                        self.bad(s, "shuffle of a list of %r" % (env[l].ty[1],))
                    p_ = self.fresh("p")
                    env2 = self.bind(env, l, env[l].ty)
                    return "(let! %s := d_perm (length %s) in\n  let %s := apply_perm 0 %s %s in\n  %s)" % (
                        p_, env[l].coq, env2[l].coq, p_, env[l].coq, self.block(rest, env2, k, mode))
                # labels.add(label)
                if env[r].ty == TList("lab") and meth == "add" and len(e.args) == 1:
                    pre, t_, ty_, _ = self.ex(e.args[0], env)
                    if ty_ != "lab" or pre:
                        self.bad(s, "adding %r to a label set" % (ty_,))
                    env2 = self.bind(env, r, env[r].ty)
                    return self.let(env2[r].coq, "(%s :: %s)" % (t_, env[r].coq), self.block(rest, env2, k, mode))
            if isinstance(e.func, ast.Attribute) and e.func.attr == "clear_child_nodes" and not e.args \
                    and self.is_bnode(e.func.value, env):
                env2 = self.bind(env, "st_tr", "btree")
                return self.let("v_st_tr", "(b_clear_children %s %s)" % (env["st_tr"].coq, self.bnode(e.func.value, env)),
                                self.block(rest, env2, k, mode))
        self.bad(s, "expression statement")

    def list_remove_b(self, s, e, r, rest, env, k, mode):
        a = e.args[0]
        if self.is_bnode(a, env) and env[r].ty == TList("bnode"):
            if mode != "M":
                self.bad(s, "list.remove (can raise ValueError) inside a pure block")
            env2 = self.bind(env, r, env[r].ty)
            return "(let! %s := py_list_remove %s %s in\n  %s)" % (
                env2[r].coq, self.bnode(a, env), env[r].coq, self.block(rest, env2, k, mode))
        self.bad(s, "list.remove form")

    def st_Try(self, s, rest, env, k, mode):
        # try: X.edge.length += w / except TypeError: X.edge.length = w : edge lengths of this family are
        # numbers (never None), the handler is unreachable
        if (len(s.handlers) == 1 and self.path(s.handlers[0].type) == "TypeError" and not s.orelse and not s.finalbody
                and len(s.body) == 1 and isinstance(s.body[0], ast.AugAssign)
                and self.path(s.body[0].target) is not None and self.path(s.body[0].target).endswith(".edge.length")
                and len(s.handlers[0].body) == 1 and isinstance(s.handlers[0].body[0], ast.Assign)
                and self.path(s.handlers[0].body[0].targets[0]) == self.path(s.body[0].target)
                and ast.dump(s.handlers[0].body[0].value) == ast.dump(s.body[0].value)):
            return self.block(s.body + rest, env, k, mode)
        # try: L.remove(nd) / except ValueError: pass : remove the first occurrence if there is one
        if (len(s.handlers) == 1 and self.path(s.handlers[0].type) == "ValueError" and not s.orelse and not s.finalbody
                and len(s.body) == 1 and isinstance(s.body[0], ast.Expr) and isinstance(s.body[0].value, ast.Call)
                and isinstance(s.body[0].value.func, ast.Attribute) and s.body[0].value.func.attr == "remove"
                and isinstance(s.body[0].value.func.value, ast.Name) and len(s.body[0].value.args) == 1
                and not s.body[0].value.keywords
                and len(s.handlers[0].body) == 1 and isinstance(s.handlers[0].body[0], ast.Pass)):
            r = s.body[0].value.func.value.id
            a = s.body[0].value.args[0]
            if r in env and env[r].ty == TList("bnode") and self.is_bnode(a, env):
                old = env[r].coq
                txt = self.bnode(a, env)
                env2 = self.bind(env, r, env[r].ty)
                return self.let(env2[r].coq, "(remove_first %s %s)" % (txt, old), self.block(rest, env2, k, mode))
        self.bad(s, "try statement form")

    def block_assert(self, s, rest, env, k, mode):
        if mode != "M" or s.msg is not None:
            self.bad(s, "assert form")
        pre, t, c, env_t, _ef = self.cond(s.test, env)
        if pre:
            self.bad(s, "assert that draws")
        if c is not NOCONST:
            if c:
                return self.block(rest, env, k, mode)
            return "(raise PyPrims.AssertErr)"
        return "(if %s\n   then %s\n   else (raise PyPrims.AssertErr))" % (t, self.block(rest, env_t, k, mode))

    def for_range_b(self, s, rest, env, k, mode):
        # for i in range(len(L)): L[i] = <expression in L[i]>   ->  L = map (fun x => ...) L
        it = s.iter
        if (len(it.args) == 1 and isinstance(it.args[0], ast.Call) and self.path(it.args[0].func) == "len"
                and isinstance(it.args[0].args[0], ast.Name) and isinstance(s.target, ast.Name)
                and len(s.body) == 1 and isinstance(s.body[0], ast.Assign)
                and isinstance(s.body[0].targets[0], ast.Subscript)):
            L, i = it.args[0].args[0].id, s.target.id
            tgt = s.body[0].targets[0]
            if not (isinstance(tgt.value, ast.Name) and tgt.value.id == L and isinstance(tgt.slice, ast.Name)
                    and tgt.slice.id == i and L in env and is_list(env[L].ty)):
                self.bad(s, "in-place update form")

            class Sub(ast.NodeTransformer):
                def visit_Subscript(self_, n):
                    if isinstance(n.value, ast.Name) and n.value.id == L and isinstance(n.slice, ast.Name) and n.slice.id == i:
                        return ast.copy_location(ast.Name(id="$elem", ctx=ast.Load()), n)
                    return self_.generic_visit(n)
            import copy
            val = Sub().visit(copy.deepcopy(s.body[0].value))
            for n in ast.walk(val):
                if isinstance(n, ast.Name) and n.id in (L, i):
                    self.bad(s, "in-place update uses the list or the index otherwise")
            env_in = dict(env)
            env_in["$elem"] = Var(env[L].ty[1], "x_")
            pre, txt, ty, _ = self.ex(val, env_in)
            if pre:
                self.bad(s, "in-place update that draws")
            env2 = self.bind(env, L, env[L].ty)
            return self.let(env2[L].coq, "(map (fun x_ => %s) %s)" % (self.coerce(txt, ty, env[L].ty[1], s), env[L].coq),
                            self.block(rest, env2, k, mode))
        self.bad(s, "range form")

    def translate(self):
        spec = self.spec
        env = {}
        params = []
        for a in self.fn.args.args:
            n = a.arg
            if n in spec["params"]:
                env[n] = Var(spec["params"][n], vname(n))
                params.append((vname(n), spec["params"][n]))
            elif n == self.rng_name:
                env[n] = Var("rng", "tt")
            else:
                self.bad(self.fn, "parameter %s is not described in PLAN" % n)
        if self.fn.args.kwarg is not None:
            kv = Var("kwargs", "tt")
            kv.keys = {}
            for key, ty in spec.get("kwargs", {}).items():
                if ty == "rng":
                    kv.keys[key] = ("rng", "tt")
                else:
                    kv.keys[key] = (ty, vname(key))
                    params.append((vname(key), ty))
            kv.dyn = {}
            for key, ty in spec.get("kwargs_dyn", {}).items():
                kv.dyn[key] = (ty, vname(key))
                params.append((vname(key), ty))
            env[self.fn.args.kwarg.arg] = kv
        self.top_fall = lambda e: self.result_tuple(e)
        k = K(self.top_fall, None, None, lambda t, ty, e: "(ret %s)" % t)
        self.top_k = k
        body = self.block(self.fn.body, env, k, "M")
        head = "Definition %s %s :=\n  %s.\n" % (
            spec["coq"], " ".join("(%s : %s)" % (n, coq_ty(t)) for n, t in params), body)
        out = "".join(self.aux) + head
        # further parts of the function, each a definition of its own over the live variables
        for part in spec.get("parts", []):
            self.aux = []
            stmts = self.fn.body
            idx = [i for i, st_ in enumerate(stmts) if part["start"](st_)]
            if len(idx) != 1:
                self.bad(self.fn, "start of part %s not found" % part["coq"])
            env2 = {}
            for n, v in self.cut_env.items():
                if not isinstance(v, Var):
                    env2[n] = v
                elif v.const is not NOCONST or v.ty in ("rng", "treeh", "kwargs", "const", "nodeclass"):
                    env2[n] = v
                elif n in part["live"]:
                    env2[n] = Var(v.ty, vname(n))
            for n in part["live"]:
                if n not in env2:
                    self.bad(self.fn, "live variable %s of part %s is not defined" % (n, part["coq"]))
            self.fuels = list(part.get("fuel", []))
            self.part = part
            def part_fall(e, part=part):
                if "result" not in part:
                    self.bad(self.fn, "part %s falls off the end" % part["coq"])
                for n in part["result"]:
                    if n not in e or e[n].const is not NOCONST:
                        self.bad(self.fn, "result variable %s of part %s is not live" % (n, part["coq"]))
                return "(ret %s)" % tuple_val([e[n].coq for n in part["result"]])
            k2 = K(part_fall, None, None, lambda t, ty, e: "(ret %s)" % t)
            end = len(stmts)
            if "stop" in part:
                jdx = [i for i, st_ in enumerate(stmts) if i > idx[0] and part["stop"](st_)]
                if len(jdx) != 1:
                    self.bad(self.fn, "end of part %s not found" % part["coq"])
                end = jdx[0]
            body2 = self.block(stmts[idx[0]:end], env2, k2, "M")
            out += "\n" + "".join(self.aux) + "Definition %s %s :=\n  %s.\n" % (
                part["coq"], " ".join("(%s : %s)" % (vname(n), coq_ty(env2[n].ty)) for n in part["live"]), body2)
        if self.fuels:
            self.bad(self.fn, "unused fuel declarations")
        return out

    def st_Return(self, s, rest, env, k, mode):
        if isinstance(s.value, ast.Name) and s.value.id in env and env[s.value.id].ty == "treeh":
            extra = getattr(self, "part", {}).get("return_with") or self.spec.get("return_with", [])
            return "(ret %s)" % tuple_val([env["st_tr"].coq] + [env[n].coq for n in extra])
        return Fn.st_Return(self, s, rest, env, k, mode)

    def result_tuple(self, env):
        if "result" not in self.spec:
            self.bad(self.fn, "the function can fall off its end")
        names = self.spec["result"]
        self.cut_env = env
        for n in names:
            if n not in env or env[n].const is not NOCONST:
                self.bad(self.fn, "result variable %s is not live" % n)
        return "(ret %s)" % tuple_val([env[n].coq for n in names])

    def st_While(self, s, rest, env, k, mode):
        if self.spec.get("stop_after_while") and k is self.top_k:
            rest = []         # the statements after the event loop are translated separately
        return Fn.st_While(self, s, rest, env, k, mode)


# ----------------------------------------------------------------------------------------------
# contained_coalescent_tree: the containing tree is a value `stree` (Model/C18Model.v) whose nodes
# carry: sid (identity), genes (Some l iff `nd.taxon and nd.taxon in reverse-map`, l = the gene taxa
# sorted by accession index), len (edge.length), pop (the population size of the edge: the attribute
# named by edge_pop_size_attr if present, else default_pop_size).  A dict keyed by nodes is an
# association list keyed by sid.  An edge is (head node, sid of the tail node or None).
# ----------------------------------------------------------------------------------------------
POP_SIZE_IF = ast.parse("""
if edge_pop_size_attr and hasattr(edge, edge_pop_size_attr):
    pop_size = getattr(edge, edge_pop_size_attr)
else:
    pop_size = default_pop_size
""").body[0]


def is_dict(t):
    return isinstance(t, tuple) and t[0] == "dict"


class FnS(Fn):
    IGNORED_TREE_ATTRS = ("is_rooted", "pop_node_genes")

    def var_ty(self, e, env):
        return env[e.id].ty if isinstance(e, ast.Name) and e.id in env else None

    # -- keys ------------------------------------------------------------------------------------
    def dict_key(self, e, env):
        """the sid of a containing-tree node expression"""
        if self.var_ty(e, env) == "snode":
            return "(s_id %s)" % env[e.id].coq
        if isinstance(e, ast.Attribute) and self.var_ty(e.value, env) == "sedge":
            ed = env[e.value.id].coq
            if e.attr == "head_node":
                return "(s_id (fst %s))" % ed
            # edge.tail_node is edge.head_node.parent_node (Edge._get_tail_node)
            if e.attr == "tail_node" and ("nonnone", e.value.id + ".head_node.parent_node") in self.facts(env):
                return "(py_unwrap_n (snd %s))" % ed
        self.bad(e, "dictionary key")

    # -- expressions -----------------------------------------------------------------------------
    def ex(self, e, env):
        if isinstance(e, ast.Dict) and not e.keys:
            return [], "[]", ("dict", None, None), NOCONST
        return Fn.ex(self, e, env)

    def attribute_b(self, e, env, p):
        if self.var_ty(e.value, env) == "taxmap" and e.attr == "domain_taxon_namespace":
            return [], "tt", "opaque", NOCONST
        if self.var_ty(e.value, env) == "taxmap" and e.attr == "reverse":
            return [], "tt", "revmap", NOCONST
        if isinstance(e.value, ast.Attribute) and e.value.attr == "head_node" and e.attr == "parent_node" \
                and self.var_ty(e.value.value, env) == "sedge":
            return [], "(snd %s)" % env[e.value.value.id].coq, "OsN", NOCONST
        if e.attr == "length" and self.var_ty(e.value, env) == "sedge":
            return [], "(s_len (fst %s))" % env[e.value.id].coq, "OQ", NOCONST
        self.bad(e, "attribute .%s" % e.attr)

    def subscript(self, e, env):
        if self.var_ty(e.value, env) is not None and is_dict(env[e.value.id].ty):
            v = self.fresh("x")
            return [(v, "(py_dict_get %s %s)" % (env[e.value.id].coq, self.dict_key(e.slice, env)))], v, \
                env[e.value.id].ty[2], NOCONST
        return Fn.subscript(self, e, env)

    def contains(self, e, op, l, r, env):
        if self.var_ty(r, env) is not None and is_dict(env[r.id].ty):
            txt = "(d_has %s %s)" % (env[r.id].coq, self.dict_key(l, env))
            if isinstance(op, ast.NotIn):
                txt = "(negb %s)" % txt
            return [], txt, "B", NOCONST
        self.bad(e, "`in`")

    def cond(self, e, env):
        # nd.taxon and nd.taxon in <reverse map>: the node holds gene taxa
        if (isinstance(e, ast.BoolOp) and isinstance(e.op, ast.And) and len(e.values) == 2
                and isinstance(e.values[0], ast.Attribute) and e.values[0].attr == "taxon"
                and self.var_ty(e.values[0].value, env) == "snode"
                and isinstance(e.values[1], ast.Compare) and len(e.values[1].ops) == 1
                and isinstance(e.values[1].ops[0], ast.In)
                and ast.dump(e.values[1].left) == ast.dump(e.values[0])
                and self.var_ty(e.values[1].comparators[0], env) == "revmap"):
            return [], "(s_has_genes %s)" % env[e.values[0].value.id].coq, NOCONST, env, env
        return Fn.cond(self, e, env)

    def call(self, e, env):
        if self.path(e.func) == "dendropy.Tree" and not e.args and [k_.arg for k_ in e.keywords] == ["taxon_namespace"]:
            return [], "(g_new None)", "gnode", NOCONST       # a new tree is its (fresh) seed node
        return Fn.call(self, e, env)

    def call_b(self, e, qual, env):
        f = e.func
        if isinstance(f, ast.Attribute) and self.var_ty(f.value, env) == "stree" and not e.args and not e.keywords:
            if f.attr == "postorder_node_iter":
                return [], "(s_post %s)" % env[f.value.id].coq, TList("snode"), NOCONST
            if f.attr == "postorder_edge_iter":
                return [], "(s_post_edges None %s)" % env[f.value.id].coq, TList("sedge"), NOCONST
        # sorted(<reverse map>[nd.taxon], key=<gene namespace>.accession_index): the gene taxa of the node
        if (qual == "sorted" and len(e.args) == 1 and isinstance(e.args[0], ast.Subscript)
                and self.var_ty(e.args[0].value, env) == "revmap"
                and isinstance(e.args[0].slice, ast.Attribute) and e.args[0].slice.attr == "taxon"
                and self.var_ty(e.args[0].slice.value, env) == "snode"
                and [k_.arg for k_ in e.keywords] == ["key"] and isinstance(e.keywords[0].value, ast.Attribute)
                and e.keywords[0].value.attr == "accession_index"
                and self.var_ty(e.keywords[0].value.value, env) == "opaque"):
            return [], "(s_own %s)" % env[e.args[0].slice.value.id].coq, TList("tax"), NOCONST
        self.bad(e, "call %s" % (qual or ast.dump(e.func)))

    # -- statement analysis ----------------------------------------------------------------------
    def attr_store_vars_b(self, t, r, env):
        self.bad(t, "store to attribute of %s" % r)

    def expr_store_vars_b(self, e, env):
        if (isinstance(e, ast.Call) and isinstance(e.func, ast.Attribute) and e.func.attr in ("append", "extend")
                and isinstance(e.func.value, ast.Subscript) and isinstance(e.func.value.value, ast.Name)):
            return [e.func.value.value.id]
        return []

    def only_touches(self, stmts, names, loopvars=()):
        """the statements can only rebind / mutate the objects called `names`"""
        for s in stmts:
            if isinstance(s, ast.Assign):
                if not all(isinstance(t, ast.Name) and t.id in names for t in s.targets):
                    return False
                if not (isinstance(s.value, ast.Call) and self.path(s.value.func) == "dendropy.TaxonNamespace"
                        and not s.value.args and not s.value.keywords):
                    return False
            elif isinstance(s, ast.Expr):
                c = s.value
                if not (isinstance(c, ast.Call) and isinstance(c.func, ast.Attribute) and c.func.attr == "add"
                        and isinstance(c.func.value, ast.Name) and c.func.value.id in names
                        and all(isinstance(a, ast.Name) and a.id in loopvars for a in c.args) and not c.keywords):
                    return False
            elif isinstance(s, ast.For):
                if not (isinstance(s.target, ast.Name) and isinstance(s.iter, ast.Name) and not s.orelse):
                    return False
                if not self.only_touches(s.body, names, tuple(loopvars) + (s.target.id,)):
                    return False
            else:
                return False
        return True

    # -- statements ------------------------------------------------------------------------------
    def st_Assign(self, s, rest, env, k, mode):
        t = s.targets[0] if len(s.targets) == 1 else None
        if isinstance(t, ast.Name) and isinstance(s.value, ast.Dict) and not s.value.keys:
            hint = self.spec.get("locals", {}).get(t.id)
            if hint is None or not is_dict(hint):
                self.bad(s, "type of the empty dict %s is not declared in PLAN" % t.id)
            env2 = self.bind(env, t.id, hint)
            return self.let(env2[t.id].coq, "(@nil (nat * %s))" % coq_ty(hint[2]), self.block(rest, env2, k, mode))
        if isinstance(t, ast.Name) and isinstance(s.value, ast.Attribute) and self.var_ty(s.value.value, env) == "taxmap":
            _p, _t, ty, _c = self.ex(s.value, env)
            env2 = dict(env)
            env2[t.id] = Var(ty, "tt")
            return self.block(rest, env2, k, mode)
        if isinstance(t, ast.Name) and isinstance(s.value, ast.Call) and self.path(s.value.func) == "dendropy.Tree":
            pre, txt, ty, _c = self.ex(s.value, env)
            env2 = self.bind(env, t.id, "gnode", tree=True)
            return self.let(env2[t.id].coq, txt, self.block(rest, env2, k, mode))
        return Fn.st_Assign(self, s, rest, env, k, mode)

    def subscript_store(self, s, t, rest, env, k, mode):
        if self.var_ty(t.value, env) is not None and is_dict(env[t.value.id].ty):
            d = t.value.id
            pre, txt, ty, _ = self.ex(s.value, env)
            if pre:
                self.bad(s, "stored value draws")
            txt = self.coerce(txt, ty, env[d].ty[2], s)
            key = self.dict_key(t.slice, env)
            old = env[d].coq
            env2 = self.bind(env, d, env[d].ty)
            return self.let(env2[d].coq, "(d_set %s %s %s)" % (old, key, txt), self.block(rest, env2, k, mode))
        self.bad(s, "subscript store")

    def st_Expr_b(self, s, rest, env, k, mode):
        e = s.value
        # D[key].append(x) / D[key].extend(l): the list held by the dict is updated in place
        if (isinstance(e, ast.Call) and isinstance(e.func, ast.Attribute) and e.func.attr in ("append", "extend")
                and isinstance(e.func.value, ast.Subscript) and self.var_ty(e.func.value.value, env) is not None
                and is_dict(env[e.func.value.value.id].ty) and len(e.args) == 1 and not e.keywords):
            if mode != "M":
                self.bad(s, "dictionary lookup (can raise) inside a pure block")
            d = e.func.value.value.id
            vty = env[d].ty[2]
            key = self.dict_key(e.func.value.slice, env)
            pre, txt, ty, _ = self.ex(e.args[0], env)
            if pre:
                self.bad(s, "argument draws")
            if e.func.attr == "append":
                if ty != vty[1]:
                    self.bad(s, "append of %r" % (ty,))
                new = "[%s]" % txt
            else:
                if ty != vty:
                    self.bad(s, "extend by %r" % (ty,))
                new = txt
            l_ = self.fresh("l")
            old = env[d].coq
            env2 = self.bind(env, d, env[d].ty)
            return "(let! %s := py_dict_get %s %s in\n  %s)" % (
                l_, old, key, self.let(env2[d].coq, "(d_set %s %s (%s ++ %s))" % (old, key, l_, new),
                                       self.block(rest, env2, k, mode)))
        self.bad(s, "expression statement")

    def attr_store_b(self, s, t, value, op, rest, env, k, mode):
        root = self.path(t).split(".")[0]
        if root in env and getattr(env[root], "tree", False) and op is None and self.path(t) == root + "." + t.attr:
            if t.attr in self.IGNORED_TREE_ATTRS:
                return self.block(rest, env, k, mode)
            if t.attr == "seed_node":
                pre, txt, ty, _ = self.ex(value, env)
                if ty != "gnode":
                    self.bad(s, "seed node of type %r" % (ty,))
                env2 = self.bind(env, root, "gnode", tree=True)
                return self.emit_pre(pre, self.let(env2[root].coq, txt, self.block(rest, env2, k, mode)), mode, s)
        self.bad(s, "attribute store .%s" % t.attr)

    def st_If(self, s, rest, env, k, mode):
        # the population size of the edge
        if ast.dump(s) == ast.dump(POP_SIZE_IF) and self.var_ty(ast.Name(id="edge"), env) == "sedge" \
                and self.var_ty(ast.Name(id="edge_pop_size_attr"), env) == "opaque" \
                and self.var_ty(ast.Name(id="default_pop_size"), env) == "opaque":
            env2 = self.bind(env, "pop_size", "Q")
            return self.let(env2["pop_size"].coq, "(s_pop (fst %s))" % env["edge"].coq, self.block(rest, env2, k, mode))
        # if <gene namespace> is None: <build it>   (set-up of the namespace, outside the modelled state)
        if (isinstance(s.test, ast.Compare) and len(s.test.ops) == 1 and isinstance(s.test.ops[0], ast.Is)
                and isinstance(s.test.comparators[0], ast.Constant) and s.test.comparators[0].value is None
                and self.var_ty(s.test.left, env) == "opaque" and not s.orelse):
            if not self.only_touches(s.body, (s.test.left.id,)):
                self.bad(s, "namespace set-up touches something else")
            return self.block(rest, env, k, mode)
        return Fn.st_If(self, s, rest, env, k, mode)


# ----------------------------------------------------------------------------------------------
# facts: rng threading
# ----------------------------------------------------------------------------------------------
def find_def(tree, name):
    for n in tree.body:
        if isinstance(n, ast.FunctionDef) and n.name == name:
            return n
    raise Unsupported("function %s not found" % name)


def rng_fact(fn, rng="rng", callees={}):
    """True iff every draw in fn is a method call on its `rng` parameter (after the default
    `if rng is None: rng = GLOBAL_RNG`) and every call of one of `callees` passes that rng on"""
    params = [a.arg for a in fn.args.args]
    if rng not in params:
        return False
    ok = True
    seen_default = False
    for n in ast.walk(fn):
        if isinstance(n, ast.Name) and n.id in ("GLOBAL_RNG", "random"):
            # allowed only as the right-hand side of the default
            seen_default = True
        if isinstance(n, ast.Call):
            f = n.func
            name = f.id if isinstance(f, ast.Name) else (f.attr if isinstance(f, ast.Attribute) else None)
            if name in callees:
                passed = None
                cal = callees[name]
                for i, a in enumerate(n.args):
                    if cal is not None and i == cal:
                        passed = a
                for kw in n.keywords:
                    if kw.arg == "rng":
                        passed = kw.value
                if not (isinstance(passed, ast.Name) and passed.id == rng):
                    ok = False
            if isinstance(f, ast.Attribute) and f.attr in ("random", "expovariate", "gauss", "sample", "choice",
                                                          "shuffle", "randint", "uniform", "randrange"):
                if not (isinstance(f.value, ast.Name) and f.value.id == rng):
                    ok = False
    # GLOBAL_RNG may only occur in `if rng is None: rng = GLOBAL_RNG`
    count = sum(1 for n in ast.walk(fn) if isinstance(n, ast.Name) and n.id == "GLOBAL_RNG")
    dflt = 0
    for n in ast.walk(fn):
        if (isinstance(n, ast.If) and isinstance(n.test, ast.Compare) and isinstance(n.test.left, ast.Name)
                and n.test.left.id == rng and len(n.body) == 1 and isinstance(n.body[0], ast.Assign)
                and isinstance(n.body[0].value, ast.Name) and n.body[0].value.id == "GLOBAL_RNG"):
            dflt += 1
    if count != dflt:
        ok = False
    return ok


def rng_fact_kwargs(fn, callees=()):
    """the same for a function that takes its generator as `rng = kwargs.pop('rng', GLOBAL_RNG)`"""
    ok = False
    for n in ast.walk(fn):
        if (isinstance(n, ast.Assign) and len(n.targets) == 1 and isinstance(n.targets[0], ast.Name)
                and n.targets[0].id == "rng" and isinstance(n.value, ast.Call) and isinstance(n.value.func, ast.Attribute)
                and n.value.func.attr in ("pop", "get") and len(n.value.args) == 2
                and isinstance(n.value.args[0], ast.Constant) and n.value.args[0].value == "rng"
                and isinstance(n.value.args[1], ast.Name) and n.value.args[1].id == "GLOBAL_RNG"):
            ok = True
    if not ok:
        return False
    if sum(1 for n in ast.walk(fn) if isinstance(n, ast.Name) and n.id == "GLOBAL_RNG") != 1:
        return False
    for n in ast.walk(fn):
        if isinstance(n, ast.Call):
            f = n.func
            name = f.id if isinstance(f, ast.Name) else (f.attr if isinstance(f, ast.Attribute) else None)
            if name in callees:
                passed = [kw.value for kw in n.keywords if kw.arg == "rng"]
                if not (len(passed) == 1 and isinstance(passed[0], ast.Name) and passed[0].id == "rng"):
                    return False
            if isinstance(f, ast.Attribute) and f.attr in ("random", "expovariate", "gauss", "sample", "choice",
                                                          "shuffle", "randint", "uniform", "randrange"):
                if not (isinstance(f.value, ast.Name) and f.value.id == "rng"):
                    return False
            # helpers that shuffle / draw on their own generator must not be used
            if name in ("randomly_assign_taxa", "shuffle_taxa", "randomly_rotate", "randomly_reorient"):
                return False
    return True


def fresh_label_site(fn):
    """the method called in `taxon = taxon_namespace.<m>(label=label)` of the `if taxon_pool: .. else: ..` block"""
    found = []
    for n in ast.walk(fn):
        if (isinstance(n, ast.Assign) and len(n.targets) == 1 and isinstance(n.targets[0], ast.Name)
                and n.targets[0].id == "taxon" and isinstance(n.value, ast.Call)
                and isinstance(n.value.func, ast.Attribute) and isinstance(n.value.func.value, ast.Name)
                and n.value.func.value.id == "taxon_namespace"
                and [kw.arg for kw in n.value.keywords] == ["label"] and not n.value.args):
            found.append(n.value.func.attr)
    if len(found) != 1:
        raise Unsupported("%s: fresh-label site not found" % fn.name)
    return found[0]


def gene_taxa_sorted(fn):
    """gene_taxa = sorted(pop_gene_taxa[nd.taxon], key=<ns>.accession_index) and `for gene_taxon in gene_taxa`"""
    ok_sorted = ok_iter = False
    for n in ast.walk(fn):
        if (isinstance(n, ast.Assign) and len(n.targets) == 1 and isinstance(n.targets[0], ast.Name)
                and n.targets[0].id == "gene_taxa"):
            v = n.value
            ok_sorted = (isinstance(v, ast.Call) and isinstance(v.func, ast.Name) and v.func.id == "sorted"
                         and len(v.args) == 1 and len(v.keywords) == 1 and v.keywords[0].arg == "key"
                         and isinstance(v.keywords[0].value, ast.Attribute)
                         and v.keywords[0].value.attr == "accession_index")
        if isinstance(n, ast.For) and isinstance(n.iter, ast.Name) and n.iter.id == "gene_taxa":
            ok_iter = True
    return ok_sorted and ok_iter


# ----------------------------------------------------------------------------------------------
# plan
# ----------------------------------------------------------------------------------------------
PLAN = [
    dict(file="calculate/probability.py", name="weighted_index_choice", coq="gen_weighted_index_choice",
         params={"weights": TList("Q")}, ret="ON"),
    dict(file="calculate/probability.py", name="weighted_choice", coq="gen_weighted_choice", poly=True,
         params={"seq": TList("A"), "weights": TList("Q")}, ret="A"),
    dict(file="model/coalescent.py", name="time_to_coalescence", coq="gen_time_to_coalescence",
         params={"n_genes": "N", "pop_size": "Q"}, consts={"n_to_coalesce": 2}, ret="Q"),
    dict(file="model/coalescent.py", name="coalesce_nodes", coq="gen_coalesce_nodes",
         params={"nodes": TList("gnode"), "pop_size": "Q", "period": "OQ"}, order=["pop_size", "period", "nodes"],
         consts={"use_expected_tmrca": False}, fuel=["py_while (S (length {nodes}))"], ret=TList("gnode")),
    dict(file="model/coalescent.py", name="pure_kingman_tree", coq="gen_pure_kingman_tree",
         params={"taxon_namespace": TList("tax"), "pop_size": "Q"}, ret="gnode"),
    # mean_kingman_tree: coalesce_nodes with use_expected_tmrca=True (waiting times = their expectations)
    dict(file="model/coalescent.py", name="expected_tmrca", coq="gen_expected_tmrca",
         params={"n_genes": "N", "pop_size": "Q"}, consts={"n_to_coalesce": 2}, ret="Q"),
    dict(file="model/coalescent.py", name="coalesce_nodes", coq="gen_coalesce_nodes_mean",
         params={"nodes": TList("gnode"), "pop_size": "Q", "period": "OQ"}, order=["pop_size", "period", "nodes"],
         consts={"use_expected_tmrca": True}, fuel=["py_while (S (length {nodes}))"], ret=TList("gnode")),
    dict(file="model/coalescent.py", name="mean_kingman_tree", coq="gen_mean_kingman_tree",
         params={"taxon_namespace": TList("tax"), "pop_size": "Q"}, ret="gnode", register=False),
    dict(file="model/coalescent.py", name="contained_coalescent_tree", coq="gen_contained_coalescent_tree", cls="FnS",
         params={"containing_tree": "stree"},
         opaque={"gene_to_containing_taxon_map": "taxmap", "edge_pop_size_attr": "opaque", "default_pop_size": "opaque"},
         locals={"pop_node_genes": ("dict", "snode", TList("gnode"))}, ret="gnode", register=False),
    dict(file="model/birthdeath.py", name="uniform_pure_birth_tree", coq="gen_uniform_pure_birth_tree", cls="FnB",
         params={"taxon_namespace": TList("tax"), "birth_rate": "Q"}, fuel=["py_while (S (length {taxon_namespace}))"],
         ret="btree", register=False),
    # birth_death_tree in three parts (tip-count rule, no GSA): up to the end of the event loop; the
    # taxon assignment; the pruning of the extinct tips
    dict(file="model/birthdeath.py", name="birth_death_tree", coq="gen_birth_death_tree_loop", cls="FnB",
         params={"birth_rate": "Q", "death_rate": "Q", "birth_rate_sd": "Q", "death_rate_sd": "Q"},
         kwargs={"num_extant_tips": "N", "taxon_namespace": "labs", "rng": "rng"},
         none_locals={"taxon_pool_labels": "Olabs"},
         locals={"extinct_tips": TList("bnode"), "event_rates": TList("Q"),
                 "event_nodes": TList(TPair("bnode", "B")), "targetted_time_slices": TList("unit"), "total_time": "Q",
                 "processed_nodes": TList("bnode")},
         annotation="is_extinct", stop_after_while=True, fuel=["py_while_script"], ret="unit", register=False,
         result=["st_tr", "extant_tips", "extinct_tips", "st_brates", "st_drates", "st_next", "total_time"],
         # from tree.suppress_unifurcations() to the end: the taxon assignment
         parts=[dict(coq="gen_birth_death_tree_taxa", live=["st_tr", "taxon_namespace"],
                     start=lambda st_: (isinstance(st_, ast.Expr) and isinstance(st_.value, ast.Call)
                                        and isinstance(st_.value.func, ast.Attribute)
                                        and st_.value.func.attr == "suppress_unifurcations"),
                     fuel=["py_while (S (length {taxon_pool_labels}))"], return_with=["taxon_namespace"]),
                # the pruning of the extinct tips (between the event loop and suppress_unifurcations)
                dict(coq="gen_birth_death_tree_prune", live=["st_tr", "extinct_tips"],
                     start=lambda st_: (isinstance(st_, ast.If) and isinstance(st_.test, ast.UnaryOp)
                                        and isinstance(st_.test.operand, ast.Name)
                                        and st_.test.operand.id == "is_retain_extinct_tips"),
                     stop=lambda st_: (isinstance(st_, ast.Expr) and isinstance(st_.value, ast.Call)
                                       and isinstance(st_.value.func, ast.Attribute)
                                       and st_.value.func.attr == "suppress_unifurcations"),
                     fuel=["py_while (S (length (ids {st_tr})))"], result=["st_tr"])]),
    # fast_birth_death_tree: the same three parts
    dict(file="model/birthdeath.py", name="fast_birth_death_tree", coq="gen_fast_birth_death_tree_loop", cls="FnB",
         params={"birth_rate": "Q", "death_rate": "Q"},
         kwargs={"num_extant_tips": "N", "taxon_namespace": "labs", "rng": "rng"},
         none_locals={"taxon_pool_labels": "Olabs"},
         locals={"extinct_tips": TList("bnode"), "event_rates": TList("Q"),
                 "event_nodes": TList(TPair("bnode", "B")), "targetted_time_slices": TList("unit"), "total_time": "Q",
                 "processed_nodes": TList("bnode"), "initial_lengths": TList("Q")},
         annotation="is_extinct", stop_after_while=True, fuel=["py_while_script"], ret="unit", register=False,
         result=["st_tr", "extant_tips", "extinct_tips", "st_brates", "st_drates", "st_next", "total_time"],
         # from tree.suppress_unifurcations() to the end: the taxon assignment
         parts=[dict(coq="gen_fast_birth_death_tree_taxa", live=["st_tr", "taxon_namespace"],
                     start=lambda st_: (isinstance(st_, ast.Expr) and isinstance(st_.value, ast.Call)
                                        and isinstance(st_.value.func, ast.Attribute)
                                        and st_.value.func.attr == "suppress_unifurcations"),
                     fuel=["py_while (S (length {taxon_pool_labels}))"], return_with=["taxon_namespace"]),
                # the pruning of the extinct tips (between the event loop and suppress_unifurcations)
                dict(coq="gen_fast_birth_death_tree_prune", live=["st_tr", "extinct_tips"],
                     start=lambda st_: (isinstance(st_, ast.If) and isinstance(st_.test, ast.UnaryOp)
                                        and isinstance(st_.test.operand, ast.Name)
                                        and st_.test.operand.id == "is_retain_extinct_tips"),
                     stop=lambda st_: (isinstance(st_, ast.Expr) and isinstance(st_.value, ast.Call)
                                       and isinstance(st_.value.func, ast.Attribute)
                                       and st_.value.func.attr == "suppress_unifurcations"),
                     fuel=["py_while (S (length (ids {st_tr})))"], result=["st_tr"])]),
    # discrete_birth_death_tree (whole function), once for a call that passes taxon_namespace= and once for
    # a call that does not; ntax / max_time are options (passed iff not None), repeat_until_success and rng
    # are passed, tree= / assign_taxa= are not
    dict(file="model/birthdeath.py", name="discrete_birth_death_tree", coq="gen_discrete_birth_death_tree_ns", cls="FnB",
         params={"birth_rate": "Q", "death_rate": "Q", "birth_rate_sd": "Q", "death_rate_sd": "Q"},
         kwargs={"taxon_namespace": "labs", "repeat_until_success": "B", "rng": "rng"},
         kwargs_dyn={"ntax": "ON", "max_time": "ON"}, locals={"target_num_taxa": "ON"},
         fuel=["py_while_script", "py_while_script"], ret="unit", register=False, return_with=["taxon_namespace"]),
    dict(file="model/birthdeath.py", name="discrete_birth_death_tree", coq="gen_discrete_birth_death_tree", cls="FnB",
         params={"birth_rate": "Q", "death_rate": "Q", "birth_rate_sd": "Q", "death_rate_sd": "Q"},
         kwargs={"repeat_until_success": "B", "rng": "rng"},
         kwargs_dyn={"ntax": "ON", "max_time": "ON"}, locals={"target_num_taxa": "ON"},
         fuel=["py_while_script", "py_while_script"], ret="unit", register=False, return_with=["taxon_namespace"]),
]


def compile_fn(Cls, trees, spec):
    fn = find_def(trees[spec["file"]], spec["name"])
    if isinstance(Cls, str):
        Cls = globals()[Cls]
    c = Cls(fn, spec, trees)
    txt = c.translate()
    if spec.get("register", True):
        KNOWN.setdefault(spec["name"], []).append(
            dict(coq=spec["coq"], fn=fn, ret=spec["ret"], consts=spec.get("consts", {}),
                 params=[(p, spec["params"][p]) for p in spec.get("order", [a.arg for a in fn.args.args
                                                                              if a.arg in spec["params"]])],
                 rng="rng" if any(a.arg == "rng" for a in fn.args.args) else None))
    return "(* %s: %s, line %d *)\n%s" % (spec["file"], spec["name"], fn.lineno, txt)


def generate(repo):
    src = os.path.join(repo, "src", "dendropy")
    trees = {}
    for f in ("calculate/probability.py", "model/coalescent.py", "model/birthdeath.py"):
        with open(os.path.join(src, f)) as fh:
            trees[f] = ast.parse(fh.read())
    KNOWN.clear()
    out = ["(* GENERATED by py/dv/gen_sim.py from calculate/probability.py, model/coalescent.py and",
           "   model/birthdeath.py -- do not edit *)",
           "From Coq Require Import QArith ZArith List Bool Arith.",
           "From DV Require Import Model.C18Model Model.C18Prims Model.C18DiscPrims.",
           "From DV Require Model.PyPrims.",
           "Import ListNotations.",
           "Open Scope nat_scope.", ""]
    for spec in PLAN:
        out.append(compile_fn(spec.get("cls", Fn), trees, spec))
    # facts
    prob, coal = trees["calculate/probability.py"], trees["model/coalescent.py"]
    facts = [
        ("fact_geometric_rv_draws_from_rng", rng_fact(find_def(prob, "geometric_rv"))),
        ("fact_poisson_rv_draws_from_rng", rng_fact(find_def(prob, "poisson_rv"), callees={"poisson_rv": 1})),
        ("fact_discrete_time_to_coalescence_passes_rng",
         rng_fact(find_def(coal, "discrete_time_to_coalescence"), callees={"geometric_rv": 1})),
        ("fact_time_to_coalescence_draws_from_rng", rng_fact(find_def(coal, "time_to_coalescence"))),
        ("fact_weighted_index_choice_draws_from_rng", rng_fact(find_def(prob, "weighted_index_choice"))),
        ("fact_weighted_choice_passes_rng",
         rng_fact(find_def(prob, "weighted_choice"), callees={"weighted_index_choice": 1})),
        ("fact_sample_multinomial_draws_from_rng", rng_fact(find_def(prob, "sample_multinomial"))),
    ]
    bd = trees["model/birthdeath.py"]
    facts += [
        ("fact_birth_death_tree_draws_from_rng",
         rng_fact_kwargs(find_def(bd, "birth_death_tree"), callees={"weighted_choice": None})),
        ("fact_fast_birth_death_tree_draws_from_rng", rng_fact_kwargs(find_def(bd, "fast_birth_death_tree"))),
        ("fact_uniform_pure_birth_tree_draws_from_rng", rng_fact(find_def(bd, "uniform_pure_birth_tree"))),
        ("fact_coalesce_nodes_draws_from_rng",
         rng_fact(find_def(coal, "coalesce_nodes"), callees={"time_to_coalescence": None})),
        ("fact_pure_kingman_tree_passes_rng",
         rng_fact(find_def(coal, "pure_kingman_tree"), callees={"coalesce_nodes": None})),
        ("fact_contained_coalescent_tree_passes_rng",
         rng_fact(find_def(coal, "contained_coalescent_tree"), callees={"coalesce_nodes": None})),
        # the fresh-label site: taxon = taxon_namespace.new_taxon(label=label)  (not require_taxon)
        ("fact_birth_death_tree_fresh_label_new_taxon", fresh_label_site(find_def(bd, "birth_death_tree")) == "new_taxon"),
        ("fact_fast_birth_death_tree_fresh_label_new_taxon",
         fresh_label_site(find_def(bd, "fast_birth_death_tree")) == "new_taxon"),
        # contained_coalescent_tree creates the gene nodes of a species in namespace order
        ("fact_contained_gene_taxa_sorted_by_accession", gene_taxa_sorted(find_def(coal, "contained_coalescent_tree"))),
    ]
    out.append("(* rng threading: every draw is a method call on the rng argument, which is passed on;")
    out.append("   the fresh-label site and the gene order of contained_coalescent_tree, read off the AST *)")
    for name, val in facts:
        out.append("Definition %s : bool := %s." % (name, "true" if val else "false"))
    return "\n".join(out) + "\n"


if __name__ == "__main__":
    import sys
    print(generate(sys.argv[1] if len(sys.argv) > 1 else "/repo"))
