"""Translator: taxon-namespace bookkeeping of dendropy's containers -> coq/Gen/Containers.v  (property C11).

generate(repo) parses, with `ast`, the CURRENT text of
  src/dendropy/datamodel/treecollectionmodel.py   TreeList._import_tree_to_taxon_namespace, insert, append, extend,
                                                  __iadd__, __add__, __getitem__, __setitem__, new_tree, pop, remove,
                                                  reconstruct_taxon_namespace, update_taxon_namespace
  src/dendropy/datamodel/taxonmodel.py            TaxonNamespaceAssociated.migrate_taxon_namespace (one instance per
                                                  receiver class), purge_taxon_namespace (likewise)
  src/dendropy/datamodel/treemodel/_tree.py       Tree.reconstruct_taxon_namespace, update_taxon_namespace, _clone_from
  src/dendropy/datamodel/charmatrixmodel.py       CharacterMatrix.reconstruct_taxon_namespace, update_taxon_namespace,
                                                  new_sequence, __setitem__
  src/dendropy/datamodel/datasetmodel.py          DataSet.add_taxon_namespace, attach_taxon_namespace, add_tree_list,
                                                  add_char_matrix, add, unify_taxon_namespaces
and compiles every method statement by statement into Gallina over the run-time library coq/Model/C11Prims.v
(which states the Python semantics assumed for each construct) and the object stores of coq/Model/C11Model.v.

It is a compiler for a whitelisted subset, not a table of known bodies: the types of the parameters come from
SPECS (Python has none); operators, comparison directions, callee names, argument order / keywords / defaults,
which attribute or variable is updated, loop sources and statement order are read off the AST.  Anything outside
the subset raises Unsupported (py2coq then writes a stub, so every dependent proof breaks).

Shapes
  * a method denotes   py_<Class>_<name> (st : state) (<params>) : R <result>   (R A = state * res A: the state
    when the call ends, also when it ends by an exception)
  * statements thread the state (st, st1, ...); a call that can raise or change the state is bound with bindR
  * `if`: both branches are compiled with the rest of the block as their continuation (so `return` / `raise`
    inside a branch and differently typed re-assignments are exact); `X is None` on an optional value,
    `isinstance(X, TreeList)` on a TreeList-or-iterable value and `isinstance(i, slice)` become `match` and
    refine the type of X; `if X is None: X = E` becomes the binding of the defaulted value
  * `for x in xs: body` -> for_each over the element list evaluated at loop entry, with the variables assigned
    in the body and live before the loop as carried state; iterating a TreeList while the body appends to
    `self._trees` -> for_each_tree_of (non-termination when both are one object); `for node in <tree>` ->
    for_nodes (the node's taxon is the loop variable, `node.taxon = t` its new value)
  * a dict passed for `taxon_mapping_memo` is shared with the callee: the callee returns it and the caller
    re-binds its variable (functions in BYREF return the memo instead of None)
  * `raise E(...)` -> Err <class>; the arguments of the exception are not evaluated
"""
import ast
import os

OUTPUT = "Containers.v"


class Unsupported(Exception):
    pass


def bad(node, why):
    raise Unsupported("%s at line %s: %s" % (why, getattr(node, "lineno", "?"), ast.dump(node)[:200]))


FILES = {
    "tc": "src/dendropy/datamodel/treecollectionmodel.py",
    "tm": "src/dendropy/datamodel/taxonmodel.py",
    "tr": "src/dendropy/datamodel/treemodel/_tree.py",
    "cm": "src/dendropy/datamodel/charmatrixmodel.py",
    "ds": "src/dendropy/datamodel/datasetmodel.py",
}

# sorts -> Coq types
COQ_TY = {
    "ns": "oid", "taxon": "oid", "tree": "oid", "tlist": "oid", "mat": "oid", "ds": "oid",
    "bool": "bool", "str": "string", "int": "Z", "label": "lbl",
    "memo": "(list (oid * oid))", "optmemo": "(option (list (oid * oid)))", "optns": "(option oid)",
    "opttaxon": "(option oid)",
    "kwunify": "(option bool)", "kwns": "(option oid)", "kwtree": "(option oid * list oid)%type",
    "src": "src", "trees": "(list oid)", "taxa": "(list oid)", "nss": "(list oid)", "tlists": "(list oid)",
    "mats": "(list oid)", "rows": "(list oid)",
    "index": "pyindex", "slice": "(option Z * option Z)%type", "rowkey": "rowkey", "dsobj": "dsobj",
    "dmemo": "dmemo", "unit": "unit", "fresh": "unit", "values": "unit",
}
OPTION_OF = {"optmemo": "memo", "optns": "ns", "opttaxon": "taxon", "kwns": "ns"}
HANDLES = ("ns", "taxon", "tree", "tlist", "mat", "ds")

EXC = {"ValueError": "ValueErr", "TypeError": "TypeErr", "KeyError": "KeyErr", "IndexError": "IndexErr",
       "TaxonNamespaceReconstructionError": "ORECON",      # error.TaxonNamespaceReconstructionError(ValueError)
       "InvalidArgumentValueError": "ValueErr"}            # error.InvalidArgumentValueError(ValueError)

# name of the generated function -> where it comes from and the types of its parameters
#   self: sort of the receiver; params: {python parameter: sort}; ret: sort of the result
#   byref: the parameter holding a dict that is shared with the caller (returned instead of None)
SPECS = [
    dict(name="Tree_reconstruct_taxon_namespace", file="tr", cls="Tree", fn="reconstruct_taxon_namespace", self="tree",
         params={"unify_taxa_by_label": "bool", "taxon_mapping_memo": "optmemo"}, ret="memo", byref="taxon_mapping_memo"),
    dict(name="Tree_update_taxon_namespace", file="tr", cls="Tree", fn="update_taxon_namespace", self="tree",
         params={}, ret="ns"),
    dict(name="Tree__clone_from", file="tr", cls="Tree", fn="_clone_from", self="fresh",
         params={"tree": "tree", "kwargs_dict": "kwns"}, ret="tree", locals={"memo": "dmemo"}),
    dict(name="Tree_migrate_taxon_namespace", file="tm", cls="TaxonNamespaceAssociated", fn="migrate_taxon_namespace",
         self="tree", params={"taxon_namespace": "optns", "unify_taxa_by_label": "bool", "taxon_mapping_memo": "optmemo"},
         ret="memo", byref="taxon_mapping_memo"),
    dict(name="TreeList_reconstruct_taxon_namespace", file="tc", cls="TreeList", fn="reconstruct_taxon_namespace",
         self="tlist", params={"unify_taxa_by_label": "bool", "taxon_mapping_memo": "optmemo"}, ret="memo",
         byref="taxon_mapping_memo"),
    dict(name="TreeList_update_taxon_namespace", file="tc", cls="TreeList", fn="update_taxon_namespace", self="tlist",
         params={}, ret="unit"),
    dict(name="TreeList_migrate_taxon_namespace", file="tm", cls="TaxonNamespaceAssociated", fn="migrate_taxon_namespace",
         self="tlist", params={"taxon_namespace": "optns", "unify_taxa_by_label": "bool", "taxon_mapping_memo": "optmemo"},
         ret="memo", byref="taxon_mapping_memo"),
    dict(name="TreeList__import_tree_to_taxon_namespace", file="tc", cls="TreeList", fn="_import_tree_to_taxon_namespace",
         self="tlist", params={"tree": "tree", "taxon_import_strategy": "str", "kwargs": "kwunify"}, ret="tree"),
    dict(name="TreeList_insert", file="tc", cls="TreeList", fn="insert", self="tlist",
         params={"index": "int", "tree": "tree", "taxon_import_strategy": "str", "kwargs": "kwunify"}, ret="unit"),
    dict(name="TreeList_append", file="tc", cls="TreeList", fn="append", self="tlist",
         params={"tree": "tree", "taxon_import_strategy": "str", "kwargs": "kwunify"}, ret="unit"),
    dict(name="TreeList_extend", file="tc", cls="TreeList", fn="extend", self="tlist",
         params={"other": "src"}, ret="tlist"),
    dict(name="TreeList___iadd__", file="tc", cls="TreeList", fn="__iadd__", self="tlist",
         params={"other": "src"}, ret="tlist"),
    dict(name="TreeList___add__", file="tc", cls="TreeList", fn="__add__", self="tlist",
         params={"other": "src"}, ret="tlist"),
    dict(name="TreeList___getitem__", file="tc", cls="TreeList", fn="__getitem__", self="tlist",
         params={"index": "index"}, ret="tree_or_tlist"),
    dict(name="TreeList___setitem__", file="tc", cls="TreeList", fn="__setitem__", self="tlist",
         params={"index": "index", "value": "tree_or_src"}, ret="unit"),
    dict(name="TreeList_new_tree", file="tc", cls="TreeList", fn="new_tree", self="tlist",
         params={"args": "noargs", "kwargs": "kwtree"}, ret="tree"),
    dict(name="TreeList_pop", file="tc", cls="TreeList", fn="pop", self="tlist", params={"index": "int"}, ret="tree"),
    dict(name="TreeList_remove", file="tc", cls="TreeList", fn="remove", self="tlist", params={"tree": "tree"}, ret="unit"),
    dict(name="CharacterMatrix_reconstruct_taxon_namespace", file="cm", cls="CharacterMatrix",
         fn="reconstruct_taxon_namespace", self="mat",
         params={"unify_taxa_by_label": "bool", "taxon_mapping_memo": "optmemo"}, ret="memo", byref="taxon_mapping_memo"),
    dict(name="CharacterMatrix_update_taxon_namespace", file="cm", cls="CharacterMatrix", fn="update_taxon_namespace",
         self="mat", params={}, ret="unit"),
    dict(name="CharacterMatrix_migrate_taxon_namespace", file="tm", cls="TaxonNamespaceAssociated",
         fn="migrate_taxon_namespace", self="mat",
         params={"taxon_namespace": "optns", "unify_taxa_by_label": "bool", "taxon_mapping_memo": "optmemo"},
         ret="memo", byref="taxon_mapping_memo"),
    dict(name="CharacterMatrix__resolve_key", file="cm", cls="CharacterMatrix", fn="_resolve_key", self="mat",
         params={"key": "rowkey"}, ret="taxon"),
    dict(name="CharacterMatrix_new_sequence", file="cm", cls="CharacterMatrix", fn="new_sequence", self="mat",
         params={"taxon": "taxon", "values": "values"}, ret="values"),
    dict(name="CharacterMatrix___setitem__", file="cm", cls="CharacterMatrix", fn="__setitem__", self="mat",
         params={"key": "rowkey", "values": "values"}, ret="unit"),
    dict(name="Tree_purge_taxon_namespace", file="tm", cls="TaxonNamespaceAssociated", fn="purge_taxon_namespace",
         self="tree", params={}, ret="unit"),
    dict(name="TreeList_purge_taxon_namespace", file="tm", cls="TaxonNamespaceAssociated", fn="purge_taxon_namespace",
         self="tlist", params={}, ret="unit"),
    dict(name="CharacterMatrix_purge_taxon_namespace", file="tm", cls="TaxonNamespaceAssociated",
         fn="purge_taxon_namespace", self="mat", params={}, ret="unit"),
    dict(name="DataSet_add_taxon_namespace", file="ds", cls="DataSet", fn="add_taxon_namespace", self="ds",
         params={"taxon_namespace": "ns"}, ret="ns"),
    dict(name="DataSet_new_taxon_namespace", file="ds", cls="DataSet", fn="new_taxon_namespace", self="ds",
         params={"args": "noargs", "kwargs": "nokw"}, ret="ns"),
    dict(name="DataSet_attach_taxon_namespace", file="ds", cls="DataSet", fn="attach_taxon_namespace", self="ds",
         params={"taxon_namespace": "optns"}, ret="optns"),
    dict(name="DataSet_add_tree_list", file="ds", cls="DataSet", fn="add_tree_list", self="ds",
         params={"tree_list": "tlist"}, ret="tlist"),
    dict(name="DataSet_add_char_matrix", file="ds", cls="DataSet", fn="add_char_matrix", self="ds",
         params={"char_matrix": "mat"}, ret="mat"),
    dict(name="DataSet_add", file="ds", cls="DataSet", fn="add", self="ds",
         params={"data_object": "dsobj", "kwargs": "nokw"}, ret="unit"),
    dict(name="DataSet_unify_taxon_namespaces", file="ds", cls="DataSet", fn="unify_taxon_namespaces", self="ds",
         params={"taxon_namespace": "optns", "case_sensitive_label_mapping": "bool", "attach_taxon_namespace": "bool"},
         ret="unit"),
]
SPEC_BY_NAME = dict((s["name"], s) for s in SPECS)
CLASS_OF_SORT = {"tree": "Tree", "tlist": "TreeList", "mat": "CharacterMatrix", "ds": "DataSet"}

# attribute reads: (sort of the object, attribute) -> (term over {x} and {st}, sort)
ATTR = {
    ("tree", "taxon_namespace"): ("(t_ns (gettree {st} {x}))", "ns"),
    ("tree", "_taxon_namespace"): ("(t_ns (gettree {st} {x}))", "ns"),
    ("tlist", "taxon_namespace"): ("(l_ns (getlist {st} {x}))", "ns"),
    ("tlist", "_taxon_namespace"): ("(l_ns (getlist {st} {x}))", "ns"),
    ("tlist", "_trees"): ("(l_trees (getlist {st} {x}))", "trees"),
    ("mat", "taxon_namespace"): ("(m_ns (getmat {st} {x}))", "ns"),
    ("mat", "_taxon_namespace"): ("(m_ns (getmat {st} {x}))", "ns"),
    ("mat", "_taxon_sequence_map"): ("(m_rows (getmat {st} {x}))", "rows"),
    ("ds", "attached_taxon_namespace"): ("(d_att (getds {st} {x}))", "optns"),
    ("ds", "taxon_namespaces"): ("(d_nss (getds {st} {x}))", "nss"),
    ("ds", "tree_lists"): ("(d_lists (getds {st} {x}))", "tlists"),
    ("ds", "char_matrices"): ("(d_mats (getds {st} {x}))", "mats"),
    ("taxon", "label"): ("(label {st} {x})", "label"),
    ("tlist", "tree_type"): ("tt", "callable"),       # instance attribute set by __init__ (DEFAULT_TREE_TYPE)
}
# attribute writes: (sort, attribute) -> state transformer over {x} {v} {st}; value sort
ATTR_SET = {
    ("tree", "_taxon_namespace"): ("(set_tree_ns {st} {x} {v})", "ns"),
    ("tlist", "_taxon_namespace"): ("(set_list_ns {st} {x} {v})", "ns"),
    ("mat", "_taxon_namespace"): ("(set_mat_ns {st} {x} {v})", "ns"),
    ("ds", "attached_taxon_namespace"): ("(set_ds_att {st} {x} {v})", "optns"),
}
UNMODELLED_ATTRS = {"label"}           # assignments to these fields are skipped (recorded in the output)
ELEM_OF = {"trees": "tree", "taxa": "taxon", "nss": "ns", "tlists": "tlist", "mats": "mat", "rows": "taxon"}


def V(name):
    return "v_" + name


class Env(object):
    def __init__(self, gen, spec):
        self.gen = gen
        self.spec = spec
        self.vars = {}          # python name -> (coq term, sort)
        self.st = "st"
        self.node = None        # (python loop variable of a for_nodes loop, coq var of its current taxon)
        self.loop = None        # continuation kind inside a loop body
        self.count = gen.counter

    def copy(self):
        e = Env(self.gen, self.spec)
        e.vars = dict(self.vars)
        e.st = self.st
        e.node = self.node
        e.loop = self.loop
        return e

    def fresh(self, base):
        self.count[0] += 1
        return "%s%d" % (base, self.count[0])

    def bind(self, pyname, sort):
        c = self.fresh(V(pyname) + "_")
        self.vars[pyname] = (c, sort)
        return c

    def new_state(self):
        self.st = self.fresh("st")
        return self.st


class Method(object):
    def __init__(self, gen, spec, fn):
        self.gen, self.spec, self.fn = gen, spec, fn
        a = fn.args
        if a.kwonlyargs or getattr(a, "posonlyargs", None):
            bad(fn, "parameter kinds")
        names = [x.arg for x in a.args]
        if not names or names[0] != "self":
            bad(fn, "first parameter is not self")
        names = names[1:]
        defaults = [None] * (len(names) - len(a.defaults)) + list(a.defaults)
        self.params = list(zip(names, defaults))
        if a.vararg:
            self.params.append((a.vararg.arg, None))
        self.kwarg = a.kwarg.arg if a.kwarg else None
        if self.kwarg:
            self.params.append((self.kwarg, None))
        for n, _d in self.params:
            if n not in spec["params"]:
                bad(fn, "no type given for parameter %r of %s" % (n, spec["name"]))
        for n in spec["params"]:
            if n not in [p for p, _ in self.params]:
                bad(fn, "%s has no parameter %r any more" % (spec["name"], n))

    def coq_params(self):
        out = []
        for n, _d in self.params:
            s = self.spec["params"][n]
            if s in ("noargs", "nokw"):
                continue
            out.append((n, s))
        return out

    def default_of(self, pname):
        for n, d in self.params:
            if n == pname:
                return d
        return None


class Gen(object):
    def __init__(self, repo):
        self.repo = repo
        self.counter = [0]
        self.trees = {}
        for k, rel in FILES.items():
            with open(os.path.join(repo, rel)) as f:
                self.trees[k] = ast.parse(f.read())
        self.methods = {}
        for spec in SPECS:
            self.methods[spec["name"]] = Method(self, spec, self.find(spec["file"], spec["cls"], spec["fn"]))
        self.notes = []

    def find(self, key, cls, fn):
        for node in self.trees[key].body:
            if isinstance(node, ast.ClassDef) and node.name == cls:
                hits = [x for x in node.body if isinstance(x, ast.FunctionDef) and x.name == fn]
                if len(hits) != 1:
                    raise Unsupported("%s.%s: %d definitions" % (cls, fn, len(hits)))
                return hits[0]
        raise Unsupported("class %s not found in %s" % (cls, FILES[key]))

    # ------------------------------------------------------------------------------------------
    # expressions (pure; may read the current state)
    # ------------------------------------------------------------------------------------------
    def expr(self, node, env):
        if isinstance(node, ast.Name):
            if node.id == "self":
                if "self" in env.vars:
                    return env.vars["self"]
                return ("self", env.spec["self"])
            if node.id in env.vars:
                return env.vars[node.id]
            bad(node, "unknown variable")
        if isinstance(node, ast.Constant):
            v = node.value
            if v is None:
                return ("None", "none")
            if v is True or v is False:
                return ("true" if v else "false", "bool")
            if isinstance(v, str):
                return ('"%s"%%string' % v, "str")
            if isinstance(v, int):
                return ("(%d)%%Z" % v, "int")
            bad(node, "constant")
        if isinstance(node, ast.Attribute):
            if env.node and isinstance(node.value, ast.Name) and node.value.id == env.node[0] and node.attr == "taxon":
                return (env.node[1], "taxon")
            x, s = self.expr(node.value, env)
            if (s, node.attr) in ATTR:
                t, rs = ATTR[(s, node.attr)]
                return (t.format(x=x, st=env.st), rs)
            bad(node, "attribute %s of a %s" % (node.attr, s))
        if isinstance(node, ast.UnaryOp) and isinstance(node.op, ast.Not):
            return ("(negb %s)" % self.cond(node.operand, env), "bool")
        if isinstance(node, (ast.BoolOp, ast.Compare)):
            return (self.cond(node, env), "bool")
        if isinstance(node, ast.Call):
            return self.pure_call(node, env)
        if isinstance(node, ast.Subscript):
            x, s = self.expr(node.value, env)
            bad(node, "subscript read of a %s" % s)
        if isinstance(node, ast.ListComp):
            return self.listcomp(node, env)
        if isinstance(node, ast.List) and not node.elts:
            return ("[]", "trees")
        if isinstance(node, ast.Dict) and not node.keys:
            return ("[]", "memo")
        bad(node, "expression")

    def listcomp(self, node, env):
        if len(node.generators) != 1:
            bad(node, "comprehension")
        g = node.generators[0]
        if g.is_async or len(g.ifs) != 1 or not isinstance(g.target, ast.Name):
            bad(node, "comprehension shape")
        if not (isinstance(node.elt, ast.Name) and node.elt.id == g.target.id):
            bad(node, "comprehension element")
        xs, es = self.iter_list(g.iter, env)
        e2 = env.copy()
        c = e2.bind(g.target.id, es)
        return ("(filter (fun %s => %s) %s)" % (c, self.cond(g.ifs[0], e2), xs), {"taxon": "taxa"}.get(es, "trees"))

    def iter_list(self, node, env):
        """element list (evaluated now) and element sort of something iterated"""
        x, s = self.expr(node, env)
        if s == "ns":
            return ("(members %s %s)" % (env.st, x), "taxon")
        if s in ELEM_OF:
            return (x, ELEM_OF[s])
        bad(node, "iteration over a %s" % s)

    def truth(self, node, env):
        """truth value of an expression used as a condition"""
        if isinstance(node, ast.Call) and isinstance(node.func, ast.Name) and node.func.id == "isinstance":
            return self.cond(node, env)
        if isinstance(node, ast.Call) and isinstance(node.func, ast.Name) and node.func.id == "len" and len(node.args) == 1:
            x, s = self.expr(node.args[0], env)
            if s not in ELEM_OF:
                bad(node, "len of a %s" % s)
            return "(negb (Nat.eqb (List.length %s) 0))" % x
        x, s = self.expr(node, env)
        if s != "bool":
            bad(node, "truth value of a %s" % s)
        return x

    def cond(self, node, env):
        if isinstance(node, ast.BoolOp):
            op = "andb" if isinstance(node.op, ast.And) else "orb"
            parts = [self.truth(v, env) for v in node.values]
            t = parts[-1]
            for p in reversed(parts[:-1]):
                t = "(%s %s %s)" % (op, p, t)
            return t
        if isinstance(node, ast.UnaryOp) and isinstance(node.op, ast.Not):
            return "(negb %s)" % self.truth(node.operand, env)
        if isinstance(node, ast.Compare):
            if len(node.ops) != 1:
                bad(node, "chained comparison")
            op, l, r = node.ops[0], node.left, node.comparators[0]
            # type(x) == type(True): is x a bool?  never, for a namespace-typed argument
            if isinstance(l, ast.Call) and isinstance(l.func, ast.Name) and l.func.id == "type" \
                    and isinstance(r, ast.Call) and isinstance(r.func, ast.Name) and r.func.id == "type" \
                    and isinstance(op, ast.Eq):
                lx, ls = self.expr(l.args[0], env)
                rx, rs = self.expr(r.args[0], env)
                if ls in HANDLES and rs == "bool":
                    return "false"
                bad(node, "type comparison")
            lx, ls = self.expr(l, env)
            rx, rs = self.expr(r, env)
            if isinstance(op, (ast.Is, ast.IsNot)):
                neg = isinstance(op, ast.IsNot)
                if rs == "none":
                    if ls in OPTION_OF:
                        t = "(match %s with None => true | Some _ => false end)" % lx
                    elif ls in HANDLES or ls == "callable":
                        t = "false"          # an object of that type is never None
                    else:
                        bad(node, "is None on a %s" % ls)
                elif ls == rs and ls in HANDLES:
                    t = "(Nat.eqb %s %s)" % (lx, rx)
                elif ls == "optns" and rs == "ns":
                    t = "(match %s with Some a_ => Nat.eqb a_ %s | None => false end)" % (lx, rx)
                elif ls == "ns" and rs == "optns":
                    t = "(match %s with Some a_ => Nat.eqb %s a_ | None => false end)" % (rx, lx)
                else:
                    bad(node, "identity of a %s and a %s" % (ls, rs))
                return "(negb %s)" % t if neg else t
            if isinstance(op, (ast.Eq, ast.NotEq)):
                if ls == rs == "str":
                    t = "(String.eqb %s %s)" % (lx, rx)
                else:
                    bad(node, "== on %s / %s" % (ls, rs))
                return "(negb %s)" % t if isinstance(op, ast.NotEq) else t
            if isinstance(op, ast.Lt) and ls == rs == "int":
                return "(Z.ltb %s %s)" % (lx, rx)
            if isinstance(op, (ast.In, ast.NotIn)):
                if ls == "taxon" and rs == "ns":
                    t = "(memb %s (members %s %s))" % (lx, env.st, rx)
                elif (ls, rs) in (("taxon", "rows"), ("taxon", "taxa"), ("ns", "nss")):
                    t = "(memb %s %s)" % (lx, rx)
                else:
                    bad(node, "membership of a %s in a %s" % (ls, rs))
                return "(negb %s)" % t if isinstance(op, ast.NotIn) else t
            bad(node, "comparison operator")
        if isinstance(node, ast.Call) and isinstance(node.func, ast.Name) and node.func.id == "isinstance" and len(node.args) == 2:
            x, xs = self.expr(node.args[0], env)
            c = node.args[1]
            if xs == "values" and isinstance(c, ast.Attribute) and c.attr == "character_sequence_type":
                return "false"        # the values handed in are plain iterables, not yet a CharacterDataSequence
        return self.truth(node, env)

    def pure_call(self, node, env):
        f = node.func
        if isinstance(f, ast.Attribute) and f.attr == "get" and len(node.args) == 2:
            d, ds = self.expr(f.value, env)
            k, ks = self.expr(node.args[0], env)
            dflt, dsort = self.expr(node.args[1], env)
            if ds == "memo" and ks == "taxon" and dsort == "none":
                return ("(memo_get %s %s)" % (d, k), "opttaxon")
            bad(node, "get on a %s" % ds)
        if isinstance(f, ast.Name) and f.id == "list" and len(node.args) == 1:
            a = node.args[0]
            if isinstance(a, ast.Call) and isinstance(a.func, ast.Attribute) and a.func.attr == "keys" and not a.args:
                x, s = self.expr(a.func.value, env)
                if s == "rows":
                    return (x, "rows")
            bad(node, "list(...)")
        if isinstance(f, ast.Attribute) and f.attr == "process_kwargs_dict_for_taxon_namespace" and len(node.args) == 2:
            kw, ks = self.expr(node.args[0], env)
            d, dsort = self.expr(node.args[1], env)
            if ks == "kwns" and dsort == "ns":
                return ("(kw_pop_ns %s %s)" % (kw, d), "ns")
            if ks == "kwtree" and dsort == "ns":
                return ("(kw_pop_ns (fst %s) %s)" % (kw, d), "ns")
            bad(node, "process_kwargs_dict_for_taxon_namespace on %s" % ks)
        if isinstance(f, ast.Attribute) and f.attr == "poll_taxa" and not node.args:
            x, s = self.expr(f.value, env)
            # poll_taxa(): the set of the taxa on the nodes / of the sequences (primitive)
            if s == "tree":
                return ("(t_refs (gettree %s %s))" % (env.st, x), "taxa")
            if s == "tlist":
                return ("(poll_list %s %s)" % (env.st, x), "taxa")
            if s == "mat":
                return ("(m_rows (getmat %s %s))" % (env.st, x), "taxa")
        if isinstance(f, ast.Attribute) and f.attr == "character_sequence_type" and len(node.args) == 1:
            x, xs = self.expr(node.args[0], env)
            if xs == "values":
                return ("tt", "values")          # a CharacterDataSequence built from the values: cells are not modelled
        if isinstance(f, ast.Name) and f.id == "abs" and len(node.args) == 1:
            x, xs = self.expr(node.args[0], env)
            if xs == "int":
                return ("(Z.abs %s)" % x, "int")
        if isinstance(f, ast.Name) and f.id == "len" and len(node.args) == 1:
            x, xs = self.expr(node.args[0], env)
            if xs == "ns":
                return ("(Z.of_nat (List.length (members %s %s)))" % (env.st, x), "int")
        if isinstance(f, ast.Attribute) and f.attr == "get_taxon" and not node.args and [kw.arg for kw in node.keywords] == ["label"]:
            n, ns = self.expr(f.value, env)
            l, ls = self.expr(node.keywords[0].value, env)
            if ns == "ns" and ls == "label":
                return ("(ns_get_taxon lower %s %s %s)" % (env.st, n, l), "opttaxon")
        if isinstance(f, ast.Name) and f.id == "id" and len(node.args) == 1:
            x, s = self.expr(node.args[0], env)
            return (x, "id:" + s)
        bad(node, "call in an expression")

    # ------------------------------------------------------------------------------------------
    # calls with effects
    # ------------------------------------------------------------------------------------------
    def match_args(self, node, callee, env, self_term):
        """terms of the callee's parameters in its own order (defaults from the callee's AST)"""
        spec = callee.spec
        given = {}
        pos = [n for n, _ in callee.params if spec["params"][n] not in ("noargs", "nokw")
               and n != callee.kwarg]
        if len(node.args) > len(pos):
            bad(node, "too many positional arguments")
        for n, a in zip(pos, node.args):
            given[n] = a
        starkw = None
        for kw in node.keywords:
            if kw.arg is None:
                starkw = kw.value
            else:
                if kw.arg in given:
                    bad(node, "argument given twice")
                given[kw.arg] = kw.value
        out = []
        byref_var = None
        for n, s in callee.coq_params():
            if n in given:
                x, xs = self.expr(given[n], env)
                x = self.coerce(x, xs, s, given[n])
                if spec.get("byref") == n and isinstance(given[n], ast.Name) and xs in ("memo", "optmemo"):
                    # the callee works on the caller's dict (or, given None, on one of its own that nobody
                    # else sees): afterwards the variable stands for the dict the callee ended with
                    byref_var = given[n].id
                out.append(x)
                continue
            if n == callee.kwarg:
                if starkw is not None:
                    x, xs = self.expr(starkw, env)
                    if xs != s:
                        bad(node, "**%s into %s" % (xs, s))
                    out.append(x)
                else:
                    out.append("None")
                continue
            d = callee.default_of(n)
            if starkw is not None:
                kx, ks = self.expr(starkw, env)
                if ks == "kwunify" and n == "unify_taxa_by_label" and s == "bool":
                    if d is None:
                        bad(node, "no default for %s" % n)
                    dx, _ = self.expr(d, env)
                    out.append("(kw_default %s %s)" % (kx, dx))
                    continue
            if d is None:
                bad(node, "argument %s of %s missing" % (n, spec["name"]))
            dx, dsort = self.expr(d, env)
            out.append(self.coerce(dx, dsort, s, d))
        return out, byref_var

    def coerce(self, x, xs, s, node):
        if xs == s:
            return x
        if s in OPTION_OF and OPTION_OF[s] == xs:
            return "(Some %s)" % x
        if s in OPTION_OF and xs == "none":
            return "None"
        if s == "src" and xs == "tlist":
            return "(SrcList %s)" % x
        if s == "src" and xs == "trees":
            return "(SrcTrees %s)" % x
        if s == "kwunify" and xs == "none":
            return "None"
        bad(node, "a %s where a %s is expected" % (xs, s))

    def receiver_method(self, f, env):
        """translated method called as obj.name(...) -> (Method, term of obj)"""
        if not isinstance(f, ast.Attribute):
            return None
        x, s = self.expr(f.value, env) if not (isinstance(f.value, ast.Name) and f.value.id == "self") \
            else ("self", env.spec["self"])
        cls = CLASS_OF_SORT.get(s)
        if cls is None:
            return None
        name = "%s_%s" % (cls, f.attr)
        if name in self.methods:
            return self.methods[name], x
        return None

    def call(self, node, env, k):
        """compile an effectful call; k(env, result term, result sort) builds the rest"""
        f = node.func
        # constructors
        if isinstance(f, ast.Attribute) and f.attr == "TaxonNamespace" and isinstance(f.value, ast.Name) and f.value.id == "taxonmodel":
            f = ast.Name(id="TaxonNamespace")
        if isinstance(f, ast.Name) and f.id == "TaxonNamespace" and self.no_arguments(node, env):
            st0 = env.st
            st1 = env.new_state()
            r = env.fresh("r_")
            return "bindR (new_namespace %s) (fun %s %s =>\n%s)" % (st0, st1, r, k(env, r, "ns"))
        if isinstance(f, ast.Name) and f.id == "TreeList":
            kws = dict((kw.arg, kw.value) for kw in node.keywords)
            if set(kws) != {"taxon_namespace"} or len(node.args) > 1:
                bad(node, "TreeList(...) arguments")
            n, ns = self.expr(kws["taxon_namespace"], env)
            if ns != "ns":
                bad(node, "TreeList(taxon_namespace=%s)" % ns)
            st0 = env.st
            st1 = env.new_state()
            r = env.fresh("r_")
            if not node.args:
                return "bindR (new_treelist %s %s) (fun %s %s =>\n%s)" % (st0, n, st1, r, k(env, r, "tlist"))
            xs, s = self.expr(node.args[0], env)
            if s != "trees":
                bad(node, "TreeList(<%s>)" % s)
            # TreeList.__init__ with an iterable: `for a in args[0]: self.append(a)` (the isinstance check on
            # each element cannot fail for a list of trees)
            st2 = env.new_state()
            u = env.fresh("u_")
            return ("bindR (new_treelist %s %s) (fun %s %s =>\nbindR (for_each %s (fun st_ a_ c_ => py_TreeList_append st_ %s a_ %s None) %s tt) (fun %s %s =>\n%s))"
                    % (st0, n, st1, r, xs, r, self.default_term("TreeList_append", "taxon_import_strategy", env), st1, st2, u,
                       k(env, r, "tlist")))
        if isinstance(f, ast.Attribute) and f.attr == "tree_type" and isinstance(f.value, ast.Name) and f.value.id == "self":
            return self.tree_ctor(node, env, k)
        if isinstance(f, ast.Attribute) and f.attr == "tree_factory" and isinstance(f.value, ast.Name) and f.value.id == "self":
            return self.tree_ctor(node, env, k)
        if isinstance(f, ast.Attribute) and f.attr == "deepcopy" and len(node.args) == 2:
            t, ts = self.expr(node.args[0], env)
            m, ms = self.expr(node.args[1], env)
            if ts == "tree" and ms == "dmemo":
                st0 = env.st
                st1 = env.new_state()
                r = env.fresh("r_")
                return "bindR (deepcopy_tree %s %s %s) (fun %s %s =>\n%s)" % (st0, t, m, st1, r, k(env, r, "tree"))
            bad(node, "deepcopy of a %s under a %s" % (ts, ms))
        # namespace methods
        if isinstance(f, ast.Attribute) and f.attr in ("require_taxon", "new_taxon", "add_taxon", "remove_taxon"):
            n, ns = self.expr(f.value, env)
            if ns == "ns":
                args = list(node.args)
                kws = dict((kw.arg, kw.value) for kw in node.keywords)
                if f.attr in ("require_taxon", "new_taxon"):
                    if args or set(kws) != {"label"}:
                        bad(node, "%s arguments" % f.attr)
                    l, ls = self.expr(kws["label"], env)
                    if ls != "label":
                        bad(node, "label argument is a %s" % ls)
                    st0 = env.st
                    st1 = env.new_state()
                    r = env.fresh("r_")
                    prim = "ns_require_taxon lower" if f.attr == "require_taxon" else "ns_new_taxon"
                    return "bindR (%s %s %s %s) (fun %s %s =>\n%s)" % (prim, st0, n, l, st1, r, k(env, r, "taxon"))
                if len(args) != 1 or kws:
                    bad(node, "%s arguments" % f.attr)
                x, xs = self.expr(args[0], env)
                if xs != "taxon":
                    bad(node, "%s of a %s" % (f.attr, xs))
                st0 = env.st
                st1 = env.new_state()
                if f.attr == "add_taxon":
                    return "let %s := ns_add_taxon %s %s %s in\n%s" % (st1, st0, n, x, k(env, "tt", "unit"))
                u = env.fresh("u_")
                return "bindR (ns_remove_taxon %s %s %s) (fun %s %s =>\n%s)" % (st0, n, x, st1, u, k(env, "tt", "unit"))
        # OrderedSet / list methods on attributes of self
        if isinstance(f, ast.Attribute) and isinstance(f.value, ast.Attribute):
            owner, osort = self.expr(f.value.value, env) if not (isinstance(f.value.value, ast.Name) and f.value.value.id == "self") \
                else ("self", env.spec["self"])
            fld = f.value.attr
            cur, cs = self.expr(f.value, env)
            setter = {("tlist", "_trees"): "set_list_trees", ("ds", "taxon_namespaces"): "set_ds_nss",
                      ("ds", "tree_lists"): "set_ds_lists", ("ds", "char_matrices"): "set_ds_mats"}.get((osort, fld))
            if setter:
                args = [self.expr(a, env) for a in node.args]
                if node.keywords:
                    bad(node, "keywords")
                st0 = env.st
                if f.attr == "append" and cs == "trees" and [s for _, s in args] == ["tree"]:
                    st1 = env.new_state()
                    return "let %s := %s %s %s (%s ++ [%s]) in\n%s" % (st1, setter, st0, owner, cur, args[0][0], k(env, "tt", "unit"))
                if f.attr == "insert" and cs == "trees" and [s for _, s in args] == ["int", "tree"]:
                    st1 = env.new_state()
                    return "let %s := %s %s %s (py_list_insert %s %s %s) in\n%s" % (st1, setter, st0, owner, cur, args[0][0], args[1][0], k(env, "tt", "unit"))
                if f.attr == "add" and cs in ("nss", "tlists", "mats") and [s for _, s in args] == [ELEM_OF[cs]]:
                    st1 = env.new_state()
                    return "let %s := %s %s %s (oset_add %s %s) in\n%s" % (st1, setter, st0, owner, args[0][0], cur, k(env, "tt", "unit"))
                if f.attr == "clear" and not args:
                    st1 = env.new_state()
                    return "let %s := %s %s %s [] in\n%s" % (st1, setter, st0, owner, k(env, "tt", "unit"))
                if f.attr == "pop" and cs == "trees" and [s for _, s in args] == ["int"]:
                    st1 = env.new_state()
                    r = env.fresh("r_")
                    rest = env.fresh("l_")
                    return ("match py_list_pop %s %s with\n| Ok (%s, %s) => let %s := %s %s %s %s in\n%s\n| Err e_ => (%s, Err e_)\n| OutOfFuel => (%s, OutOfFuel)\nend"
                            % (cur, args[0][0], r, rest, st1, setter, st0, owner, rest, k(env, r, "tree"), st0, st0))
                if f.attr == "remove" and cs == "trees" and [s for _, s in args] == ["tree"]:
                    st1 = env.new_state()
                    rest = env.fresh("l_")
                    return ("match py_list_remove %s %s with\n| Ok %s => let %s := %s %s %s %s in\n%s\n| Err e_ => (%s, Err e_)\n| OutOfFuel => (%s, OutOfFuel)\nend"
                            % (cur, args[0][0], rest, st1, setter, st0, owner, rest, k(env, "tt", "unit"), st0, st0))
                bad(node, "method %s on %s" % (f.attr, fld))
        # local python list: tt.append(x)
        if isinstance(f, ast.Attribute) and f.attr == "append" and isinstance(f.value, ast.Name) and f.value.id in env.vars \
                and env.vars[f.value.id][1] == "trees" and len(node.args) == 1:
            cur, _ = env.vars[f.value.id]
            x, xs = self.expr(node.args[0], env)
            if xs != "tree":
                bad(node, "append of a %s" % xs)
            c = env.bind(f.value.id, "trees")
            return "let %s := %s ++ [%s] in\n%s" % (c, cur, x, k(env, "tt", "unit"))
        # translated methods
        rm = self.receiver_method(f, env)
        if rm is not None:
            callee, recv = rm
            args, byref_var = self.match_args(node, callee, env, recv)
            st0 = env.st
            st1 = env.new_state()
            r = env.fresh("r_")
            rs = callee.spec["ret"]
            if byref_var is not None:
                env.vars[byref_var] = (r, "memo")
            if callee.spec.get("byref"):
                res_term, res_sort = "tt", "unit"          # the Python call returns None
            else:
                res_term, res_sort = r, rs
            return "bindR (py_%s %s %s%s) (fun %s %s =>\n%s)" % (
                callee.spec["name"], st0, recv, "".join(" " + a for a in args), st1, r, k(env, res_term, res_sort))
        bad(node, "call")

    def no_arguments(self, node, env):
        for a in node.args:
            if not (isinstance(a, ast.Starred) and isinstance(a.value, ast.Name) and env.vars.get(a.value.id, (0, 0))[1] == "noargs"):
                return False
        for kw in node.keywords:
            if not (kw.arg is None and isinstance(kw.value, ast.Name) and env.vars.get(kw.value.id, (0, 0))[1] == "nokw"):
                return False
        return True

    def default_term(self, mname, pname, env):
        d = self.methods[mname].default_of(pname)
        if d is None:
            raise Unsupported("%s has no default for %s" % (mname, pname))
        return self.expr(d, env)[0]

    def tree_ctor(self, node, env, k):
        """self.tree_type(...) / self.tree_factory(...): the Tree constructor.
        Tree(<Tree>, taxon_namespace=n) is Tree._clone_from(<Tree>, {taxon_namespace: n});
        Tree(*args, **kwargs) with no positional argument and a seed_node keyword builds the tree around the
        seed node and ends with update_taxon_namespace (primitive new_tree_from_seed)."""
        kws = dict((kw.arg, kw.value) for kw in node.keywords)
        st0 = env.st
        if len(node.args) == 1 and not isinstance(node.args[0], ast.Starred) and set(kws) == {"taxon_namespace"}:
            t, ts = self.expr(node.args[0], env)
            n, ns = self.expr(kws["taxon_namespace"], env)
            if ts != "tree" or ns != "ns":
                bad(node, "Tree(%s, taxon_namespace=%s)" % (ts, ns))
            st1 = env.new_state()
            r = env.fresh("r_")
            return "bindR (py_Tree__clone_from %s tt %s (Some %s)) (fun %s %s =>\n%s)" % (st0, t, n, st1, r, k(env, r, "tree"))
        if len(node.args) == 1 and isinstance(node.args[0], ast.Starred) and list(kws) == [None]:
            a, asort = env.vars.get(node.args[0].value.id, (None, None)) if isinstance(node.args[0].value, ast.Name) else (None, None)
            kx, ks = self.expr(kws[None], env)
            if asort != "noargs" or ks != "kwtree_ns":
                bad(node, "Tree(*%s, **%s)" % (asort, ks))
            st1 = env.new_state()
            r = env.fresh("r_")
            return "bindR (new_tree_from_seed %s (fst %s) (snd %s)) (fun %s %s =>\n%s)" % (st0, kx, kx, st1, r, k(env, r, "tree"))
        bad(node, "tree constructor call")

    # ------------------------------------------------------------------------------------------
    # statements
    # ------------------------------------------------------------------------------------------
    def is_effect_call(self, node, env):
        if not isinstance(node, ast.Call):
            return False
        try:
            self.pure_call(node, env.copy())
            return False
        except Unsupported:
            return True

    def ret(self, env, term, sort):
        spec = env.spec
        if spec.get("byref"):
            m, ms = env.vars[spec["byref"]]
            if ms != "memo":
                raise Unsupported("%s: the shared dict is a %s at return" % (spec["name"], ms))
            return "(%s, Ok %s)" % (env.st, m)
        want = spec["ret"]
        if want == "unit":
            return "(%s, Ok tt)" % env.st
        if want == "tree_or_tlist":
            if sort not in ("tree", "tlist"):
                raise Unsupported("%s returns a %s" % (spec["name"], sort))
            return "(%s, Ok %s)" % (env.st, term)
        if sort == "none" and want == "unit":
            return "(%s, Ok tt)" % env.st
        if want in OPTION_OF and OPTION_OF[want] == sort:
            return "(%s, Ok (Some %s))" % (env.st, term)
        if sort != want:
            raise Unsupported("%s returns a %s, expected %s" % (spec["name"], sort, want))
        return "(%s, Ok %s)" % (env.st, term)

    def block(self, stmts, env, k):
        """k(env) builds what follows the block when it falls through"""
        if not stmts:
            return k(env)
        s, rest = stmts[0], stmts[1:]
        nxt = lambda e: self.block(rest, e, k)
        if isinstance(s, ast.Expr) and isinstance(s.value, ast.Constant) and isinstance(s.value.value, str):
            return nxt(env)                                   # docstring
        if isinstance(s, ast.Pass):
            return nxt(env)
        if isinstance(s, ast.Return):
            if env.loop:
                bad(s, "return inside a loop")
            if s.value is None:
                return self.ret(env, "tt", "none")
            if isinstance(s.value, ast.Subscript):
                return self.raising_read(s.value, env, lambda e, t, ts: self.ret(e, t, ts))
            if self.is_effect_call(s.value, env):
                return self.call(s.value, env, lambda e, t, ts: self.ret(e, t, ts))
            t, ts = self.expr(s.value, env)
            return self.ret(env, t, ts)
        if isinstance(s, ast.Raise):
            exc = s.exc
            name = None
            if isinstance(exc, ast.Call):
                fn = exc.func
                name = fn.attr if isinstance(fn, ast.Attribute) else (fn.id if isinstance(fn, ast.Name) else None)
            if name not in EXC:
                bad(s, "raise")
            e = EXC[name]
            if e == "ORECON":
                return "(%s, Err OtherErr)" % env.st      # TaxonNamespaceReconstructionError (the model's ORecon)
            return "(%s, Err %s)" % (env.st, e)
        if isinstance(s, ast.Assert):
            # `assert X is not None` on an object-typed value: cannot fail
            c = self.cond(s.test, env)
            if c.replace("(", "").replace(")", "").strip() in ("negb false", "true"):
                return nxt(env)
            bad(s, "assert")
        if isinstance(s, ast.If):
            return self.if_stmt(s, env, nxt)
        if isinstance(s, ast.For):
            return self.for_stmt(s, env, nxt)
        if isinstance(s, ast.Expr) and isinstance(s.value, ast.Call):
            return self.call(s.value, env, lambda e, t, ts: nxt(e))
        if isinstance(s, ast.AugAssign) and isinstance(s.op, ast.Add) and isinstance(s.target, ast.Name):
            # x += y on a TreeList variable: x = x.__iadd__(y)
            x, xs = self.expr(s.target, env)
            if xs == "tlist":
                y, ys = self.expr(s.value, env)
                callee = self.methods["TreeList___iadd__"]
                st0 = env.st
                st1 = env.new_state()
                r = env.fresh("r_")
                env.vars[s.target.id] = (r, "tlist")
                return "bindR (py_TreeList___iadd__ %s %s %s) (fun %s %s =>\n%s)" % (
                    st0, x, self.coerce(y, ys, "src", s), st1, r, nxt(env))
            bad(s, "+= on a %s" % xs)
        if isinstance(s, ast.Delete) and len(s.targets) == 1 and isinstance(s.targets[0], ast.Subscript):
            t = s.targets[0]
            d, dsort = self.expr(t.value, env)
            kx, ks = self.expr(t.slice, env)
            if dsort == "rows" and ks == "taxon" and isinstance(t.value, ast.Attribute):
                owner, osort = self.expr(t.value.value, env)
                st0 = env.st
                st1 = env.new_state()
                rows = env.fresh("rows_")
                return ("match rows_del %s %s with\n| Ok %s => let %s := set_mat_rows %s %s %s in\n%s\n| Err e_ => (%s, Err e_)\n| OutOfFuel => (%s, OutOfFuel)\nend"
                        % (d, kx, rows, st1, st0, owner, rows, nxt(env), st0, st0))
            bad(s, "del")
        if isinstance(s, ast.Assign) and len(s.targets) == 1:
            return self.assign(s.targets[0], s.value, s, env, nxt)
        bad(s, "statement")

    def raising_read(self, value, env, k):
        """l[i] on a list of trees / a namespace with an int index (IndexError), or a slice (never raises)"""
        if not isinstance(value, ast.Subscript):
            return None
        d, dsort = self.expr(value.value, env)
        ix, isort = self.expr(value.slice, env)
        if dsort == "trees" and isort == "slice":
            return k(env, "(py_list_getslice %s (fst %s) (snd %s))" % (d, ix, ix), "trees")
        if dsort in ("trees", "ns") and isort == "int":
            r = env.fresh("r_")
            prim = "py_list_getitem %s %s" % (d, ix) if dsort == "trees" else "ns_getitem %s %s %s" % (env.st, d, ix)
            return "match %s with\n| Ok %s =>\n%s\n| Err e_ => (%s, Err e_)\n| OutOfFuel => (%s, OutOfFuel)\nend" % (
                prim, r, k(env, r, "tree" if dsort == "trees" else "taxon"), env.st, env.st)
        bad(value, "subscript read of a %s by a %s" % (dsort, isort))

    def assign(self, tgt, value, s, env, nxt):
        if isinstance(tgt, ast.Name) and isinstance(value, ast.Subscript):
            def after_read(e, t, ts):
                c = e.bind(tgt.id, ts)
                return "let %s := %s in\n%s" % (c, t, nxt(e))
            return self.raising_read(value, env, after_read)
        if isinstance(tgt, ast.Name):
            if self.is_effect_call(value, env):
                def after(e, t, ts):
                    e.vars[tgt.id] = (t, ts)
                    return nxt(e)
                return self.call(value, env, after)
            t, ts = self.expr(value, env)
            hint = env.spec.get("locals", {}).get(tgt.id)
            if isinstance(value, ast.Dict) and not value.keys and hint == "dmemo":
                t, ts = "dmemo_empty", "dmemo"            # the memo handed to copy.deepcopy
            c = env.bind(tgt.id, ts)
            return "let %s := %s in\n%s" % (c, t, nxt(env))
        if isinstance(tgt, ast.Attribute):
            # self.__dict__ = t.__dict__ : self becomes the object t
            if tgt.attr == "__dict__" and isinstance(tgt.value, ast.Name) and tgt.value.id == "self" \
                    and isinstance(value, ast.Attribute) and value.attr == "__dict__" and env.spec["self"] == "fresh":
                t, ts = self.expr(value.value, env)
                env.vars["self"] = (t, ts)
                env.become = (t, ts)
                return nxt(env)
            if tgt.attr in UNMODELLED_ATTRS:
                self.notes.append("%s: assignment to .%s skipped (field not modelled)" % (env.spec["name"], tgt.attr))
                return nxt(env)
            if env.node and isinstance(tgt.value, ast.Name) and tgt.value.id == env.node[0] and tgt.attr == "taxon":
                t, ts = self.expr(value, env)
                if ts != "taxon":
                    bad(s, "node.taxon = <%s>" % ts)
                c = env.fresh("nt_")
                env.node = (env.node[0], c)
                return "let %s := %s in\n%s" % (c, t, nxt(env))
            x, xs = self.expr(tgt.value, env) if not (isinstance(tgt.value, ast.Name) and tgt.value.id == "self") \
                else ("self", env.spec["self"])
            if (xs, tgt.attr) in ATTR_SET:
                tmpl, vs = ATTR_SET[(xs, tgt.attr)]
                t, ts = self.expr(value, env)
                t = self.coerce(t, ts, vs, s)
                st0 = env.st
                st1 = env.new_state()
                return "let %s := %s in\n%s" % (st1, tmpl.format(st=st0, x=x, v=t), nxt(env))
            bad(s, "assignment to .%s of a %s" % (tgt.attr, xs))
        if isinstance(tgt, ast.Subscript):
            d, dsort = self.expr(tgt.value, env)
            if dsort == "memo" and isinstance(tgt.value, ast.Name):
                kx, ks = self.expr(tgt.slice, env)
                vx, vs = self.expr(value, env)
                if ks != "taxon" or vs != "taxon":
                    bad(s, "memo[%s] = %s" % (ks, vs))
                c = env.bind(tgt.value.id, "memo")
                return "let %s := memo_set %s %s %s in\n%s" % (c, d, kx, vx, nxt(env))
            if dsort == "dmemo" and isinstance(tgt.value, ast.Name):
                kx, ks = self.expr(tgt.slice, env)
                vx, vs = self.expr(value, env)
                if ks == "id:ns" and vs == "ns":
                    prim = "dmemo_set_ns"
                elif ks == "id:taxon" and vs == "taxon":
                    prim = "dmemo_set_taxon"
                else:
                    bad(s, "memo[%s] = %s" % (ks, vs))
                c = env.bind(tgt.value.id, "dmemo")
                return "let %s := %s %s %s %s in\n%s" % (c, prim, d, kx, vx, nxt(env))
            if dsort == "kwtree" and isinstance(tgt.value, ast.Name) and isinstance(tgt.slice, ast.Constant) \
                    and tgt.slice.value == "taxon_namespace":
                vx, vs = self.expr(value, env)
                if vs != "ns":
                    bad(s, 'kwargs["taxon_namespace"] = %s' % vs)
                c = env.fresh(V(tgt.value.id) + "_")
                env.vars[tgt.value.id] = (c, "kwtree_ns")
                return "let %s := (%s, snd %s) in\n%s" % (c, vx, d, nxt(env))
            if dsort == "trees" and isinstance(tgt.value, ast.Attribute):
                owner, osort = self.expr(tgt.value.value, env) if not (isinstance(tgt.value.value, ast.Name) and tgt.value.value.id == "self") \
                    else ("self", env.spec["self"])
                if osort != "tlist":
                    bad(s, "item assignment")
                ix, isort = self.expr(tgt.slice, env)

                def store(e, vx, vs):
                    cur = "(l_trees (getlist %s %s))" % (e.st, owner)
                    st0 = e.st
                    if isort == "slice":
                        if vs != "trees":
                            bad(s, "slice assignment of a %s" % vs)
                        st1 = e.new_state()
                        return "let %s := set_list_trees %s %s (py_list_setslice %s (fst %s) (snd %s) %s) in\n%s" % (
                            st1, st0, owner, cur, ix, ix, vx, nxt(e))
                    if isort == "int":
                        if vs != "tree":
                            bad(s, "item assignment of a %s" % vs)
                        st1 = e.new_state()
                        l2 = e.fresh("l_")
                        return ("match py_list_setitem %s %s %s with\n| Ok %s => let %s := set_list_trees %s %s %s in\n%s\n| Err e_ => (%s, Err e_)\n| OutOfFuel => (%s, OutOfFuel)\nend"
                                % (cur, ix, vx, l2, st1, st0, owner, l2, nxt(e), st0, st0))
                    bad(s, "index is a %s" % isort)
                if self.is_effect_call(value, env):
                    return self.call(value, env, store)
                vx, vs = self.expr(value, env)
                return store(env, vx, vs)
            if dsort == "rows" and isinstance(tgt.value, ast.Attribute):
                owner, osort = self.expr(tgt.value.value, env) if not (isinstance(tgt.value.value, ast.Name) and tgt.value.value.id == "self") \
                    else ("self", env.spec["self"])
                kx, ks = self.expr(tgt.slice, env)
                if ks != "taxon":
                    bad(s, "row key is a %s" % ks)
                st0 = env.st
                # d[t] = d[x]
                if isinstance(value, ast.Subscript):
                    d2, d2s = self.expr(value.value, env)
                    k2, k2s = self.expr(value.slice, env)
                    if d2 != d or k2s != "taxon":
                        bad(s, "row copy")
                    st1 = env.new_state()
                    rows = env.fresh("rows_")
                    return ("match rows_copy_item %s %s %s with\n| Ok %s => let %s := set_mat_rows %s %s %s in\n%s\n| Err e_ => (%s, Err e_)\n| OutOfFuel => (%s, OutOfFuel)\nend"
                            % (d, kx, k2, rows, st1, st0, owner, rows, nxt(env), st0, st0))
                # d[t] = <sequence value>: only the key is modelled
                vx, vs = self.expr(value, env)
                if vs != "values":
                    bad(s, "row value is a %s" % vs)
                st1 = env.new_state()
                return "let %s := set_mat_rows %s %s (add_uniq %s %s) in\n%s" % (st1, st0, owner, kx, d, nxt(env))
        bad(s, "assignment target")

    SUMS = {"rowkey": [("KeyIndex", "int"), ("KeyLabel", "label"), ("KeyTaxon", "taxon")],
            "dsobj": [("ObjNs", "ns"), ("ObjList", "tlist"), ("ObjMat", "mat")]}

    def sum_test(self, test, env):
        """(variable, constructor) when `test` asks which alternative of a sum-typed variable we have"""
        if not isinstance(test, ast.Call):
            return None
        f = test.func
        if isinstance(f, ast.Name) and f.id == "isinstance" and len(test.args) == 2 and isinstance(test.args[0], ast.Name):
            name = test.args[0].id
            sort = env.vars.get(name, (None, None))[1]
            c = test.args[1]
            cname = c.id if isinstance(c, ast.Name) else (c.attr if isinstance(c, ast.Attribute) else None)
            table = {("rowkey", "int"): "KeyIndex", ("dsobj", "TaxonNamespace"): "ObjNs", ("dsobj", "TreeList"): "ObjList",
                     ("dsobj", "CharacterMatrix"): "ObjMat"}
            if (sort, cname) in table:
                return name, table[(sort, cname)]
        if isinstance(f, ast.Attribute) and f.attr == "is_str_type" and len(test.args) == 1 and isinstance(test.args[0], ast.Name):
            name = test.args[0].id
            if env.vars.get(name, (None, None))[1] == "rowkey":
                return name, "KeyLabel"
        return None

    def sum_chain(self, s, env, nxt):
        first = self.sum_test(s.test, env)
        name = first[0]
        x, sort = env.vars[name]
        arms = {}
        cur = s
        while True:
            t = self.sum_test(cur.test, env)
            if t is None or t[0] != name or t[1] in arms:
                bad(cur, "type dispatch chain")
            arms[t[1]] = cur.body
            if len(cur.orelse) == 1 and isinstance(cur.orelse[0], ast.If) and self.sum_test(cur.orelse[0].test, env):
                cur = cur.orelse[0]
                continue
            final = cur.orelse
            break
        out = []
        for ctor, csort in self.SUMS[sort]:
            e = env.copy()
            c = e.bind(name, csort)
            body = arms.get(ctor, final)
            out.append("| %s %s =>\n%s" % (ctor, c, self.block(body, e, nxt)))
        if all(ctor in arms for ctor, _ in self.SUMS[sort]):
            self.notes.append("%s: the final else of the dispatch on %s is unreachable for a %s and is not translated"
                              % (env.spec["name"], name, sort))
        return "match %s with\n%s\nend" % (x, "\n".join(out))

    def if_stmt(self, s, env, nxt):
        test = s.test
        if self.sum_test(test, env):
            return self.sum_chain(s, env, nxt)
        # `X is None` / `X is not None` on an optional variable: match with refinement
        if isinstance(test, ast.Compare) and len(test.ops) == 1 and isinstance(test.ops[0], (ast.Is, ast.IsNot)) \
                and isinstance(test.comparators[0], ast.Constant) and test.comparators[0].value is None \
                and isinstance(test.left, ast.Name) and test.left.id in env.vars and env.vars[test.left.id][1] in OPTION_OF:
            name = test.left.id
            x, xs = env.vars[name]
            base = OPTION_OF[xs]
            none_body, some_body = (s.body, s.orelse) if isinstance(test.ops[0], ast.Is) else (s.orelse, s.body)
            # idiom `if X is None: X = E` (nothing else): bind the defaulted value
            if isinstance(test.ops[0], ast.Is) and not s.orelse and len(s.body) == 1 and isinstance(s.body[0], ast.Assign) \
                    and len(s.body[0].targets) == 1 and isinstance(s.body[0].targets[0], ast.Name) \
                    and s.body[0].targets[0].id == name:
                val = s.body[0].value
                if self.is_effect_call(val, env):
                    e_none = env.copy()
                    inner = self.call(val, e_none, lambda e, t, ts: "(%s, Ok %s)" % (e.st, self.coerce(t, ts, base, val)))
                    st0 = env.st
                    st1 = env.new_state()
                    c = env.bind(name, base)
                    return "bindR (match %s with\n| Some x_ => (%s, Ok x_)\n| None =>\n%s\nend) (fun %s %s =>\n%s)" % (
                        x, st0, inner, st1, c, nxt(env))
                t, ts = self.expr(val, env)
                t = self.coerce(t, ts, base, val)
                c = env.bind(name, base)
                return "let %s := match %s with Some x_ => x_ | None => %s end in\n%s" % (c, x, t, nxt(env))
            e_none, e_some = env.copy(), env.copy()
            c = e_some.bind(name, base)
            return "match %s with\n| None =>\n%s\n| Some %s =>\n%s\nend" % (
                x, self.block(none_body, e_none, nxt), c, self.block(some_body, e_some, nxt))
        # isinstance(X, TreeList) on a TreeList-or-iterable; isinstance(i, slice) on an index
        if isinstance(test, ast.Call) and isinstance(test.func, ast.Name) and test.func.id == "isinstance" and len(test.args) == 2 \
                and isinstance(test.args[0], ast.Name) and test.args[0].id in env.vars:
            name = test.args[0].id
            x, xs = env.vars[name]
            cls = test.args[1]
            cname = cls.id if isinstance(cls, ast.Name) else (cls.attr if isinstance(cls, ast.Attribute) else None)
            if xs == "src" and cname == "TreeList":
                e1, e2 = env.copy(), env.copy()
                c1 = e1.bind(name, "tlist")
                c2 = e2.bind(name, "trees")
                return "match %s with\n| SrcList %s =>\n%s\n| SrcTrees %s =>\n%s\nend" % (
                    x, c1, self.block(s.body, e1, nxt), c2, self.block(s.orelse, e2, nxt))
            if xs == "index" and cname == "slice":
                e1, e2 = env.copy(), env.copy()
                a, b = e1.fresh("a_"), e1.fresh("b_")
                c1 = e1.fresh(V(name) + "_")
                e1.vars[name] = (c1, "slice")
                c2 = e2.bind(name, "int")
                # the value assigned under a slice index is a TreeList or an iterable of trees, under an int a tree
                pre1 = self.refine_value(e1, "src")
                pre2 = self.refine_value(e2, "tree")
                return "match %s with\n| IdxSlice %s %s => let %s := (%s, %s) in\n%s%s\n| IdxInt %s =>\n%s%s\nend" % (
                    x, a, b, c1, a, b, pre1, self.block(s.body, e1, nxt), c2, pre2, self.block(s.orelse, e2, nxt))
        c = self.cond(test, env)
        e1, e2 = env.copy(), env.copy()
        return "if %s then\n%s\nelse\n%s" % (c, self.block(s.body, e1, nxt), self.block(s.orelse, e2, nxt))

    def refine_value(self, env, sort):
        """__setitem__(index, value): the type of `value` follows the kind of index (the parameter is the pair
        of both readings)"""
        if "value" in env.vars and env.vars["value"][1] == "tree_or_src":
            x, _ = env.vars["value"]
            c = env.fresh("v_value_")
            env.vars["value"] = (c, sort)
            return "let %s := %s %s in\n" % (c, "snd" if sort == "src" else "fst", x)
        return ""

    def assigned_names(self, stmts):
        out = []
        for s in stmts:
            for n in ast.walk(s):
                if isinstance(n, ast.Assign):
                    for t in n.targets:
                        if isinstance(t, ast.Name):
                            out.append(t.id)
                        if isinstance(t, ast.Subscript) and isinstance(t.value, ast.Name):
                            out.append(t.value.id)
                if isinstance(n, ast.Call) and isinstance(n.func, ast.Attribute) and n.func.attr == "append" \
                        and isinstance(n.func.value, ast.Name):
                    out.append(n.func.value.id)
                if isinstance(n, ast.Call):
                    for kw in n.keywords:
                        if kw.arg == "taxon_mapping_memo" and isinstance(kw.value, ast.Name):
                            out.append(kw.value.id)
        return out

    def appends_to_self_trees(self, stmts):
        for s in stmts:
            for n in ast.walk(s):
                if isinstance(n, ast.Call) and isinstance(n.func, ast.Attribute):
                    f = n.func
                    if f.attr in ("append", "insert", "extend") and isinstance(f.value, ast.Attribute) and f.value.attr == "_trees" \
                            and isinstance(f.value.value, ast.Name) and f.value.value.id == "self":
                        return True
                    if f.attr in ("append", "insert", "extend") and isinstance(f.value, ast.Name) and f.value.id == "self":
                        return True
        return False

    def for_stmt(self, s, env, nxt):
        if s.orelse or not isinstance(s.target, ast.Name):
            bad(s, "for shape")
        carried = [n for n in dict.fromkeys(self.assigned_names(s.body)) if n in env.vars and n != s.target.id]
        csorts = [env.vars[n][1] for n in carried]
        ctuple = "tt" if not carried else ("(%s)" % ", ".join(env.vars[n][0] for n in carried) if len(carried) > 1 else env.vars[carried[0]][0])
        it = s.iter
        itx, its = ("self", env.spec["self"]) if isinstance(it, ast.Name) and it.id == "self" else self.expr(it, env)
        body_env = env.copy()
        stb = body_env.fresh("stb")
        body_env.st = stb
        x = body_env.fresh("x_")
        cpat_names = []
        for n, srt in zip(carried, csorts):
            c = body_env.fresh(V(n) + "_")
            body_env.vars[n] = (c, srt)
            cpat_names.append(c)
        cpat = "_" if not carried else ("'(%s)" % ", ".join(cpat_names) if len(cpat_names) > 1 else cpat_names[0])
        body_env.loop = True

        def carried_out(e):
            if not carried:
                return "tt"
            vals = [e.vars[n][0] for n in carried]
            for n, srt in zip(carried, csorts):
                if e.vars[n][1] != srt:
                    raise Unsupported("loop changes the type of %s" % n)
            return "(%s)" % ", ".join(vals) if len(vals) > 1 else vals[0]

        st0 = env.st
        if its == "tree":
            # for node in <tree>: the loop variable stands for the node, its taxon is x
            body_env.node = (s.target.id, x)
            body = self.block(s.body, body_env, lambda e: "(%s, Ok (%s, %s))" % (e.st, e.node[1], carried_out(e)))
            head = "for_nodes %s (fun %s %s %s =>\n%s)" % (itx, stb, x, cpat if carried else "_", body)
        else:
            if its == "tlist":
                xs = "(l_trees (getlist %s %s))" % (st0, itx)
                esort = "tree"
                alias = self.appends_to_self_trees(s.body)
            else:
                xs, esort = self.iter_list(it, env)
                alias = False
            body_env.vars[s.target.id] = (x, esort)
            body = self.block(s.body, body_env, lambda e: "(%s, Ok %s)" % (e.st, carried_out(e)))
            if alias:
                head = "for_each_tree_of %s self (fun %s %s %s =>\n%s)" % (itx, stb, x, cpat if carried else "_", body)
            else:
                head = "for_each %s (fun %s %s %s =>\n%s)" % (xs, stb, x, cpat if carried else "_", body)
        st1 = env.new_state()
        outs = []
        for n, srt in zip(carried, csorts):
            outs.append(env.bind(n, srt))
        opat = "_" if not carried else ("'(%s)" % ", ".join(outs) if len(outs) > 1 else outs[0])
        return "bindR (%s %s %s) (fun %s %s =>\n%s)" % (head, st0, ctuple, st1, opat, nxt(env))

    # ------------------------------------------------------------------------------------------
    def method(self, name):
        m = self.methods[name]
        spec = m.spec
        self.counter[0] = 0
        env = Env(self, spec)
        params = []
        for n, s in m.coq_params():
            c = V(n)
            env.vars[n] = (c, s if s != "tree_or_src" else "tree_or_src")
            params.append((c, s))
        for n, _d in m.params:
            if spec["params"][n] in ("noargs", "nokw"):
                env.vars[n] = ("tt", spec["params"][n])
        body = self.block(m.fn.body, env, lambda e: self.ret(e, "tt", "none"))
        ret = spec["ret"]
        ret_ty = {"tree_or_tlist": "oid"}.get(ret) or COQ_TY[ret]
        selfty = COQ_TY[spec["self"]]
        ptxt = "".join(" (%s : %s)" % (c, self.param_ty(s)) for c, s in params)
        return "Definition py_%s (st : state) (self : %s)%s : R %s :=\n%s." % (name, selfty, ptxt, ret_ty, indent(body))

    def param_ty(self, s):
        if s == "tree_or_src":
            return "(oid * src)%type"
        return COQ_TY[s]


def indent(txt):
    out = []
    depth = 1
    for line in txt.split("\n"):
        out.append("  " * depth + line)
    return "\n".join(out)


HEADER = """(* GENERATED by py/dv/gen_containers.py from the current source of
   src/dendropy/datamodel/{treecollectionmodel,taxonmodel,charmatrixmodel,datasetmodel}.py and treemodel/_tree.py.
   Do not edit: regenerated on every run; proved equal to the hand-written model in coq/Proofs/C11Gen*.v *)
From Coq Require Import List Bool Arith ZArith String.
From DV Require Import Model.PyPrims Model.C11Model Model.C11Prims.
Import ListNotations.
Open Scope nat_scope.

Section Gen.
Variable lower : lbl -> lbl.
"""


def generate(repo):
    g = Gen(repo)
    parts = [HEADER]
    for spec in SPECS:
        parts.append("(* %s.%s  (%s) *)" % (spec["cls"], spec["fn"], FILES[spec["file"]]))
        parts.append(g.method(spec["name"]))
        parts.append("")
    parts.append("End Gen.")
    if g.notes:
        parts.append("(* notes:\n%s\n*)" % "\n".join("   " + n for n in sorted(set(g.notes))))
    return "\n".join(parts) + "\n"


if __name__ == "__main__":
    import sys
    repo = sys.argv[1] if len(sys.argv) > 1 else "/repo"
    if len(sys.argv) > 2 and sys.argv[2] == "each":
        g = Gen(repo)
        for spec in SPECS:
            try:
                g.method(spec["name"])
                print("ok  ", spec["name"])
            except Unsupported as e:
                print("FAIL", spec["name"], str(e)[:300])
    else:
        print(generate(repo))
