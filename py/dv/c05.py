"""C05 - split frequencies, consensus trees and support annotations are exact.

Correspondence: op histories over a SplitDistribution (path "sd") or a TreeArray (path "ta") are
run on the real library and on the Coq model (coq/Model/C05Model.v); after every op the output and
a snapshot of the counters and cache fields are compared.  The oracle restates the property with
Fractions and frozensets computed from the *spec trees* (never from the library's encoding).
"""
import math
import random
from fractions import Fraction

from dv import core, trees
from dv.core import cz, cbool, clist, copt, cpair, cq, cnat

HEADER = ("From DV Require Import Model.PyPrims Model.C05Model Model.C05Model2 Model.C05Model5.\n"
          "From Coq Require Import ZArith QArith. Open Scope Z_scope.")

UNIT = Fraction(1, 1024)
MODES = [None, "keep", "support", "clear", "mean-length", "median-length", "mean-age", "median-age"]
MODE_COQ = {None: "ELNone", "keep": "ELKeep", "support": "ELSupport", "clear": "ELClear",
            "mean-length": "ELMeanLen", "median-length": "ELMedianLen",
            "mean-age": "ELMeanAge", "median-age": "ELMedianAge"}
WEIGHTS = [None, None, 1, 2, 3, Fraction(1, 2), Fraction(1, 4), Fraction(3, 2), Fraction(5, 4), 0, 24, 25]
# numbers of trees n for which some k/n differs from k*(1.0/n) in binary64 (49: 49*(1/49) < 1; 98: 49*(1/98) < 1/2; 6: 5*(1/6))
BOUNDARY_NTREES = [6, 49, 49, 98, 93, 103, 107]


def fr(x):
    """JSON form [num, den] of a Fraction / None"""
    if x is None:
        return None
    x = Fraction(x)
    return [x.numerator, x.denominator]


def unfr(x):
    return None if x is None else Fraction(x[0], x[1])


# ----------------------------------------------------------------------------
# generation
# ----------------------------------------------------------------------------

def make_ultrametric(rng, t):
    """assign dyadic ages (leaves 0) and derive the edge lengths"""
    def age(n):
        if not n["kids"]:
            n["_age"] = 0
        else:
            n["_age"] = max(age(k) for k in n["kids"]) + rng.choice([256, 512, 1024, 1536, 2048])
        return n["_age"]
    age(t)

    def setlen(n, parent):
        n["len"] = None if parent is None else parent["_age"] - n["_age"]
        for k in n["kids"]:
            setlen(k, n)
    setlen(t, None)
    for n in trees.preorder(t):
        del n["_age"]


def make_nonultrametric(rng, t):
    """explicit positive lengths on every edge with at least two different root-to-tip distances
    (differences are multiples of 2**-10, far above the default ultrametricity precision)"""
    for n in trees.preorder(t):
        n["len"] = rng.choice([256, 512, 1024, 1536, 2048, 3072])
    t["len"] = None

    def depths(n, d, out):
        if not n["kids"]:
            out.append(d)
        for k in n["kids"]:
            depths(k, d + k["len"], out)
        return out
    if len(set(depths(t, 0, []))) == 1:
        lf = trees.leaves(t)[0]
        lf["len"] += 1024


def leafset(n):
    if not n["kids"]:
        return frozenset([n["taxon"]])
    s = frozenset()
    for k in n["kids"]:
        s |= leafset(k)
    return s


def mask_of(s):
    m = 0
    for x in s:
        m |= 1 << x
    return m


def spec_masks(t, rooted, ntax, bits=None):
    """split bitmasks of a spec tree as the library should key them (generator use only)"""
    bits = bits or [1 << k for k in range(ntax)]
    allm = 0
    for b in bits:
        allm |= b
    out = []
    for n in trees.preorder(t):
        m = 0
        for x in leafset(n):
            m |= bits[x]
        if not rooted and (m & 1):
            m = (~m) & allm
        out.append(m)
    return out


def in_quantifier(case):
    """the property quantifies over trees whose leaves carry exactly the taxa of the namespace;
    namespaces with vacated bits / trees on a subset of the taxa are run for the correspondence only"""
    if not all(case.get("layout", [True])):
        return False
    full = set(range(case["ntax"]))
    return all(set(n["taxon"] for n in trees.leaves(p["tree"])) == full for p in case["pool"])


def gen_case(rng, tier="quick", force=None):
    force = force or {}
    ntax = force.get("ntax") or rng.randint(4, 12 if rng.random() < 0.8 else 7)
    outside = rng.random() < 0.15
    layout = [True] * ntax
    if outside and rng.random() < 0.6:
        for _ in range(rng.randint(1, 3)):
            layout.insert(rng.randint(0, len(layout)), False)
    partial = outside and (all(layout) or rng.random() < 0.4)
    path = force.get("path") or rng.choice(["sd", "ta", "ta"])
    ages = rng.random() < 0.3
    rooting = rng.choice([True, True, False, False, None]) if rng.random() < 0.9 else "mixed"
    if ages and rooting is not True and rng.random() < 0.7:
        rooting = True
    npool = rng.randint(1, 5)
    pool = []
    base_shapes = []
    for i in range(npool):
        if base_shapes and rng.random() < 0.45:
            # same topology as an earlier tree, different lengths
            import copy
            t = copy.deepcopy(rng.choice(base_shapes))
            for n in trees.preorder(t):
                n["len"] = rng.choice([0, 256, 512, 1024, 1536, 2048, 3072, 5120])
        else:
            if partial and rng.random() < 0.6:
                sub = rng.sample(range(ntax), rng.randint(3, ntax - 1))
                t = trees.gen_tree(rng, len(sub), lengths=rng.choice(["dyadic", "positive", "mixed"]), taxa=sub)
            else:
                t = trees.gen_tree(rng, ntax, lengths=rng.choice(["dyadic", "dyadic", "positive", "mixed", "none"]))
            if rng.random() < 0.3 and t["kids"]:
                # rotate children somewhere (same topology, other postorder)
                rng.shuffle(t["kids"])
            base_shapes.append(t)
        if ages:
            make_ultrametric(rng, t)
        r = rooting if rooting != "mixed" else rng.choice([True, False, None])
        pool.append({"tree": t, "rooting": r})
    weighted = rng.random() < 0.5
    cfg = {"ignore_len": rng.random() < 0.15, "ignore_ages": not ages,
           "use_w": rng.random() < 0.75,
           "default_len": (fr(0) if path == "ta" else rng.choice([None, None, fr(0), fr(1)]))}
    init_rooting = None
    if path == "ta" and rng.random() < 0.25:
        init_rooting = rng.choice([True, False])

    def wt():
        return fr(rng.choice(WEIGHTS)) if weighted else None

    ntrees = min(40, max(1, int(rng.expovariate(1 / 12.0)) + 1))
    if rng.random() < 0.06 and ntax <= 8:
        ntrees = rng.choice(BOUNDARY_NTREES)      # k/n vs k*(1/n) boundary counts
    # multiset: skewed multiplicities so that frequencies are non-trivial
    bias = [rng.random() ** 2 + 0.05 for _ in pool]
    if ntrees in BOUNDARY_NTREES and rng.random() < 0.7:
        # identical trees / an exact half: frequencies sit exactly on 1 and 1/2
        if npool >= 2 and ntrees % 2 == 0:
            picks = [0] * (ntrees // 2) + [1] * (ntrees // 2)
        else:
            picks = [0] * ntrees
        rng.shuffle(picks)
    else:
        picks = rng.choices(range(npool), weights=bias, k=ntrees)
    cand_masks = []
    for p in pool:
        cand_masks.extend(spec_masks(p["tree"], p["rooting"] is True, ntax,
                                     [1 << i for i, real in enumerate(layout) if real]))
    cand_masks = sorted(set(cand_masks))

    def a_mask():
        if rng.random() < 0.8 and cand_masks:
            return rng.choice(cand_masks)
        return rng.getrandbits(len(layout))

    def threshold():
        k = rng.random()
        if k < 0.12:
            return "default"
        if k < 0.15:
            return None
        if (k < 0.55 and ntrees <= 20) or (k < 0.4 and ntrees in BOUNDARY_NTREES):
            if ntrees in BOUNDARY_NTREES and rng.random() < 0.6:
                return rng.choice([[1, 1], [1, 2], [ntrees // 2, ntrees], [ntrees - 1, ntrees]])
            return [rng.randint(1, ntrees), ntrees]
        q = rng.randint(1, 20)
        return [rng.randint(1, q), q]

    def sopts():
        mode = rng.choice(MODES)
        if not ages and mode in ("mean-age", "median-age") and rng.random() < 0.8:
            mode = rng.choice(["mean-length", "median-length", "support"])
        return {"mode": mode, "percent": rng.random() < 0.3,
                "min_len": (fr(rng.choice([0, Fraction(1, 4), 1])) if rng.random() < 0.25 else None),
                "err_neg": rng.random() < 0.2,
                "label": rng.random() < 0.4, "decimals": rng.choice([4, 2, 0, 6])}

    def analysis():
        k = rng.random()
        if k < 0.30:
            return ["Consensus", threshold()]
        if k < 0.50:
            return ["Summarize", rng.randrange(npool), sopts()]
        if k < 0.65:
            th = threshold()
            return ["Collapse", rng.randrange(npool), "default" if th is None else th]
        if k < 0.74 and path == "ta":
            return ["Scores", rng.random() < 0.5, rng.random() < 0.3]
        if k < 0.78 and path == "ta":
            return ["SetFreqs"]
        if k < 0.82:
            return ["TreeScore", rng.randrange(npool), rng.random() < 0.5, rng.random() < 0.3]
        if k < 0.85:
            return ["SupportIter", rng.randrange(npool), rng.random() < 0.5, rng.random() < 0.3]
        if k < 0.89:
            return ["FreqOfBip", [rng.randrange(npool) for _ in range(rng.randint(0, 8))], a_mask()]
        if k < 0.92:
            return ["LenSummaries"]
        if k < 0.96:
            return ["Query", a_mask()]
        return ["Freqs"]

    ops = []
    i = 0
    while i < ntrees:
        if rng.random() < 0.2 and ntrees - i >= 1:
            k = rng.randint(0, min(6, ntrees - i))
            ops.append(["Update", [[picks[j], wt()] for j in range(i, i + k)]])
            i += k
        else:
            ops.append(["Count", picks[i], wt()])
            i += 1
        r = rng.random()
        if r < 0.12:
            ops.append(["Query", a_mask()])
        elif r < 0.16:
            ops.append(["Freqs"])
        elif r < 0.19:
            ops.append(["Calc"])
        elif r < 0.24:
            ops.append(analysis())
    if rng.random() < 0.06:
        ops.insert(0, analysis())      # on the empty distribution
    for _ in range(rng.randint(2, 5)):
        ops.append(analysis())
    if rng.random() < 0.3:
        ops.append(["Count", rng.randrange(npool), wt()])
        ops.append(analysis())
    # trees the collection has to REFUSE, offered in the middle of the history (the caller catches the
    # documented error and carries on): not ultrametric while node ages are tracked
    # (UltrametricityError), over a foreign namespace (TaxonNamespaceIdentityError / the assert of
    # count_splits_on_tree); wrong rooting for a TreeArray is already produced by the mixed pools.
    # A non-ultrametric tree offered to a collection that ignores node ages must be ACCEPTED.
    if force.get("refusals", rng.random() < (0.6 if ages else 0.2)):
        import copy
        nbad = rng.randint(1, 2)
        for _ in range(nbad):
            kind = rng.choice(["nonultra", "nonultra", "foreign"])
            if kind == "nonultra":
                t = trees.gen_tree(rng, ntax, lengths="positive")
                make_nonultrametric(rng, t)
            else:
                t = copy.deepcopy(rng.choice(pool[:npool])["tree"])
            r = rooting if rooting != "mixed" else rng.choice([True, False, None])
            pool.append({"tree": t, "rooting": r, "bad": kind})
        for _ in range(rng.randint(1, 3)):
            pos = rng.randint(0, max(0, len(ops) - 2))
            bi = npool + rng.randrange(nbad)
            if rng.random() < 0.2:
                ops.insert(pos, ["Update", [[rng.randrange(npool), wt()], [bi, wt()], [rng.randrange(npool), wt()]][:rng.randint(2, 3)]])
            else:
                ops.insert(pos, ["Count", bi, wt()])
            if rng.random() < 0.5:
                ops.insert(pos + 1, rng.choice([["Freqs"], ["Query", a_mask()], ["Calc"]]))
    return {"ntax": ntax, "path": path, "cfg": cfg, "pool": pool, "init_rooting": init_rooting,
            "ops": ops, "layout": layout}


# ----------------------------------------------------------------------------
# running the implementation
# ----------------------------------------------------------------------------

def qfloat(x):
    """float -> JSON rational (exact); inf -> "inf"; complex / other -> tagged"""
    if x is None:
        return None
    if isinstance(x, complex):
        return "complex"
    if isinstance(x, (int, float)):
        if math.isinf(x):
            return "inf"
        if math.isnan(x):
            return "nan"
        return fr(Fraction(x))
    return "type:" + type(x).__name__


def dump_stree(node):
    bp = node.edge.bipartition
    return {"split": None if bp is None else bp.split_bitmask,
            "len": qfloat(node.edge.length),
            "kids": [dump_stree(c) for c in node.child_nodes()]}


def node_leafset(node, idx):
    if not node._child_nodes:
        return frozenset([idx[id(node.taxon)]])
    s = frozenset()
    for c in node._child_nodes:
        s |= node_leafset(c, idx)
    return s


def tree_clades(tree, idx):
    """leaf sets of the internal non-seed nodes (by walking the tree, not by the encoding)"""
    out = []
    for nd in tree.preorder_node_iter():
        if nd._child_nodes and nd._parent_node is not None:
            out.append(node_leafset(nd, idx))
    return out


def norm_mask(m, allm, rooted):
    """canonical non-trivial split of a leaf-set mask in real bit positions (the same function as
    the model's nontrivial_norm): mask or None"""
    def single_or_zero(x):
        return (x - 1) & x == 0
    if rooted:
        if m == allm or single_or_zero(m):
            return None
        return m
    c = (~m) & allm
    if m == 0 or m == allm or single_or_zero(m & allm) or single_or_zero(c):
        return None
    return c if (m & 1) else (m & allm)


def norm_nontrivial(s, ntax, rooted):
    """canonical non-trivial split of a leaf set: mask or None"""
    n = len(s)
    if rooted:
        if n <= 1 or n == ntax:
            return None
        return mask_of(s)
    if n <= 1 or n >= ntax - 1:
        return None
    if 0 in s:
        s = frozenset(range(ntax)) - s
    return mask_of(s)


class Lib:
    """one run of a case on the real library"""

    def __init__(self, case):
        import dendropy
        self.dp = dendropy
        self.case = case
        self.ntax = case["ntax"]
        self.ns = dendropy.TaxonNamespace()
        self.taxa = []
        for pos, real in enumerate(case.get("layout") or [True] * self.ntax):
            if real:
                self.taxa.append(self.ns.new_taxon("t%d" % len(self.taxa)))
            else:
                self.ns.remove_taxon(self.ns.new_taxon("hole%d" % pos))
        self.bit = [self.ns.taxon_bitmask(t) for t in self.taxa]
        self.all = self.ns.all_taxa_bitmask()
        self.real = 0
        for b in self.bit:
            self.real |= b
        self.idx = {id(t): k for k, t in enumerate(self.taxa)}
        # a foreign namespace with the same labels (for trees the collection must refuse)
        self.ns2 = dendropy.TaxonNamespace()
        self.taxa2 = [self.ns2.new_taxon("t%d" % k) for k in range(len(self.taxa))]
        self.cfg = case["cfg"]
        self.path = case["path"]
        kw = dict(taxon_namespace=self.ns, ignore_edge_lengths=self.cfg["ignore_len"],
                  ignore_node_ages=self.cfg["ignore_ages"], use_tree_weights=self.cfg["use_w"])
        self.kw = kw
        from dendropy.datamodel.treecollectionmodel import SplitDistribution, TreeArray
        self.SD, self.TA = SplitDistribution, TreeArray
        if self.path == "sd":
            self.ta = None
            self.sd = SplitDistribution(**kw)
        else:
            self.ta = TreeArray(is_rooted_trees=case["init_rooting"], **kw)
            self.sd = self.ta.split_distribution

    def mask(self, s):
        m = 0
        for x in s:
            m |= self.bit[x]
        return m

    def nclades(self, tree, rooted):
        return sorted(set(x for x in (norm_mask(self.mask(s), self.real, rooted) for s in tree_clades(tree, self.idx))
                          if x is not None))

    def build(self, i, w=None, local=False):
        p = self.case["pool"][i]
        if p.get("bad") == "foreign" and not local:
            t, _ = trees.build_dendropy(p["tree"], self.taxa2, is_rooted=p["rooting"], namespace=self.ns2)
        else:
            t, _ = trees.build_dendropy(p["tree"], self.taxa, is_rooted=p["rooting"], namespace=self.ns)
        wv = unfr(w)
        if wv is not None:
            t.weight = float(wv) if wv.denominator != 1 else int(wv)
        return t

    def encoded_copy(self, i):
        """records of pool tree i as the library encodes it, and the encoded structure"""
        t = self.build(i, local=True)
        if not self.cfg["ignore_ages"] and self.case["pool"][i].get("bad") != "nonultra":
            t.calc_node_ages(ultrametricity_precision=self.sd.ultrametricity_precision)
        t.encode_bipartitions()
        recs = []
        edge_of = {id(e.bipartition): e for e in t.postorder_edge_iter()}
        for b in t.bipartition_encoding:
            e = edge_of[id(b)]
            recs.append([b.split_bitmask, qfloat(e.length),
                         qfloat(getattr(e.head_node, "age", None)) if not self.cfg["ignore_ages"] else None])
        return recs, t.seed_node.edge.bipartition.leafset_bitmask, dump_stree(t.seed_node), t.is_unrooted

    def dl(self):
        d = unfr(self.cfg["default_len"])
        if d is None:
            return None
        return int(d) if d.denominator == 1 else float(d)

    def add(self, target_sd, target_ta, i, w):
        t = self.build(i, w)
        if self.path == "sd":
            target_sd.count_splits_on_tree(t, is_bipartitions_updated=False, default_edge_length_value=self.dl())
        else:
            target_ta.add_tree(t)

    @staticmethod
    def digest(d):
        """(entries, values, md5) of a dict split -> list (for the clause `a refused tree changes nothing`)"""
        import hashlib
        items = [(k, [None if x is None else repr(float(x)) for x in v]) for k, v in d.items()]
        return [len(items), sum(len(v) for _k, v in items), hashlib.md5(repr(items).encode()).hexdigest()]

    def snapshot(self):
        sd = self.sd
        ta = self.ta
        return {"lists": {"split_edge_lengths": self.digest(sd.split_edge_lengths),
                          "split_node_ages": self.digest(sd.split_node_ages)},
                "ta_lists": None if ta is None else [len(ta._tree_split_bitmasks), len(ta._tree_edge_lengths),
                                                     len(ta._tree_leafset_bitmasks), len(ta._tree_weights)],
                "total": sd.total_trees_counted, "sum_w": qfloat(sd.sum_of_tree_weights),
                "counts": [[s, qfloat(c)] for s, c in sd.split_counts.items()],
                "cache": None if sd._split_freqs is None else [[s, qfloat(f)] for s, f in sd._split_freqs.items()],
                "counted_for": sd._trees_counted_for_freqs,
                "rootings": sorted(bool(x) for x in sd.tree_rooting_types_counted),
                "ta_rooting": None if self.ta is None else self.ta._is_rooted_trees,
                "ntrees": 0 if self.ta is None else len(self.ta)}

    def min_freq_kw(self, th):
        if th == "default":
            return {}
        if th is None:
            return {"min_freq": None}
        return {"min_freq": th[0] / th[1]}

    def summary_fields(self, obj, prefix):
        if not hasattr(obj, prefix + "_mean"):
            return None
        rng_ = getattr(obj, prefix + "_range")
        return [qfloat(getattr(obj, prefix + "_mean")), qfloat(getattr(obj, prefix + "_median")),
                qfloat(getattr(obj, prefix + "_sd")),
                None if (rng_ is None or len(rng_) == 0) else [qfloat(rng_[0]), qfloat(rng_[1])]]

    def op(self, op):
        name = op[0]
        sd = self.sd
        if name == "Count":
            self.add(self.sd, self.ta, op[1], op[2])
            return ["UUnit"]
        if name == "Update":
            if self.path == "sd":
                other = self.SD(**self.kw)
                for i, w in op[1]:
                    self.add(other, None, i, w)
                sd.update(other)
            else:
                other = self.TA(is_rooted_trees=None, **self.kw)
                for i, w in op[1]:
                    self.add(None, other, i, w)
                self.ta.update(other)
            return ["UUnit"]
        if name == "Query":
            return ["UQ", qfloat(sd[op[1]])]
        if name == "Calc":
            return ["UTable", [[s, qfloat(f)] for s, f in sd.calc_freqs().items()]]
        if name == "Freqs":
            return ["UTable", [[s, qfloat(f)] for s, f in sd.split_frequencies.items()]]
        if name == "Consensus":
            kw = self.min_freq_kw(op[1])
            if self.path == "sd":
                con = sd.consensus_tree(**kw)
                con2 = sd.consensus_tree(summarize_splits=False, **kw)
            else:
                con = self.ta.consensus_tree(**kw)
                con2 = self.ta.consensus_tree(summarize_splits=False, **kw)
            rooting = con2.is_rooted
            rooted = rooting is True
            leaves = sorted(self.idx.get(id(l.taxon), -1) for l in con.leaf_node_iter())
            leaves2 = sorted(self.idx.get(id(l.taxon), -1) for l in con2.leaf_node_iter())
            clades = self.nclades(con, rooted)
            clades2 = self.nclades(con2, rooted)
            sup = []
            for nd in con.preorder_node_iter():
                if nd._child_nodes and nd._parent_node is not None:
                    sup.append([self.mask(node_leafset(nd, self.idx)), qfloat(getattr(nd, "support", None))])
            return ["UConsensus", clades, rooting,
                    {"leaves": leaves, "leaves_nosumm": leaves2, "clades_nosumm": clades2,
                     "rooting_summ": con.is_rooted, "support": sup}]
        if name == "Summarize":
            o = op[2]
            t = self.build(op[1])
            kw = {"set_edge_lengths": o["mode"], "support_as_percentages": o["percent"],
                  "error_on_negative_edge_lengths": o["err_neg"]}
            if o["min_len"] is not None:
                kw["minimum_edge_length"] = float(unfr(o["min_len"]))
            if o["label"]:
                kw["set_support_as_node_label"] = True
                kw["support_label_decimals"] = o["decimals"]
            if self.path == "sd" or True:
                sd.summarize_splits_on_tree(t, is_bipartitions_updated=False, **kw)
            nodes = []
            for nd in t:
                nodes.append({"split": nd.edge.bipartition.split_bitmask,
                              "leafset": self.mask(node_leafset(nd, self.idx)),
                              "is_leaf": not nd._child_nodes, "is_root": nd._parent_node is None,
                              "support": qfloat(getattr(nd, "support", None)),
                              "len": qfloat(nd.edge.length),
                              "lenf": self.summary_fields(nd.edge, "length"),
                              "agef": self.summary_fields(nd, "age"),
                              "age": qfloat(nd.age) if o["mode"] in ("mean-age", "median-age") else None,
                              "label": nd.label})
            return ["UNodes", nodes]
        if name == "Collapse":
            t = self.build(op[1])
            before = {"clades": [sorted(s) for s in tree_clades(t, self.idx)]}
            kw = self.min_freq_kw(op[2])
            sd.collapse_edges_with_less_than_minimum_support(t, **kw)
            tip = {}
            for lf in t.leaf_node_iter():
                d = Fraction(0)
                ok = True
                n = lf
                while n._parent_node is not None:
                    if n.edge.length is None:
                        ok = False
                        break
                    d += Fraction(n.edge.length)
                    n = n._parent_node
                tip[self.idx[id(lf.taxon)]] = fr(d) if ok else None
            return ["UTree", dump_stree(t.seed_node),
                    {"clades": [sorted(s) for s in tree_clades(t, self.idx)],
                     "tip": sorted(tip.items())}]
        if name == "Scores":
            product, ext = op[1], op[2]
            ta = self.ta
            if product:
                scores, idx = ta.calculate_log_product_of_split_supports(include_external_splits=ext)
                rt = ta.maximum_product_of_split_support_tree(include_external_splits=ext) if len(ta) else None
                sc = [qfloat(math.exp(x)) for x in scores]
            else:
                scores, idx = ta.calculate_sum_of_split_supports(include_external_splits=ext)
                rt = ta.maximum_sum_of_split_support_tree(include_external_splits=ext) if len(ta) else None
                sc = [qfloat(x) for x in scores]
            rooted = ta._is_rooted_trees is True
            restored = []
            if rt is not None:
                restored = self.nclades(rt, rooted)
            return ["UScores", sc, idx, restored, [qfloat(x) for x in scores]]
        if name == "TreeScore":
            t = self.build(op[1])
            if op[2]:
                v = math.exp(sd.log_product_of_split_support_on_tree(t, include_external_splits=op[3]))
            else:
                v = sd.sum_of_split_support_on_tree(t, include_external_splits=op[3])
            return ["UQList", [qfloat(v)]]
        if name == "SupportIter":
            t = self.build(op[1])
            vals = list(sd.split_support_iter(t, include_external_splits=op[3],
                                              traversal_strategy="postorder" if op[2] else "preorder"))
            return ["UQList", [qfloat(v) for v in vals]]
        if name == "FreqOfBip":
            tl = self.dp.TreeList(taxon_namespace=self.ns)
            for i in op[1]:
                tl.append(self.build(i))
            return ["UQ", qfloat(tl.frequency_of_bipartition(split_bitmask=op[2]))]
        if name == "SetFreqs":
            fr_ = self.ta.split_bitmask_set_frequencies()
            return ["USetFreqs", [[sorted(k), qfloat(v)] for k, v in fr_.items()]]
        if name == "LenSummaries":
            res = []
            for s, sm in sd.split_edge_length_summaries.items():
                res.append([s, qfloat(sm["mean"]), qfloat(sm["median"]), qfloat(sm["sd"]),
                            [qfloat(sm["range"][0]), qfloat(sm["range"][1])], qfloat(sm["var"])])
            return ["USummaries", res]
        raise RuntimeError("unknown op %s" % name)


_FORWARDS = None


def treearray_forwards():
    global _FORWARDS
    if _FORWARDS is None:
        import dendropy
        _FORWARDS = dendropy.TreeArray(use_tree_weights=False).split_distribution.use_tree_weights is False
    return _FORWARDS


def observe(case):
    lib = Lib(case)
    pool = []
    for i in range(len(case["pool"])):
        recs, leafset_mask, st, unrooted_after = lib.encoded_copy(i)
        pool.append({"recs": recs, "leafset": leafset_mask, "stree": st, "unrooted_after": unrooted_after})
    steps = []
    snap0 = lib.snapshot()
    for op in case["ops"]:
        try:
            with core.alarm(20):
                out = lib.op(op)
        except Exception as e:
            out = ["UErr", core.exc_enum(e), "%s: %s" % (type(e).__name__, str(e)[:120])]
        steps.append([out, lib.snapshot()])
    return {"pool": pool, "steps": steps, "forwards": treearray_forwards(), "all": lib.all, "bits": lib.bit,
            "snap0": snap0}


# ----------------------------------------------------------------------------
# oracle: the property, restated on spec trees with Fractions and frozensets
# ----------------------------------------------------------------------------

def spec_splits(t, rooted, ntax):
    """dict canonical-key -> edge length (Fraction | None | 'skip') of a spec tree.
    rooted: key = frozenset of taxa below the node (all nodes incl. leaves and root).
    unrooted: key = the side of the bipartition not containing taxon 0."""
    full = frozenset(range(ntax))
    out = {}
    root = t
    kids = root["kids"]
    merged = None
    if not rooted and len(kids) == 2:
        a, b = kids
        if len(b["kids"]) >= 2 or len(a["kids"]) >= 2:
            merged = (a, b)

    def key(s):
        if rooted:
            return s
        return (full - s) if 0 in s else s

    def walk(n, is_root):
        s = leafset(n)
        ln = None if n["len"] is None else n["len"] * UNIT
        if is_root:
            out[key(s)] = "root"
        elif merged and (n is merged[0] or n is merged[1]):
            la, lb = merged[0]["len"], merged[1]["len"]
            out[key(s)] = "skip" if (la is None or lb is None) else (la + lb) * UNIT
        else:
            out[key(s)] = ln
        for k in n["kids"]:
            walk(k, False)
    walk(root, True)
    return out


def compatible_sets(a, b, ntax, rooted):
    if rooted:
        return not (a & b) or a <= b or b <= a
    full = frozenset(range(ntax))
    return not (a & b) or a <= b or b <= a or (a | b) == full


class Spec:
    """exact bookkeeping of what has been counted (from the spec trees)"""

    def __init__(self, case):
        self.case = case
        self.ntax = case["ntax"]
        self.occ = []         # (pool index, weight Fraction)
        self.use_w = case["cfg"]["use_w"]

    def weight(self, w):
        w = unfr(w)
        return w if (self.use_w and w is not None) else Fraction(1)

    def rootings(self):
        return set(self.case["pool"][i]["rooting"] for i, _ in self.occ)

    def uniform(self):
        r = self.rootings()
        if len(r) != 1:
            return None
        r = next(iter(r))
        return "rooted" if r is True else "unrooted"

    def table(self):
        """key -> (weighted count, [lengths])  and the weight sum; None if rootings are mixed"""
        u = self.uniform()
        if u is None:
            return None
        rooted = u == "rooted"
        tot = Fraction(0)
        cnt = {}
        lens = {}
        for i, w in self.occ:
            sp = spec_splits(self.case["pool"][i]["tree"], rooted, self.ntax)
            tot += w
            for k, ln in sp.items():
                cnt[k] = cnt.get(k, Fraction(0)) + w
                lens.setdefault(k, []).append(ln)
        return rooted, tot, cnt, lens

    def key_of_mask(self, m, rooted):
        s = frozenset(i for i in range(m.bit_length()) if (m >> i) & 1)
        if any(i >= self.ntax for i in s):
            return None
        if not rooted and 0 in s:
            return None          # not a normalised key: no tree can contain it under this key
        return s


# fields of the snapshot a refused tree must not change -> oracle key.  `total` (total_trees_counted) and `ta_rooting`
# (_is_rooted_trees of a still-empty TreeArray) are NOT in this table, permanently: the library changes both on a refused
# non-ultrametric tree, neither enters a frequency, consensus, support or summary that C05 speaks about (recorded as
# observations, DESIGN 11.7); the model follows the code there (Model/C05Model5.v) and the proved statement is "at most
# total_trees_counted changes" (Props/C05Gen.v gen_count_refused_nonultrametric).
REFUSAL_FIELDS = {"sum_w": "refused-tree-changes-weight-sum", "counts": "refused-tree-changes-counts",
                  "lists": "refused-tree-changes-lists", "ta_lists": "refused-tree-changes-array",
                  "ntrees": "refused-tree-changes-array", "rootings": "refused-tree-changes-rootings",
                  "cache": "refused-tree-changes-cache"}


def exact_quotient(f, want):
    """counts and weight sums of the harness' dyadic weights are exact in binary64, so the reported frequency
    count / normaliser has to be THE correctly rounded quotient (what float(Fraction) gives)"""
    return isinstance(f, list) and Fraction(f[0], f[1]) == Fraction(float(want))


def close(a, b, tol=Fraction(1, 10 ** 9)):
    return abs(Fraction(a) - Fraction(b)) <= tol * (1 + abs(Fraction(b)))


def expected_supports(t, rooted, ntax, freq, ext, postorder):
    """supports of the nodes split_support_iter visits on spec tree t (seed node included; an
    unrooted basal bifurcation is collapsed by encode_bipartitions: the internal root child
    chosen by collapse_basal_bifurcation disappears)"""
    full = frozenset(range(ntax))
    to_del = None
    if not rooted and len(t["kids"]) == 2:
        a, b = t["kids"]
        if len(b["kids"]) >= 2:
            to_del = b
        elif len(a["kids"]) >= 2:
            to_del = a
    out = []

    def visit(n, is_root):
        if n is to_del:
            for k in n["kids"]:
                visit(k, False)
            return
        mine = None
        if n["kids"] or ext:
            if is_root:
                mine = Fraction(1)
            else:
                s = leafset(n)
                k = s if rooted else ((full - s) if 0 in s else s)
                mine = freq.get(k, Fraction(0))
        if not postorder and mine is not None:
            out.append(mine)
        for k in n["kids"]:
            visit(k, False)
        if postorder and mine is not None:
            out.append(mine)
    visit(t, True)
    return out


def oracle(case, obs):
    if not in_quantifier(case):
        return None
    ntax = case["ntax"]
    spec = Spec(case)
    full = frozenset(range(ntax))
    path = case["path"]
    prev = obs.get("snap0")
    for step_no, (op, (out, snap)) in enumerate(zip(case["ops"], obs["steps"])):
        name = op[0]
        err = out[0] == "UErr"
        before, prev = prev, snap
        # --- a refused tree (documented error, caught by the caller) changes nothing in the collection
        if name in ("Count", "Update") and before is not None:
            offered = [op[1]] if name == "Count" else [i for i, _w in op[1]]
            kinds = [case["pool"][i].get("bad") for i in offered]
            must_refuse = any(k == "foreign" or (k == "nonultra" and not case["cfg"]["ignore_ages"]) for k in kinds)
            if must_refuse and not err:
                return ("step %d %s: the collection accepted a tree it documents to refuse (%s)" % (step_no, op[:2], kinds),
                        "refusable-tree-accepted")
            if (not must_refuse) and err and any(kinds) and path == "sd":
                return ("step %d %s: a non-ultrametric tree was refused (%s) by a distribution that ignores node ages"
                        % (step_no, op[:2], out[1:]), "ages-ignored-tree-refused")
            if err:
                for f in REFUSAL_FIELDS:
                    if f in before and before[f] != snap.get(f):
                        return ("step %d %s was refused (%s) but changed %s of the collection: %s -> %s; a refused tree must leave counts, "
                                "weight sum, lists and the array's trees as they were" % (step_no, op[:2], (out[2] if len(out) > 2 else out[1]).split("\n")[0][:70], f,
                                                                                   str(before[f])[:80], str(snap.get(f))[:80]),
                                REFUSAL_FIELDS[f])
        # --- bookkeeping of counted trees
        if name == "Count" and not err:
            spec.occ.append((op[1], spec.weight(op[2])))
        if name == "Update" and not err:
            for i, w in op[1]:
                spec.occ.append((i, spec.weight(w)))
        if name in ("Count", "Update"):
            continue
        if name == "FreqOfBip" and not err:
            rs = set(case["pool"][i]["rooting"] for i in op[1])
            if len(rs) == 1 and next(iter(rs)) in (True, False) and op[1]:
                r_ = next(iter(rs)) is True
                k = spec.key_of_mask(op[2], True)
                if k is not None:
                    if not r_ and 0 in k:
                        k = full - k
                    n_has = sum(1 for i in op[1] if k in spec_splits(case["pool"][i]["tree"], r_, ntax))
                    want = Fraction(n_has, len(op[1]))
                    if not close(unfr(out[1]), want, Fraction(1, 10 ** 12)):
                        return ("step %d: frequency_of_bipartition(split_bitmask=%d) = %s over %d trees, %d of them contain the split"
                                % (step_no, op[2], float(unfr(out[1])), len(op[1]), n_has), "frequency_of_bipartition")
            continue
        tb = spec.table()
        if tb is None:
            continue                     # mixed rootings: the property's quantifier is over uniform collections
        rooted, tot, cnt, lens = tb
        if tot == 0:
            continue                     # no tree / all weights zero: frequencies undefined
        freq = {k: c / tot for k, c in cnt.items()}
        where = "step %d %s" % (step_no, op[:2])

        def fkey_findings():
            if path == "ta" and not case["cfg"]["use_w"] and not obs["forwards"]:
                return "treearray-ignores-use_tree_weights"
            return "frequency"

        def check_table(tbl, what):
            seen = set()
            for s, f in tbl:
                k = spec.key_of_mask(s, rooted)
                if k is None or k not in freq:
                    return ("%s: %s lists split %d that occurs in no counted tree" % (where, what, s), "absent-split-listed")
                seen.add(k)
                if f in ("inf", "nan", "complex") or not close(unfr(f), freq[k], Fraction(1, 10 ** 12)):
                    return ("%s: %s gives split %d frequency %s, the (weighted) fraction of trees containing it is %s"
                            % (where, what, s, f if isinstance(f, str) else float(unfr(f)), freq[k]), fkey_findings())
            if seen != set(freq):
                return ("%s: %s misses %d split(s) of the counted trees" % (where, what, len(set(freq) - seen)), "missing-split")
            for s, f in tbl:
                k = spec.key_of_mask(s, rooted)
                if not exact_quotient(f, freq[k]):
                    return ("%s: %s gives split %d frequency %r, the correctly rounded quotient %s is %r"
                            % (where, what, s, float(unfr(f)), freq[k], float(freq[k])), "frequency-inexact-quotient")
            return None

        if name == "Query" and not err:
            k = spec.key_of_mask(op[1], rooted)
            want = freq.get(k, Fraction(0)) if k is not None else Fraction(0)
            if not close(unfr(out[1]), want, Fraction(1, 10 ** 12)):
                return ("%s: distribution[%d] = %s, the (weighted) fraction of trees containing the split is %s"
                        % (where, op[1], float(unfr(out[1])), want), fkey_findings())
            if not exact_quotient(out[1], want):
                return ("%s: distribution[%d] = %r, the correctly rounded quotient %s is %r"
                        % (where, op[1], float(unfr(out[1])), want, float(want)), "frequency-inexact-quotient")
        if name in ("Calc", "Freqs") and not err:
            v = check_table(out[1], "split_frequencies")
            if v:
                return v
        if name == "Consensus":
            if err:
                return ("%s: consensus raised %s" % (where, out[1:]), "consensus-raises")
            th = op[1]
            theta = Fraction(1, 2) if th == "default" else (None if th is None else Fraction(th[0], th[1]))
            extra = out[3]
            if extra["leaves"] != list(range(ntax)) or extra["leaves_nosumm"] != list(range(ntax)):
                return ("%s: consensus tree does not span every taxon exactly once: %s" % (where, extra["leaves"]), "consensus-span")
            want_rooting = rooted
            if (out[2] is True) != want_rooting:
                return ("%s: consensus tree rooting %s, input trees are %s" % (where, out[2], "rooted" if rooted else "unrooted"), "consensus-rooting")
            if extra["clades_nosumm"] != out[1]:
                return ("%s: consensus topology depends on summarize_splits" % where, "consensus-summarize-dependent")
            # candidate non-trivial splits
            nontriv = {}
            for k, f in freq.items():
                m = norm_nontrivial(k, ntax, rooted)
                if m is not None:
                    nontriv[m] = (f, k)
            got = set(out[1])
            unknown = got - set(nontriv)
            if unknown:
                return ("%s: consensus contains split(s) %s found in no input tree" % (where, sorted(unknown)), "consensus-unknown-split")
            fkey = fkey_findings()
            if theta is not None:
                below = [m for m in got if nontriv[m][0] < theta]
                if below:
                    key = "consensus-below-threshold"
                    if fkey != "frequency":
                        key = fkey
                    elif theta >= 1 - Fraction(1, 10 ** 7) and all(nontriv[m][0] >= 1 - Fraction(2, 10 ** 7) for m in below):
                        key = "almost-one-tolerance"
                    return ("%s: consensus(min_freq=%s) contains split %d of frequency %s < threshold"
                            % (where, theta, below[0], nontriv[below[0]][0]), key)
            cands = {m for m, (f, k) in nontriv.items() if theta is None or f >= theta}
            for a in got:
                for b in got:
                    if a < b and not compatible_sets(nontriv[a][1], nontriv[b][1], ntax, rooted):
                        return ("%s: consensus contains incompatible splits %d, %d" % (where, a, b), "consensus-incompatible")
            if theta is not None and theta > Fraction(1, 2):
                if got != cands:
                    return ("%s: majority consensus(min_freq=%s) lacks split(s) %s whose frequency reaches the threshold"
                            % (where, theta, sorted(cands - got)), fkey if fkey != "frequency" else "majority-missing-split")
            else:
                for c in sorted(cands - got):
                    fc = nontriv[c][0]
                    if not any((not compatible_sets(nontriv[c][1], nontriv[a][1], ntax, rooted)) and nontriv[a][0] >= fc for a in got):
                        return ("%s: greedy consensus(min_freq=%s) leaves out split %d (freq %s) although it conflicts with no accepted split of at least its frequency"
                                % (where, theta, c, fc), fkey if fkey != "frequency" else "greedy-not-maximal")
            # support on the consensus tree
            for m, s in extra["support"]:
                ls = frozenset(i for i in range(ntax) if (m >> i) & 1)
                k = ls if rooted else ((full - ls) if 0 in ls else ls)
                want = freq.get(k, Fraction(0))
                if isinstance(s, str) or s is None or not close(unfr(s), want):
                    return ("%s: consensus node support %s != split frequency %s" % (where, s, want), fkey if fkey != "frequency" else "consensus-support")
        if name == "Summarize" and not err:
            o = op[2]
            tr = case["pool"][op[1]]["rooting"] is True
            if tr != rooted:
                continue
            scale = 100 if o["percent"] else 1
            for nd in out[1]:
                ls = frozenset(i for i in range(ntax) if (nd["leafset"] >> i) & 1)
                k = ls if rooted else ((full - ls) if 0 in ls else ls)
                want = freq.get(k, Fraction(0)) * scale
                s = nd["support"]
                if isinstance(s, str) or s is None or not close(unfr(s), want):
                    return ("%s: node support %s != %s x frequency of its split %s" % (where, s, scale, want / scale),
                            fkey_findings() if fkey_findings() != "frequency" else "support-not-frequency")
                if o["label"]:
                    try:
                        lv = Fraction(nd["label"])
                    except Exception:
                        return ("%s: support label %r is not a number" % (where, nd["label"]), "support-label")
                    if abs(lv - want) > Fraction(1, 2 * 10 ** o["decimals"]) + Fraction(1, 10 ** 9) * (1 + want):
                        return ("%s: support label %r does not render %s to %d decimals" % (where, nd["label"], want, o["decimals"]), "support-label")
                vals = lens.get(k)
                if nd["lenf"] is not None and vals and all(isinstance(v, Fraction) for v in vals) and not nd["is_root"]:
                    v = summary_violation(vals, nd["lenf"], where, "edge-length")
                    if v:
                        return v
                # set_edge_lengths: the edge length / node age the mode asks for
                mn = unfr(o["min_len"])
                if o["mode"] in ("mean-length", "median-length") and vals and all(isinstance(v, Fraction) for v in vals) \
                        and not nd["is_root"] and not case["cfg"]["ignore_len"]:
                    sv = sorted(vals)
                    stat = sum(vals) / len(vals) if o["mode"] == "mean-length" else \
                        (sv[len(sv) // 2] if len(sv) % 2 else (sv[len(sv) // 2 - 1] + sv[len(sv) // 2]) / 2)
                    want_len = stat if mn is None else max(stat, mn)
                    got_len = nd["len"]
                    if isinstance(got_len, str) or got_len is None or not close(unfr(got_len), want_len):
                        return ("%s: set_edge_lengths=%r gave the edge of clade %s length %s; the %s of its lengths %s over the %d trees containing it is %s"
                                % (where, o["mode"], sorted(ls), None if got_len is None else float(unfr(got_len)), o["mode"].split("-")[0],
                                   [float(x) for x in vals], len(vals), float(want_len)), "set-edge-lengths-length-mode")
                if o["mode"] in ("mean-age", "median-age") and rooted and not case["cfg"]["ignore_ages"] and nd["age"] is not None \
                        and not isinstance(nd["age"], str):
                    from dv import c05_deco
                    try:
                        ags = [a[ls] for a in (c05_deco._ages(case["pool"][pi]["tree"]) for pi, _w in spec.occ) if ls in a]
                    except Exception:
                        ags = []
                    if ags:
                        sa_ = sorted(ags)
                        stat = sum(ags) / len(ags) if o["mode"] == "mean-age" else \
                            (sa_[len(sa_) // 2] if len(sa_) % 2 else (sa_[len(sa_) // 2 - 1] + sa_[len(sa_) // 2]) / 2)
                        if not close(unfr(nd["age"]), stat):
                            return ("%s: set_edge_lengths=%r gave the node of clade %s age %s; the %s of its ages %s over the %d trees containing it is %s"
                                    % (where, o["mode"], sorted(ls), float(unfr(nd["age"])), o["mode"].split("-")[0],
                                       [float(x) for x in ags], len(ags), float(stat)), "set-edge-lengths-age-mode")
        if name == "LenSummaries" and not err:
            for s, mean, med, sd_, rng_, var in out[1]:
                k = spec.key_of_mask(s, rooted)
                vals = lens.get(k)
                if vals and all(isinstance(v, Fraction) for v in vals):
                    v = summary_violation(vals, [mean, med, sd_, rng_], where, "edge-length")
                    if v:
                        return v
        if name == "Collapse":
            tr = case["pool"][op[1]]["rooting"] is True
            if tr != rooted:
                continue
            if err:
                return ("%s: collapse raised %s on a tree over the namespace" % (where, out[1:]), "collapse-raises")
            th = op[2]
            theta = Fraction(1, 2) if th == "default" else Fraction(th[0], th[1])
            t = case["pool"][op[1]]["tree"]
            sp = spec_splits(t, rooted, ntax)
            internal = set()
            for n in trees.preorder(t):
                if n["kids"] and n is not t:
                    ls = leafset(n)
                    k = ls if rooted else ((full - ls) if 0 in ls else ls)
                    if norm_nontrivial(k, ntax, rooted) is not None:
                        internal.add(k)
            keep = {k for k in internal if freq.get(k, Fraction(0)) >= theta}
            got = set()
            for c in out[2]["clades"]:
                ls = frozenset(c)
                k = ls if rooted else ((full - ls) if 0 in ls else ls)
                if norm_nontrivial(k, ntax, rooted) is not None:
                    got.add(k)
            if got != keep:
                return ("%s: collapse(min_freq=%s) kept %d internal splits, exactly those with frequency >= threshold are %d (wrongly removed %s, wrongly kept %s)"
                        % (where, theta, len(got), len(keep), [sorted(x) for x in keep - got][:2], [sorted(x) for x in got - keep][:2]),
                        fkey_findings() if fkey_findings() != "frequency" else "collapse-not-exact")
            # root-to-tip distances (an unrooted tree with a basal bifurcation is re-seeded by
            # encode_bipartitions: its "root" is not a feature of the tree, skipped)
            if all(n["len"] is not None for n in trees.preorder(t) if n is not t) and (rooted or len(t["kids"]) != 2):
                want = {}

                def walk(n, d):
                    if not n["kids"]:
                        want[n["taxon"]] = d
                    for k2 in n["kids"]:
                        walk(k2, d + k2["len"] * UNIT)
                walk(t, Fraction(0))
                for tx, d in out[2]["tip"]:
                    if d is None or unfr(d) != want[tx]:
                        return ("%s: collapse changed the root-to-tip distance of taxon %d: %s -> %s" % (where, tx, want[tx], d), "collapse-tip-distance")
        if name in ("TreeScore", "SupportIter") and not err:
            tr = case["pool"][op[1]]["rooting"] is True
            if tr != rooted:
                continue
            if name == "TreeScore":
                exp_ = expected_supports(case["pool"][op[1]]["tree"], rooted, ntax, freq, op[3], False)
                acc = Fraction(1) if op[2] else Fraction(0)
                for f in exp_:
                    if op[2]:
                        if f != 0:
                            acc *= f
                    else:
                        acc += f
                if not close(unfr(out[1][0]), acc):
                    return ("%s: %s of split supports on the tree is %s, exact %s"
                            % (where, "product" if op[2] else "sum", float(unfr(out[1][0])), acc),
                            fkey_findings() if fkey_findings() != "frequency" else "tree-score")
            else:
                exp_ = expected_supports(case["pool"][op[1]]["tree"], rooted, ntax, freq, op[3], op[2])
                got_ = [unfr(x) for x in out[1]]
                if len(got_) != len(exp_) or not all(close(a_, b_, Fraction(1, 10 ** 12)) for a_, b_ in zip(sorted(got_), sorted(exp_))):
                    return ("%s: split_support_iter yields %s, the frequencies of the visited splits are %s"
                            % (where, [float(x) for x in got_], [str(x) for x in exp_]),
                            fkey_findings() if fkey_findings() != "frequency" else "support-iter")
        if name == "SetFreqs" and not err:
            groups = {}
            for pi, w in spec.occ:
                key = frozenset(spec_splits(case["pool"][pi]["tree"], rooted, ntax))
                groups[key] = groups.get(key, Fraction(0)) + w
            want = sorted(v / tot for v in groups.values())
            got_ = sorted(unfr(v) for _k, v in out[1])
            if len(want) != len(got_) or not all(close(a_, b_, Fraction(1, 10 ** 12)) for a_, b_ in zip(got_, want)):
                return ("%s: split_bitmask_set_frequencies reports %s, the weighted topology frequencies are %s"
                        % (where, [float(x) for x in got_], [str(x) for x in want]),
                        fkey_findings() if fkey_findings() != "frequency" else "topology-frequencies")
        if name == "Scores" and not err:
            sc_raw = [unfr(x) for x in out[4]]
            idx = out[2]
            if sc_raw:
                mx = max(sc_raw)
                first = sc_raw.index(mx)
                if idx != first:
                    return ("%s: returned tree index %s, first index attaining the maximum reported score is %d" % (where, idx, first), "mcc-not-argmax")
                # scores themselves
                product, ext = op[1], op[2]
                for j, (pi, w) in enumerate(spec.occ):
                    sp = spec_splits(case["pool"][pi]["tree"], rooted, ntax)
                    acc = Fraction(1) if product else Fraction(0)
                    for k, ln in sp.items():
                        # the code's notion (Bipartition.is_trivial_bitmask): one side has <= 1 taxon,
                        # also for rooted trees; the root edge of a rooted tree is counted
                        trivial = len(k) <= 1 or len(k) >= ntax - 1
                        is_root_key = ln == "root"
                        if ext or not trivial or (rooted and is_root_key):
                            f = freq.get(k, Fraction(0))
                            if product:
                                if f != 0:
                                    acc *= f
                            else:
                                acc += f
                    if not close(unfr(out[1][j]), acc):
                        return ("%s: score of tree %d is %s, the %s of its split supports is %s"
                                % (where, j, float(unfr(out[1][j])), "product" if product else "sum", acc),
                                fkey_findings() if fkey_findings() != "frequency" else "score")
                # topology of the returned tree = topology of that input tree
                pi = spec.occ[idx][0]
                want = sorted(set(x for x in (norm_nontrivial(leafset(n), ntax, rooted) if rooted else
                                              norm_nontrivial(leafset(n), ntax, False)
                                              for n in trees.preorder(case["pool"][pi]["tree"]) if n["kids"]) if x is not None))
                if out[3] != want:
                    return ("%s: the maximum-credibility tree returned does not have the topology of input tree %d" % (where, idx), "mcc-topology")
    return None


def summary_violation(vals, fields, where, what):
    mean, med, sd_, rng_ = fields
    n = len(vals)
    m = sum(vals) / n
    sv = sorted(vals)
    md = sv[n // 2] if n % 2 else (sv[n // 2 - 1] + sv[n // 2]) / 2
    if isinstance(mean, str) or mean is None or not close(unfr(mean), m):
        return ("%s: %s mean %s, exact %s" % (where, what, mean, m), "summary-mean")
    if isinstance(med, str) or med is None or not close(unfr(med), md):
        return ("%s: %s median %s, exact %s" % (where, what, med, md), "summary-median")
    if rng_ is None or unfr(rng_[0]) != sv[0] or unfr(rng_[1]) != sv[-1]:
        return ("%s: %s range %s, exact (%s, %s)" % (where, what, rng_, sv[0], sv[-1]), "summary-range")
    if n == 1:
        if sd_ != "inf":
            return ("%s: %s sd of a single value is %s (the code defines it as inf)" % (where, what, sd_), "summary-sd-n1")
    else:
        var = sum((v - m) ** 2 for v in vals) / (n - 1)
        if sd_ == "complex":
            return ("%s: %s standard deviation is a complex number (negative rounded variance)" % (where, what), "sd-complex")
        if isinstance(sd_, str) or sd_ is None or not close(unfr(sd_) ** 2, var, Fraction(1, 10 ** 8)):
            return ("%s: %s sd %s, exact variance %s" % (where, what, sd_, var), "summary-sd")
    return None


# ----------------------------------------------------------------------------
# Coq terms
# ----------------------------------------------------------------------------

def q(x):
    return cq(unfr(x))


def oq(x):
    return "None" if x is None else "(Some %s)" % q(x)


def obool(x):
    return "None" if x is None else "(Some %s)" % cbool(x)


def c_table(t):
    return clist([cpair(cz(s), q(f)) for s, f in t])


def c_stree(t):
    return "(SN %s %s %s)" % (cz(t["split"] if t["split"] is not None else -1), oq(t["len"]),
                              clist([c_stree(k) for k in t["kids"]]))


def c_sfields(f, inf_as_none=True):
    if f is None:
        return "None"
    mean, med, sd_, rng_ = f
    sdq = "None" if sd_ == "inf" else "(Some %s)" % q(sd_)
    r = "None" if rng_ is None else "(Some (%s, %s))" % (q(rng_[0]), q(rng_[1]))
    return "(Some (%s, %s, %s, %s))" % (q(mean), q(med), sdq, r)


def representable(x):
    return not isinstance(x, str)


def c_out(o):
    k = o[0]
    if k == "UUnit":
        return "UUnit"
    if k == "UErr":
        return "(UErr %s)" % o[1]
    if k == "UQ":
        return "(UQ %s)" % q(o[1])
    if k == "UTable":
        return "(UTable %s)" % c_table(o[1])
    if k == "UConsensus":
        return "(UConsensus %s %s)" % (clist([cz(x) for x in o[1]]), obool(o[2]))
    if k == "UNodes":
        items = []
        for nd in o[1]:
            items.append("(mkOut %s %s %s %s %s %s)" % (cz(nd["split"]), q(nd["support"]), oq(nd["len"]),
                                                     c_sfields(nd["lenf"]), c_sfields(nd["agef"]), oq(nd["age"])))
        return "(UNodes %s)" % clist(items)
    if k == "UTree":
        return "(UTree %s)" % c_stree(o[1])
    if k == "UScores":
        return "(UScores %s %s %s)" % (clist([q(x) for x in o[1]]), copt(o[2], cnat),
                                       clist([cz(x) for x in o[3]]))
    if k == "UQList":
        return "(UQList %s)" % clist([q(x) for x in o[1]])
    if k == "USetFreqs":
        return "(USetFreqs %s)" % clist([cpair(clist([cz(x) for x in ks]), q(v)) for ks, v in o[1]])
    if k == "USummaries":
        items = []
        for s, mean, med, sd_, rng_, _var in o[1]:
            sdq = "None" if sd_ == "inf" else "(Some %s)" % q(sd_)
            items.append("(%s, mkSum %s %s %s %s %s)" % (cz(s), q(mean), sdq, q(med), q(rng_[0]), q(rng_[1])))
        return "(USummaries %s)" % clist(items)
    raise ValueError(o)


def c_snap(s):
    return "(mkSnap %s %s %s %s %s %s %s %s)" % (
        cz(s["total"]), q(s["sum_w"]), c_table(s["counts"]),
        "None" if s["cache"] is None else "(Some %s)" % c_table(s["cache"]),
        cz(s["counted_for"]), clist([cbool(b) for b in s["rootings"]]), obool(s["ta_rooting"]), cz(s["ntrees"]))


def c_threshold(th):
    if th == "default":
        return "None"
    if th is None:
        return "(Some None)"
    return "(Some (Some %s))" % cq(Fraction(th[0], th[1]))


def c_op2(op, obs_idx=None):
    n = op[0]
    if n == "TreeScore":
        return "(OTreeScore %s %s %s)" % (cnat(op[1]), cbool(op[2]), cbool(op[3]))
    if n == "SupportIter":
        return "(OSupportIter %s %s %s)" % (cnat(op[1]), cbool(op[2]), cbool(op[3]))
    if n == "FreqOfBip":
        return "(OFreqOfBip %s %s)" % (clist([cnat(i) for i in op[1]]), cz(op[2]))
    if n == "SetFreqs":
        return "OSetFreqs"
    return "(O1 %s)" % c_op(op, obs_idx)


def c_out2(o):
    if o[0] in ("UQList", "USetFreqs"):
        return c_out(o)
    return "(U1 %s)" % c_out(o)


def c_op(op, obs_idx=None):
    n = op[0]
    if n == "Count":
        return "(OCount %s %s)" % (cnat(op[1]), oq(op[2]))
    if n == "Update":
        return "(OUpdate %s)" % clist([cpair(cnat(i), oq(w)) for i, w in op[1]])
    if n == "Query":
        return "(OQuery %s)" % cz(op[1])
    if n == "Calc":
        return "OCalc"
    if n == "Freqs":
        return "OFreqs"
    if n == "Consensus":
        return "(OConsensus %s)" % c_threshold(op[1])
    if n == "Summarize":
        o = op[2]
        return "(OSummarize %s (mkOpts %s %s %s %s))" % (cnat(op[1]), MODE_COQ[o["mode"]], cbool(o["percent"]),
                                                        oq(o["min_len"]), cbool(o["err_neg"]))
    if n == "Collapse":
        th = op[2]
        return "(OCollapse %s %s)" % (cnat(op[1]), "None" if th == "default" else "(Some %s)" % cq(Fraction(th[0], th[1])))
    if n == "Scores":
        return "(OScores %s %s %s)" % (cbool(op[1]), cbool(op[2]), copt(obs_idx, cnat))
    if n == "LenSummaries":
        return "OLenSummaries"
    raise ValueError(op)


def has_unrepresentable(x):
    """complex / nan values cannot be put into a Q: such steps are cut off (the oracle still sees them)"""
    if isinstance(x, str):
        return x in ("complex", "nan") or x.startswith("type:")
    if isinstance(x, (list, tuple)):
        return any(has_unrepresentable(y) for y in x)
    if isinstance(x, dict):
        return any(has_unrepresentable(y) for y in x.values())
    return False


def to_coq(case, obs):
    cfg = case["cfg"]
    ntax = case["ntax"]
    pool = []
    targets = []
    for p, o in zip(case["pool"], obs["pool"]):
        recs = clist(["(mkRec %s %s %s)" % (cz(s), oq(l), oq(a)) for s, l, a in o["recs"]])
        pool.append("(mkTree %s None %s %s)" % (recs, obool(p["rooting"]), cz(o["leafset"])))
        targets.append(cpair(c_stree(o["stree"]), obool(p["rooting"])))
    env = "(mkEnv %s (mkCfg %s %s %s %s) %s %s %s %s %s)" % (
        "PathSD" if case["path"] == "sd" else "PathTA",
        cbool(cfg["ignore_len"]), cbool(cfg["ignore_ages"]), cbool(cfg["use_w"]), oq(cfg["default_len"]),
        cbool(obs["forwards"]), cz(obs["all"]), clist([cz(b) for b in obs["bits"]]),
        clist(pool), clist(targets))
    ops = []
    exp = []
    for op, (out, snap) in zip(case["ops"], obs["steps"]):
        if has_unrepresentable(out) or has_unrepresentable(snap):
            break
        ops.append(c_op2(op, out[2] if (op[0] == "Scores" and out[0] == "UScores") else None))
        exp.append(cpair(c_out2(out), c_snap(snap)))
    ua = clist([obool(o["unrooted_after"]) for o in obs["pool"]])
    bad = clist([{None: "None", "nonultra": "(Some RNotUltrametric)", "foreign": "(Some RForeignNs)"}[p.get("bad")]
                 for p in case["pool"]])
    return "(mkCase3 (mkCase2 %s %s %s %s %s %s) %s)" % (env, ua, cbool(in_quantifier(case)), obool(case["init_rooting"]),
                                                         clist(ops), clist(exp), bad)


def nontrivial(case, obs):
    topo = set()
    for op, (out, _s) in zip(case["ops"], obs["steps"]):
        if op[0] == "Count" and out[0] == "UUnit":
            topo.add(op[1])
    inter = False
    for out, snap in obs["steps"]:
        if snap["cache"]:
            if any(f not in ([0, 1], [1, 1]) for _s, f in snap["cache"]):
                inter = True
    return len(topo) >= 2 and inter


# ----------------------------------------------------------------------------
# fixed probe cases (witnesses named in DESIGN 6.5 and in the task)
# ----------------------------------------------------------------------------

def T4(shape):
    """4-taxon spec trees: 'AB|CD' etc."""
    def leaf(i, tx):
        return {"id": i, "taxon": tx, "label": None, "len": 1024, "kids": []}
    pairs = {"AB": ((0, 1), (2, 3)), "AC": ((0, 2), (1, 3)), "AD": ((0, 3), (1, 2))}[shape]
    a = {"id": 1, "taxon": None, "label": None, "len": 1024, "kids": [leaf(2, pairs[0][0]), leaf(3, pairs[0][1])]}
    b = {"id": 4, "taxon": None, "label": None, "len": 1024, "kids": [leaf(5, pairs[1][0]), leaf(6, pairs[1][1])]}
    return {"id": 0, "taxon": None, "label": None, "len": None, "kids": [a, b]}


def probe_cases():
    base = {"ntax": 4, "cfg": {"ignore_len": False, "ignore_ages": True, "use_w": True, "default_len": None},
            "init_rooting": None}
    out = []
    # default threshold (exactly 1/2) with two conflicting splits at frequency exactly 1/2
    for rooting in (True, False):
        for path in ("sd", "ta"):
            c = dict(base, path=path, pool=[{"tree": T4("AB"), "rooting": rooting}, {"tree": T4("AC"), "rooting": rooting}],
                     ops=[["Count", 0, None], ["Count", 1, None], ["Consensus", "default"], ["Consensus", [1, 2]],
                          ["Consensus", [11, 20]], ["Collapse", 0, "default"], ["Freqs"]])
            c["cfg"] = dict(base["cfg"], default_len=fr(0) if path == "ta" else None)
            c["probe"] = "default-majority-tie"
            out.append(c)
    # a split at exactly the threshold (witness for >= vs >)
    c = dict(base, path="sd", pool=[{"tree": T4("AB"), "rooting": True}, {"tree": T4("AC"), "rooting": True}],
             ops=[["Count", 0, None], ["Count", 0, None], ["Count", 1, None], ["Consensus", [2, 3]],
                  ["Collapse", 0, [2, 3]], ["Collapse", 1, [1, 3]]])
    c["probe"] = "split-at-threshold"
    out.append(c)
    # weights in use: normalisation by the weight sum, not by the number of trees
    c = dict(base, path="sd", pool=[{"tree": T4("AB"), "rooting": True}, {"tree": T4("AC"), "rooting": True}],
             ops=[["Count", 0, fr(3)], ["Count", 1, fr(1)], ["Query", 3], ["Consensus", [3, 5]], ["Freqs"]])
    c["probe"] = "weighted-normalisation"
    out.append(c)
    # the _almost_one clause: min_freq = 1 accepts a split of frequency 1/(1+2^-30) < 1
    c = dict(base, path="sd", pool=[{"tree": T4("AB"), "rooting": True}, {"tree": T4("AC"), "rooting": True}],
             ops=[["Count", 0, fr(1)], ["Count", 1, fr(Fraction(1, 2 ** 30))], ["Consensus", [1, 1]]])
    c["probe"] = "almost-one"
    out.append(c)
    # TreeArray(use_tree_weights=False)
    c = dict(base, path="ta", pool=[{"tree": T4("AB"), "rooting": True}, {"tree": T4("AC"), "rooting": True}],
             ops=[["Count", 0, fr(3)], ["Count", 1, fr(1)], ["Query", 3], ["Consensus", [3, 5]]])
    c["cfg"] = dict(base["cfg"], use_w=False, default_len=fr(0))
    c["probe"] = "treearray-unweighted"
    out.append(c)
    # cache invalidation by update
    c = dict(base, path="sd", pool=[{"tree": T4("AB"), "rooting": True}, {"tree": T4("AC"), "rooting": True}],
             ops=[["Count", 0, None], ["Query", 3], ["Update", [[1, None], [1, None]]], ["Query", 3], ["Query", 5],
                  ["Update", []], ["Query", 5]])
    c["probe"] = "cache-update"
    out.append(c)
    # boundary counts: k/n differs from k*(1.0/n) in binary64 (49 identical trees, weights 24 + 25, 49 of 98, 5 of 6)
    two = [{"tree": T4("AB"), "rooting": True}, {"tree": T4("AC"), "rooting": True}]
    tail = [["Query", 3], ["Freqs"], ["Collapse", 0, [1, 1]], ["Collapse", 0, [1, 2]], ["Consensus", [1, 2]], ["Consensus", [1, 1]],
            ["Summarize", 0, {"mode": "support", "percent": False, "min_len": None, "err_neg": False, "label": False, "decimals": 4}]]
    for path in ("sd", "ta"):
        cfg = dict(base["cfg"], default_len=fr(0) if path == "ta" else None)
        out.append(dict(base, path=path, cfg=cfg, pool=two, ops=[["Count", 0, None]] * 49 + tail, probe="49-identical"))
        out.append(dict(base, path=path, cfg=cfg, pool=two, ops=[["Count", 0, fr(24)], ["Count", 0, fr(25)]] + tail, probe="weights-24-25"))
        out.append(dict(base, path=path, cfg=cfg, pool=two, ops=[["Count", 0, None], ["Count", 1, None]] * 49 + tail, probe="49-of-98"))
        out.append(dict(base, path=path, cfg=cfg, pool=two, ops=[["Count", 0, None]] * 5 + [["Count", 1, None]] + tail, probe="5-of-6"))
    # refused trees in the middle of a history of an age-tracking collection (3 accepted, 1 refused: every split of the
    # accepted trees keeps frequency 1), a foreign-namespace tree, and a refusal as the very first offer
    def ultra(shape):
        t = T4(shape)
        for k in t["kids"]:
            k["len"] = 1024
            for l in k["kids"]:
                l["len"] = 1024
        return t
    nonu = T4("AC")
    nonu["kids"][0]["kids"][0]["len"] = 5120
    rpool = [{"tree": ultra("AB"), "rooting": True}, {"tree": ultra("AB"), "rooting": True},
             {"tree": nonu, "rooting": True, "bad": "nonultra"}, {"tree": ultra("AB"), "rooting": True, "bad": "foreign"}]
    rtail = [["Query", 3], ["Freqs"], ["Consensus", [19, 20]], ["Collapse", 0, [9, 10]],
             ["Summarize", 0, {"mode": "mean-age", "percent": False, "min_len": None, "err_neg": False, "label": False, "decimals": 4}]]
    for path in ("sd", "ta"):
        for ign in (False, True):
            cfg = dict(base["cfg"], ignore_ages=ign, default_len=fr(0) if path == "ta" else None)
            out.append(dict(base, path=path, cfg=cfg, pool=rpool, probe="refused-in-the-middle",
                            ops=[["Count", 0, None], ["Count", 2, None], ["Count", 1, fr(2)], ["Count", 3, None], ["Count", 0, None]] + rtail))
            out.append(dict(base, path=path, cfg=cfg, pool=rpool, probe="refused-first",
                            ops=[["Count", 2, fr(3)], ["Query", 3], ["Count", 0, None], ["Update", [[0, None], [2, None]]],
                                 ["Update", [[1, None], [3, None]]], ["Count", 1, None]] + rtail))
    return out


def sd_complex_probe(ctx):
    """binary64 boundary, outside the exact model: three equal edge lengths 0.1 give a negative
    rounded variance and `var ** 0.5` is then a complex number"""
    import dendropy
    ns = dendropy.TaxonNamespace(["A", "B", "C"])
    tl = dendropy.TreeList(taxon_namespace=ns)
    for _ in range(3):
        tl.append(dendropy.Tree.get(data="[&R] ((A:0.1,B:0.1):0.1,C:0.2);", schema="newick", taxon_namespace=ns))
    sd = tl.split_distribution()
    t = dendropy.Tree.get(data="[&R] ((A:0.1,B:0.1):0.1,C:0.2);", schema="newick", taxon_namespace=ns)
    sd.summarize_splits_on_tree(t)
    bad = [(nd.edge.split_bitmask, nd.edge.length_sd) for nd in t if isinstance(getattr(nd.edge, "length_sd", 0.0), complex)]
    ctx.count("probe:sd-complex")
    if bad:
        ctx.violation("summarize_splits_on_tree: edge.length_sd of split %d over three equal lengths 0.1 is the complex number %r "
                      "(exact standard deviation 0; the rounded one-pass variance is negative and `var ** 0.5` is complex)" % bad[0],
                      {"newick": "[&R] ((A:0.1,B:0.1):0.1,C:0.2); x3", "length_sd": [repr(b) for b in bad]},
                      key="sd-complex")


# ----------------------------------------------------------------------------

def exhaustive_cases(rng):
    """every multiset of <= 3 trees drawn from all 4-taxon shapes (rooted and unrooted) with every
    threshold k/6: consensus, collapse on every tree"""
    import itertools
    shapes = [trees.shape_to_tree(s) for s in trees.all_shapes(4)]
    for t in shapes:
        for n in trees.preorder(t):
            n["len"] = 1024
        t["len"] = None
    out = []
    combos = list(itertools.combinations_with_replacement(range(len(shapes)), 3))
    rng.shuffle(combos)
    for combo in combos[:400]:
        for rooting in (True, False):
            pool = [{"tree": shapes[i], "rooting": rooting} for i in sorted(set(combo))]
            index = {i: k for k, i in enumerate(sorted(set(combo)))}
            ops = [["Count", index[i], None] for i in combo]
            for k in (1, 2, 3, 4, 5, 6):
                ops.append(["Consensus", [k, 6]])
            ops.append(["Collapse", 0, [2, 3]])
            ops.append(["Collapse", len(pool) - 1, [1, 3]])
            out.append({"ntax": 4, "path": "sd", "init_rooting": None, "pool": pool, "ops": ops,
                        "cfg": {"ignore_len": False, "ignore_ages": True, "use_w": True, "default_len": None}})
    return out


def search(ctx, budget_s):
    import time
    t0 = time.time()
    rng = random.Random(ctx.seed + 505)
    n = 0
    # merge histories (aliasing between distributions) and maximum-credibility trees first
    from dv import c05_merge
    n_shapes = c05_merge.run_cases(ctx, random.Random(ctx.seed + 5056), 400, budget_s=budget_s / 3.0)
    ctx.notes.append("search: %d merge / maximum-credibility histories through their oracle" % n_shapes)
    if ctx.violations:
        return
    # decorations (labels, support / age_* / length_* attributes and annotations) through their oracle
    from dv import c05_deco
    drng = random.Random(ctx.seed + 6068)
    dcs = c05_deco.fixed_cases()
    nd = 0
    while time.time() - t0 < budget_s * 0.6 and nd < 600:
        dc = dcs.pop(0) if dcs else c05_deco.gen_case(drng)
        nd += 1
        try:
            dobs = c05_deco.observe(dc)
        except Exception:
            continue
        v = c05_deco.oracle(dc, dobs)
        if v:
            ctx.violation(v[0], {"case": dc, "observed": dobs}, key=v[1])
            if ctx.violations:
                return
    ctx.notes.append("search: %d decoration histories through their oracle" % nd)
    cases = probe_cases()
    while time.time() - t0 < budget_s and n < 5000:
        case = cases.pop() if cases else gen_case(rng)
        try:
            obs = observe(case)
        except Exception:
            n += 1
            continue
        v = oracle(case, obs)
        n += 1
        if v:
            ctx.violation(v[0], {"case": case, "observed": obs}, key=v[1])
            if ctx.violations:
                return
    ctx.notes.append("search: %d further cases through the oracle, no unlisted violation" % n)


def sample_fn(case, obs):
    return {"ntax": case["ntax"], "path": case["path"], "cfg": case["cfg"],
            "pool_newick": [trees.newick(p["tree"]) for p in case["pool"]][:3],
            "ops": [o[:2] for o in case["ops"]][:12],
            "last": obs["steps"][-1][0][:3] if obs["steps"] else None}


def wave6_stages(ctx, tier):
    """decorations (Model/C05Model4.v, dcase_ok) and merges (Model/C05Merge.v, mcase_ok): library vs. Coq model + oracle"""
    from dv import c05_deco, c05_merge
    rng = random.Random(ctx.seed + 6066)
    dcases = c05_deco.fixed_cases() + [c05_deco.gen_case(rng) for _ in range(50 if tier == "quick" else 600)]

    def d_observe(case):
        obs = c05_deco.observe(case)
        for kw in case["calls"]:
            for k in kw:
                ctx.count("deco-option:" + (k if not (k.endswith("_name") or k.endswith("_dynamic")) else k.split("_")[-1] if k.endswith("_name") else "dynamic"))
            if not kw:
                ctx.count("deco-option:(all defaults)")
        return obs

    def d_to_coq(case, obs):
        if c05_deco.unrepresentable(obs):
            ctx.count("deco:unrepresentable value (complex sd, known finding sd-complex): oracle only")
            return "(mkDcase (mkCfg false true true None) [] [] [] [])"
        return c05_deco.to_coq(case, obs)
    core.corr_stage(ctx, dcases, d_observe, d_to_coq, c05_deco.HEADER, "dcase_ok", oracle=c05_deco.oracle,
                    show_fn="dcase_run", nontrivial=c05_deco.nontrivial, shard=8 if tier == "quick" else 100,
                    label="decoration correspondence")
    mrng = random.Random(ctx.seed + 6067)
    mcases = [c for c in c05_merge.fixed_cases() if c["kind"] == "merge"] + \
             [c05_merge.gen_merge_case(mrng) for _ in range(24 if tier == "quick" else 300)]

    def m_observe(case):
        ctx.count("merge-form:" + case["form"])
        return c05_merge.observe(case)

    def m_to_coq(case, obs):
        if not c05_merge.merge_representable(obs):
            ctx.count("merge:unrepresentable summary value: oracle only")
            e = "(mkDg [] [] [])"
            return "(mkMcase (mkCfg false true true None) [] [] [] (%s, %s) (%s, %s) %s %s)" % (e, e, e, e, e, e)
        return c05_merge.merge_to_coq(case, obs)
    core.corr_stage(ctx, mcases, m_observe, m_to_coq, c05_merge.MERGE_HEADER, "mcase_ok", oracle=c05_merge.oracle,
                    nontrivial=lambda c, o: True, shard=4 if tier == "quick" else 100, label="merge correspondence")


def run(tier, seed, replay=None):
    ctx = core.Ctx("C05", tier, seed)
    ctx.assumptions = [
        "model coq/Model/C05Model.v is a hand transcription of SplitDistribution / SplitDistributionSummarizer / TreeArray scoring / Tree.from_split_bitmasks / statistics; tied by this correspondence run and by Gen/Consts.v, Gen/BitFns.v",
        "exact rational arithmetic; binary64 rounding is outside the model (frequencies compared within 1e-12, means/variances/scores within 1e-9 relative)",
        "per-tree bipartition records (split bitmask, edge length, node age) are inputs observed from the library's own encoding (C01/C17); the consensus theorems assume each tree's clades are pairwise compatible and distinct - checked on every generated input by case_hyps",
        "log-product scores are modelled as exact products; hpd95 and 5/95 quantiles are outside exact arithmetic and not modelled",
        "translator tie wave 5 (Gen/SplitDistTa.v, Props/C05Gen.v): trusted are the compiler py/dv/c05_gen_impl3.py and the stated Python meaning of the primitives in coq/Model/C05GenPrims3.v (the tree object from_split_bitmasks returns and the split bitmask each of its nodes presents to summarize_splits_on_tree(is_bipartitions_updated=True)); **split_summarization_kwargs is the configured summarizer record; maximum-credibility history shapes (py/dv/c05_merge.py) are checked by their oracle",
        "translator tie wave 6 (Gen/SplitDistDeco.v from py/dv/gen_splitdist_deco.py): SplitDistributionSummarizer.configure with its defaults, _decorate and the decoration statements of summarize_splits_on_tree are compiled from the AST as a second VIEW of the loop body (the first view, Gen/SplitDist.v, keeps support / edge.length / node.age); each view skips the other's statements after checking their shape, and the two act on disjoint parts of a node unless a configured attribute name is 'age', 'label', 'length' or 'annotations' (outside the model). Trusted: the primitives of coq/Model/C05GenPrims4.v (setattr / annotations.drop / add_bound_attribute / add_new, str.format with one field, the fixed-point format with round-half-even on the EXACT rational - the library formats the binary64 value, so at exact decimal ties the harness accepts both neighbours -, kwargs.pop, getattr on the summarizer); sd is represented by its variance (DSqrt), hpd95 / quant_5_95 are opaque",
        "merge model (coq/Model/C05Merge.v): per-split lists are heap objects named by the dict entry that created them (distribution, attribute, split); hand transcription of count_splits_on_tree / SplitDistribution.update at that level, tied by the merge correspondence run (mcase_ok: digests of both sources before and after, of the result and of a fresh collection); TreeArray.update / extend / __iadd__ / __add__ are taken to act on the distributions as self._split_distribution.update(other._split_distribution) (the four merge forms of the harness); self-update d.update(d) is outside the model",
        "wave 8 (refused trees): whether an offered tree is ultrametric / over the collection's namespace is an input flag of the model set by the harness from the spec tree; the state a refused count leaves behind is taken from the generated code (Gen/SplitDist.v gen_count_splits_on_tree_exc, the statements preceding the raising call compiled from the AST); TreeArray.add_tree's refusal path (Model/C05Model5.ta_offer) is a hand transcription tied by this run",
        "namespaces with vacated bits and trees on a subset of the taxa are outside the property's quantifier: they are run through the correspondence only (the oracle and the namespace hypotheses are skipped for them)",
    ]
    if replay:
        import json
        r = json.load(open(replay))["replay"]
        if "shape_case" in r:
            from dv import c05_merge
            print("oracle:", c05_merge.oracle(r["shape_case"], c05_merge.observe(r["shape_case"])))
            return 0
        case = r["case"]
        if case.get("kind") == "deco":
            from dv import c05_deco
            print("oracle:", c05_deco.oracle(case, c05_deco.observe(case)))
            return 0
        if case.get("kind") in ("merge", "mcc"):
            from dv import c05_merge
            print("oracle:", c05_merge.oracle(case, c05_merge.observe(case)))
            return 0
        obs = observe(case)
        print("oracle:", oracle(case, obs))
        return 0
    ok = core.proof_stage(ctx, ["Props/C05.vo"], gen_needed=("BitFns", "Consts", "SplitDist"))
    # translator tie, wave 5 (Gen/SplitDistTa.v: restore_tree, maximum_*_split_support_tree, TreeArray.consensus_tree)
    # wave 6: + Gen/SplitDistDeco.v (configure, _decorate, the decoration statements) and the merge model
    ok = core.proof_stage(ctx, ["Props/C05Gen.vo"], props_file="Props/C05Gen.v",
                          gen_needed=("BitFns", "Consts", "SplitDist")) and ok
    if not ok:
        core.broken_proof(ctx, search)
    n = 240 if tier == "quick" else 4000
    cases = probe_cases() + [gen_case(ctx.rng, tier) for _ in range(n)]
    if tier == "thorough":
        cases.extend(exhaustive_cases(ctx.rng))
    for c in cases:
        ctx.count("path:" + c["path"])
        ctx.count("in-quantifier" if in_quantifier(c) else "outside-quantifier(vacated bits / partial trees; correspondence only)")
        ctx.count("ntax:%d" % c["ntax"])
        ctx.count("rooting:%s" % ",".join(sorted(set(str(p["rooting"]) for p in c["pool"]))))
        ctx.count("trees:%d" % (10 * (sum(1 if o[0] == "Count" else len(o[1]) if o[0] == "Update" else 0 for o in c["ops"]) // 10)))
        for o in c["ops"]:
            ctx.count("op:" + o[0])
            if o[0] in ("Count", "Update"):
                for j in ([o[1]] if o[0] == "Count" else [x for x, _w in o[1]]):
                    if c["pool"][j].get("bad"):
                        ctx.count("offered-refusable:%s:%s:%s" % (o[0], c["pool"][j]["bad"],
                                                                  "ages-ignored" if c["cfg"]["ignore_ages"] else "ages-tracked"))
            if o[0] == "Summarize":
                ctx.count("mode:%s" % o[2]["mode"])
    sd_complex_probe(ctx)
    # history shapes outside the single-array op language: merges (sources must stay unchanged, result = fresh
    # collection) and maximum-credibility trees (support of every node = frequency of its clade; arg-max)
    from dv import c05_merge
    c05_merge.run_cases(ctx, random.Random(ctx.seed + 5055), 80 if tier == "quick" else 1500)

    def observe_counting(case):
        obs = observe(case)
        for op, (out, _snap) in zip(case["ops"], obs["steps"]):
            if out[0] == "UErr":
                ctx.count("err:%s:%s" % (op[0], out[1]))
            elif op[0] == "Consensus":
                ctx.count("consensus:%s:%d-clades" % ("majority" if (op[1] not in ("default", None) and 2 * op[1][0] > op[1][1]) else "greedy", min(len(out[1]), 5)))
        return obs

    core.corr_stage(ctx, cases, observe_counting, to_coq, HEADER, "case3_ok", oracle=oracle,
                    show_fn="case3_run", nontrivial=nontrivial, search=search, shard=32 if tier == "quick" else 120,
                    sample_fn=sample_fn)
    wave6_stages(ctx, tier)
    return ctx.finish(level="proof",
                      rule="fixed probe cases + random op histories: 1-40 tree occurrences drawn with skewed multiplicities from a pool of 1-5 trees over 4-12 taxa spanning the namespace, rooted/unrooted/undefined/mixed rooting, dyadic or absent weights, SplitDistribution or TreeArray path, interleaved count/update/query/calc, thresholds k/ntrees or p/q (q<=20), default and None, every set_edge_lengths mode (oracle: mean/median-length and mean/median-age against the lengths / ages of exactly the trees containing the clade), percentages, labels, collapse, array scores, per-tree scores, split_support_iter, frequency_of_bipartition, topology frequencies; ~15% of the cases use a namespace with vacated bits and/or trees on a subset of the taxa (correspondence only); thorough adds multisets of 3 trees over all 4-taxon shapes x thresholds k/6; a case is non-trivial when >=2 distinct pool trees were counted and some cached frequency lies strictly between 0 and 1; distinct by full case content; wave 6: + 6 fixed and 50 (thorough 600) random decoration histories (1-6 trees, 1-3 summarize_splits_on_tree calls on the same target drawing every decoration flag, label decimals 0-6, percentages, custom field names, non-dynamic annotations; compared per node: all new instance attributes of node and edge, annotations in order, label) against Model/C05Model4.dcase_ok, and 4 fixed + 24 (thorough 300) merge histories in the four forms against Model/C05Merge.mcase_ok; wave 8: ~60% of the age-tracking and ~20% of the other histories offer 1-3 times a tree the collection must refuse (not ultrametric while node ages are tracked; over a foreign namespace with the same labels; inside the list of an Update) in the middle of the history, the documented error is caught, every snapshot field and list digest is compared before/after (a refused tree changes nothing) and the history continues; a non-ultrametric tree offered to a collection that ignores node ages must be accepted; ~6% of the histories use boundary numbers of trees (6, 49, 98, 93, 103, 107: identical trees or exact halves, thresholds 1, 1/2, (n-1)/n) and the weight pool contains 24 and 25; 16 fixed probe histories of these kinds; the model is Model/C05Model5.case3_ok")
