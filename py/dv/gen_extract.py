"""Translator: Node.extract_subtree, Tree.extract_tree and its four wrappers  ->  coq/Gen/Extract.v.

Built on the statement compiler of gen_mutators.py (same subset, same conventions); the methods
that extract_subtree calls (add_child, the property getters) are the definitions of Gen/Mutators.v.
The object-graph interface is `xgraph` of coq/Model/C08GenPrims.v: a `mutgraph` plus node labels,
edge labels, a taxon writer, the attribute that extraction stores on every new node
(`setattr(nd1, extraction_source_reference_attr_name, nd0)`) and the node list of
Node.postorder_iter().

What is added to the subset here:
  * a dict node -> node (`memo = {}`, `memo.get(k, None)`, `memo[k] = v`)
  * an `if` whose branches only assign boolean constants to one local is a let-bound conditional
    value (so that the rest of the loop body is compiled once)
  * `node_factory`: extract_subtree is compiled for node_factory=None, i.e. after
    `if node_factory is None: node_factory = self.__class__` (checked to be that statement) the call
    `node_factory()` is the Node constructor without arguments
  * `extraction_source_reference_attr_name` is its truth value (a non-empty string / None)
  * Tree.extract_tree: every statement except `other.seed_node = self.seed_node.extract_subtree(...)`
    must be literally the one of the template below (they build the new Tree object and copy
    non-structural attributes); the structure of the new tree is the node that call returns, the
    call itself is compiled
  * the wrappers: `node_filter_fn = lambda nd: ...` is compiled to a predicate that reads the
    object graph when it is called; `taxon.label` is the implicit parameter taxon_label

Anything else raises Unsupported (fail closed)."""
import ast
import os

from dv import gen_mutators as gm
from dv.gen_mutators import (Unsupported, NODE, EDGE, TREE, BOOL, INT, LEN, NONE, UNIT, TAXON, NNDICT, SNFN, LABEL,
                             TList, TOpt, dump, find_method, coq_ty)

OUTPUT = "Extract.v"

NODEFACTORY = ("nodefactory",)


def strip_doc(body):
    b = list(body)
    if b and isinstance(b[0], ast.Expr) and isinstance(b[0].value, ast.Constant) and isinstance(b[0].value.value, str):
        b = b[1:]
    return b


class XFn(gm.Fn):
    IMPLICIT = gm.Fn.IMPLICIT + [("taxon_label", ("labelfn",))]

    def __init__(self, *a, **kw):
        self.body_override = kw.pop("body", None)
        gm.Fn.__init__(self, *a, **kw)

    def body(self):
        if self.body_override is not None:
            return list(self.body_override)
        return gm.Fn.body(self)

    def coq_params(self):
        return [(n, t) for n, t in gm.Fn.coq_params(self) if t != NODEFACTORY]

    # -------------------------------------------------------------- expressions
    def cexpr(self, e, env, k):
        if isinstance(e, ast.Name) and e.id in env.vars and env.vars[e.id][0] == "val" and env.vars[e.id][2] == NODEFACTORY:
            return k("", NODEFACTORY, env)      # not a parameter of the compiled function (see the module docstring)
        return gm.Fn.cexpr(self, e, env, k)

    def attribute(self, vt, vty, attr, env, k):
        if vty == NODE and attr == "label":
            return self.let("label", "(rd_label X s %s)" % vt, lambda t: k(t, LABEL, env))
        if vty == EDGE and attr == "label":
            return self.let("elabel", "(rd_elabel X s %s)" % vt, lambda t: k(t, LABEL, env))
        if vty == TAXON and attr == "label":
            self.need_implicit("taxon_label")
            return k("(taxon_label %s)" % vt, INT, env)
        return gm.Fn.attribute(self, vt, vty, attr, env, k)

    def call(self, e, env, k):
        f = e.func
        if isinstance(f, ast.Name) and f.id == "set" and len(e.args) == 1 and not e.keywords and "set" not in env.vars:
            # set(labels) / set(taxa): only membership is asked of it below
            def ks(at, aty, e1):
                if aty not in (TList(TAXON), TList(INT)):
                    raise Unsupported("%s: set of %r" % (self.name, aty))
                return k(at, aty, e1)
            return self.cexpr(e.args[0], env, ks)
        if isinstance(f, ast.Name) and f.id in env.vars and env.vars[f.id][0] == "val":
            ty = env.vars[f.id][2]
            if ty == SNFN:
                if len(e.args) != 1 or e.keywords:
                    raise Unsupported("%s: call form of %s" % (self.name, f.id))
                return self.cexpr(e.args[0], env, lambda at, aty, e1: k(
                    "(%s s %s)" % (env.vars[f.id][1], self.coerce(at, aty, NODE)), BOOL, e1))
            if ty == NODEFACTORY:
                if e.args or e.keywords:
                    raise Unsupported("%s: call form of %s" % (self.name, f.id))
                v = self.fresh("new")
                return ("(let '(%s, s) := new_node G None None None s in\n  %s)" % (v, k(v, NODE, env.changed())))
        return gm.Fn.call(self, e, env, k)

    def method(self, rt, rty, meth, e, env, k):
        if rty == NNDICT:
            if meth == "get" and len(e.args) == 2 and not e.keywords and isinstance(e.args[1], ast.Constant) \
                    and e.args[1].value is None:
                return self.cexpr(e.args[0], env, lambda kt, kty, e1: k(
                    "(py_dict_get (mg_eqb G) %s %s)" % (self.coerce(kt, kty, NODE), rt), TOpt(NODE), e1))
            raise Unsupported("%s: dict method %s" % (self.name, meth))
        if rty == NODE and meth == "postorder_iter" and not e.args and not e.keywords:
            v = self.fresh("nodes")
            return ("(match x_postorder_nodes_of X s %s with\n  | Some %s => %s\n  | None => MFuel\n  end)"
                    % (rt, v, k(v, TList(NODE), env)))
        if rty == NODE and meth == "child_node_iter" and not e.args and not e.keywords:
            self.gen.check_child_node_iter()
            return self.let("kids", "(rd_kids G s %s)" % rt, lambda t: k(t, TList(NODE), env))
        return gm.Fn.method(self, rt, rty, meth, e, env, k)

    def compare(self, op, a, ta, b, tb):
        if isinstance(op, (ast.In, ast.NotIn)) and ta == INT and tb == TList(INT):
            r = "(py_in Z.eqb %s %s)" % (a, b)
            return "(negb %s)" % r if isinstance(op, ast.NotIn) else r
        return gm.Fn.compare(self, op, a, ta, b, tb)

    def coerce(self, text, ty, target):
        if target == LABEL and ty == NONE:
            return "None"
        if target == NODEFACTORY and ty in (NONE, NODEFACTORY):
            return ""
        return gm.Fn.coerce(self, text, ty, target)

    def pure_bool(self, e, env):
        """a condition over local values only (no reads of the object graph, cannot raise): its Coq bool"""
        if isinstance(e, ast.BoolOp):
            parts = [self.pure_bool(v, env) for v in e.values]
            if any(p is None for p in parts):
                return None
            op = "andb" if isinstance(e.op, ast.And) else "orb"
            t = parts[-1]
            for p in reversed(parts[:-1]):
                t = "(%s %s %s)" % (op, p, t)
            return t
        if isinstance(e, ast.UnaryOp) and isinstance(e.op, ast.Not):
            p = self.pure_bool(e.operand, env)
            return None if p is None else "(negb %s)" % p
        if isinstance(e, ast.Name) and e.id in env.vars and env.vars[e.id][0] == "val" and e.id not in self.spec:
            _k, t, ty = env.vars[e.id]
            if ty == BOOL or ty[0] == "list":
                return self.truthy(t, ty)
            return None
        if (isinstance(e, ast.Compare) and len(e.ops) == 1 and isinstance(e.ops[0], ast.Eq)
                and isinstance(e.left, ast.Call) and isinstance(e.left.func, ast.Name) and e.left.func.id == "len"
                and len(e.left.args) == 1 and not e.left.keywords and isinstance(e.left.args[0], ast.Name)
                and isinstance(e.comparators[0], ast.Constant) and isinstance(e.comparators[0].value, int)
                and not isinstance(e.comparators[0].value, bool)):
            v = env.vars.get(e.left.args[0].id)
            if v and v[0] == "val" and v[2][0] == "list":
                return "(Z.eqb (py_len %s) (%d))" % (v[1], e.comparators[0].value)
            return None
        if (isinstance(e, ast.Call) and isinstance(e.func, ast.Name) and e.func.id in env.vars
                and env.vars[e.func.id][0] == "val" and env.vars[e.func.id][2] == SNFN and len(e.args) == 1
                and not e.keywords and isinstance(e.args[0], ast.Name)
                and env.vars.get(e.args[0].id, (None, None, None))[2] == NODE):
            return "(%s s %s)" % (env.vars[e.func.id][1], env.vars[e.args[0].id][1])
        return None

    def cond(self, e, env, kt, kf, as_value=False):
        if isinstance(e, ast.BoolOp):
            b = self.pure_bool(e, env)
            if b is not None:
                return self.branch(b, env, kt, kf)
        return gm.Fn.cond(self, e, env, kt, kf, as_value)

    # -------------------------------------------------------------- statements
    def const_bool_if(self, s):
        """`if c: x = True/False [elif/else ...]` on every path, all to the same local: the name"""
        names = set()

        def walk(stmts):
            if len(stmts) != 1:
                return False
            st = stmts[0]
            if isinstance(st, ast.Assign) and len(st.targets) == 1 and isinstance(st.targets[0], ast.Name) \
                    and isinstance(st.value, ast.Constant) and isinstance(st.value.value, bool):
                names.add(st.targets[0].id)
                return True
            if isinstance(st, ast.If):
                return walk(list(st.body)) and walk(list(st.orelse))
            return False
        if isinstance(s, ast.If) and walk([s]) and len(names) == 1:
            return names.pop()
        return None

    def bool_value(self, stmts, env):
        st = stmts[0]
        if isinstance(st, ast.Assign):
            return "true" if st.value.value else "false"
        return self.cond(st.test, env, lambda e1: self.bool_value(list(st.body), e1),
                         lambda e1: self.bool_value(list(st.orelse), e1))

    # ---- join points: how many copies of the continuation the CPS compilation of a statement makes
    def cond_paths(self, e, env=None):
        """(number of ways the condition comes out true, ... false) in the short-circuit compilation"""
        if isinstance(e, ast.BoolOp):
            t, f = self.cond_paths(e.values[0])
            for v in e.values[1:]:
                t2, f2 = self.cond_paths(v)
                if isinstance(e.op, ast.And):
                    t, f = t * t2, f + t * f2
                else:
                    t, f = t + f * t2, f * f2
            return t, f
        if isinstance(e, ast.UnaryOp) and isinstance(e.op, ast.Not):
            t, f = self.cond_paths(e.operand)
            return f, t
        return 1, 1

    def fall_paths(self, stmts):
        n = 1
        for st in stmts:
            if isinstance(st, (ast.Continue, ast.Break, ast.Raise, ast.Return)):
                return 0
            if isinstance(st, ast.If):
                t, f = self.cond_paths(st.test)
                n *= t * self.fall_paths(list(st.body)) + f * self.fall_paths(list(st.orelse))
            if n == 0:
                return 0
        return n

    def join_if(self, s, rest, env, K):
        """`if` with several paths into the statements that follow: those are compiled once, as a local
        function of the locals the `if` may assign (at their types before the `if`) and of the state"""
        stored = []
        for n in ast.walk(s):
            if isinstance(n, ast.Name) and isinstance(n.ctx, ast.Store) and n.id not in stored:
                stored.append(n.id)
            if (isinstance(n, ast.Subscript) and isinstance(n.ctx, ast.Store) and isinstance(n.value, ast.Name)
                    and n.value.id not in stored):
                stored.append(n.value.id)
            if (isinstance(n, ast.Call) and isinstance(n.func, ast.Attribute) and n.func.attr in ("append", "extend", "pop")
                    and isinstance(n.func.value, ast.Name) and n.func.value.id not in stored):
                stored.append(n.func.value.id)
        jv = [n for n in stored if n in env.vars]
        for n in jv:
            if env.vars[n][0] != "val" or n == "self" or n in [p[0] for p in self.params]:
                raise Unsupported("%s: `if` re-binds %s before a join" % (self.name, n))
        types = {n: env.vars[n][2] for n in jv}
        for n in jv:
            if types[n] == NONE:
                raise Unsupported("%s: %s has no declared type at a join" % (self.name, n))
        renv = env.changed(True)
        for n in stored:
            if n not in jv:
                renv.vars.pop(n, None)
        for n in jv:
            renv = renv.bind(n, n, types[n])
        j = self.fresh("join")
        rest_text = self.block(rest, renv, K)
        if jv:
            head = "fun (dv_jv : %s) (s : mst G) => let '(%s) := dv_jv in\n  %s" % (
                " * ".join(coq_ty(types[n]) for n in jv), ", ".join(jv), rest_text)
        else:
            head = "fun (_ : unit) (s : mst G) =>\n  %s" % rest_text

        def jump(e1):
            if not jv:
                return "(%s tt s)" % j
            vals = []
            for n in jv:
                v = e1.vars.get(n)
                if not v or v[0] != "val":
                    raise Unsupported("%s: %s is not a value at a join" % (self.name, n))
                vals.append(self.coerce(v[1], v[2], types[n]))
            return "(%s (%s) s)" % (j, ", ".join(vals))
        branches = self.cond(s.test, env, lambda e1: self.block(list(s.body), e1, jump),
                             lambda e1: self.block(list(s.orelse), e1, jump))
        return "(let %s := (%s) in\n  %s)" % (j, head, branches)

    def block(self, stmts, env, K):
        if stmts:
            s, rest = stmts[0], list(stmts[1:])
            nxt = K if not rest else (lambda env1: self.block(rest, env1, K))
            name = self.const_bool_if(s)
            if name is not None and name not in self.RESERVED and name not in [p[0] for p in self.params] \
                    and name != "self" and not self.handlers:
                val = self.bool_value([s], env)
                return "(let %s := %s in\n  %s)" % (name, val, nxt(env.bind(name, name, BOOL)))
            if isinstance(s, ast.If) and rest and not self.handlers and self.fall_paths([s]) >= 2:
                return self.join_if(s, rest, env, K)
            # setattr(new, extraction_source_reference_attr_name, old)
            if (isinstance(s, ast.Expr) and isinstance(s.value, ast.Call) and isinstance(s.value.func, ast.Name)
                    and s.value.func.id == "setattr"):
                c = s.value
                if not (len(c.args) == 3 and not c.keywords and isinstance(c.args[1], ast.Name)
                        and c.args[1].id == "extraction_source_reference_attr_name"
                        and c.args[1].id in [p[0] for p in self.params]):
                    raise Unsupported("%s: setattr form" % self.name)
                return self.cexpr(c.args[0], env, lambda ot, oty, e1: self.deref(ot, oty, e1, lambda ot2, oty2, e2:
                                  self.cexpr(c.args[2], e2, lambda vt, vty, e3:
                                             "(let s := wr_xsource X %s %s s in\n  %s)"
                                             % (self.coerce(ot2, oty2, NODE), self.coerce(vt, vty, NODE), nxt(e3.changed()))),
                                  expr=c.args[0]))
        return gm.Fn.block(self, stmts, env, K)

    def store_attr(self, tgt, vt, vty, env, nxt):
        special = {("node", "label"): ("wr_label X", LABEL), ("node", "taxon"): ("wr_taxon X", TOpt(TAXON)),
                   ("edge", "label"): ("wr_elabel X", LABEL)}

        def kobj(ot, oty, e1):
            sp = special.get((oty[0], tgt.attr))
            if sp is None:
                return None
            wr, ty = sp
            return "(let s := %s %s %s s in\n  %s)" % (wr, ot, self.coerce(vt, vty, ty), nxt(e1.changed()))
        if tgt.attr in ("label", "taxon"):
            def k2(ot, oty, e1):
                r = kobj(ot, oty, e1)
                if r is None:
                    raise Unsupported("%s: store to %s of %r" % (self.name, tgt.attr, oty))
                return r
            return self.cexpr(tgt.value, env, lambda ot, oty, e1: self.deref(ot, oty, e1, k2, expr=tgt.value))
        return gm.Fn.store_attr(self, tgt, vt, vty, env, nxt)

    def assign(self, s, env, nxt):
        if len(s.targets) == 1:
            tgt = s.targets[0]
            if isinstance(tgt, ast.Name) and self.ltypes.get(tgt.id) == NNDICT and isinstance(s.value, ast.Dict) \
                    and not s.value.keys and not self.loop:
                return "(let %s := (@nil ((mnode G) * (mnode G))) in\n  %s)" % (tgt.id, nxt(env.bind(tgt.id, tgt.id, NNDICT)))
            if isinstance(tgt, ast.Subscript) and isinstance(tgt.value, ast.Name) and tgt.value.id in env.vars \
                    and env.vars[tgt.value.id][2:] == (NNDICT,):
                dn = tgt.value.id
                return self.cexpr(tgt.slice, env, lambda kt, kty, e1: self.cexpr(s.value, e1, lambda vt, vty, e2: (
                    "(let %s := py_dict_set (mg_eqb G) %s %s %s in\n  %s)"
                    % (dn, self.coerce(kt, kty, NODE), self.coerce(vt, vty, NODE), env.vars[dn][1],
                       nxt(e2.bind(dn, dn, NNDICT))))))
            if isinstance(tgt, ast.Name) and isinstance(s.value, ast.Lambda):
                # node_filter_fn = lambda nd: <condition>: a predicate defined beside the method
                text = self.gen.lambda_filter(self, tgt.id, s.value, env)
                return nxt(env.bind(tgt.id, text, SNFN))
        return gm.Fn.assign(self, s, env, nxt)


EXTRACT_TREE_TEMPLATE = """
if tree_factory is None:
    other = self.__class__(taxon_namespace=self.taxon_namespace)
else:
    other = tree_factory(taxon_namespace=self.taxon_namespace)
if node_factory is None:
    try:
        node_factory = other.node_factory
    except AttributeError:
        pass
other._is_rooted = self._is_rooted
other.weight = self.weight
other.length_type = self.length_type
other.label = self.label
other.seed_node = None
return other
"""

XS_PTYPES = {"extraction_source_reference_attr_name": BOOL, "node_filter_fn": TOpt(SNFN),
             "suppress_unifurcations": BOOL, "is_apply_filter_to_leaf_nodes": BOOL,
             "is_apply_filter_to_internal_nodes": BOOL, "node_factory": NODEFACTORY}
XS_LTYPES = {"memo": NNDICT, "start_node": TOpt(NODE), "start_node_to_match": TOpt(NODE), "nd1": TOpt(NODE),
             "children_to_add": TList(NODE)}

WRAPPERS = [("extract_tree_with_taxa", {"taxa": TList(TAXON)}),
            ("extract_tree_without_taxa", {"taxa": TList(TAXON)}),
            ("extract_tree_with_taxa_labels", {"labels": TList(INT)}),
            ("extract_tree_without_taxa_labels", {"labels": TList(INT)})]


class XGenerator(gm.Generator):
    def check_child_node_iter(self):
        f = find_method(self.classes["Node"], "child_node_iter")
        want = ast.parse("for node in self._child_nodes:\n    if filter_fn is None or filter_fn(node):\n        yield node").body
        if [dump(x) for x in strip_doc(f.body)] != [dump(x) for x in want] or [a.arg for a in f.args.args] != ["self", "filter_fn"] \
                or len(f.args.defaults) != 1 or not (isinstance(f.args.defaults[0], ast.Constant) and f.args.defaults[0].value is None):
            raise Unsupported("Node.child_node_iter is not the plain iteration of _child_nodes")

    def lambda_filter(self, fn, name, lam, env):
        """lambda nd: <condition on nd.taxon and parameters of the method>"""
        a = lam.args
        if a.vararg or a.kwarg or a.kwonlyargs or a.posonlyargs or a.defaults or len(a.args) != 1:
            raise Unsupported("%s: lambda form" % fn.name)
        x = a.args[0].arg
        free = sorted({n.id for n in ast.walk(lam.body) if isinstance(n, ast.Name)} - {x, "set"})
        for n in free:
            if n not in env.vars or env.vars[n][0] != "val" or env.vars[n][2][0] not in ("list", "int", "bool", "taxon"):
                raise Unsupported("%s: lambda refers to %s" % (fn.name, n))
        sub = XFn(self, fn.cls, fn.fn, "pure", BOOL, fn.ptypes, None)
        sub.name = "%s__%s" % (fn.name, name)
        sub.params = fn.params
        lenv = gm.Env()
        for n in free:
            lenv.vars[n] = ("val", n, env.vars[n][2])       # a parameter of the predicate, bound to the value at the call
        lenv.vars[x] = ("val", x, NODE)
        def no_raise(err, e):
            raise Unsupported("%s: the filter can raise %s" % (sub.name, err))
        sub.rz = no_raise
        body = sub.cond(lam.body, lenv, lambda e1: "true", lambda e1: "false")
        ptxt = "".join(" (%s : %s)" % (n, coq_ty(env.vars[n][2])) for n in free)
        imp = "".join(" (%s : %s)" % (n, coq_ty(t)) for n, t in XFn.IMPLICIT if n in sub.implicit)
        for n in sub.implicit:
            fn.need_implicit(n)
        self.extra_defs.append("(* %s of %s.%s: %s *)\nDefinition %s%s%s (s : mst G) (%s : (mnode G)) : bool :=\n  %s."
                               % (name, fn.cls, fn.fn.name, ast.unparse(lam), sub.name, imp, ptxt, x, body))
        return "(%s%s%s)" % (sub.name, "".join(" " + n for n in sub.implicit), "".join(" " + env.vars[n][1] for n in free))

    def emit(self, out, fn, comment):
        self.extra_defs = []
        text = fn.compile()
        for d in self.extra_defs:
            out.append(d)
            out.append("")
        out.append("(* %s *)" % comment)
        out.append(text)
        out.append("")

    def run(self):
        gm.Generator.run(self)          # the registry of Gen/Mutators.v (its text is generated by gen_mutators)
        for key, ent in self.registry.items():
            if ent["kind"] != "extern":
                ent["coq"] = "(%s G)" % ent["coq"]
        out = ["(* GENERATED by py/dv/gen_extract.py from datamodel/treemodel/_node.py, _tree.py -- do not edit.",
               "   Meaning of the primitives: coq/Model/MutPrims.v, coq/Model/C08GenPrims.v *)",
               "From Coq Require Import ZArith List Bool.",
               "From DV Require Import Model.PyPrims Model.C15Prims Model.MutPrims Gen.Mutators Model.C08GenPrims.",
               "Import ListNotations.",
               "Open Scope Z_scope.",
               "",
               "Section Extract.",
               "Variable X : xgraph.",
               "Notation G := (xg X).",
               ""]
        # ---- Node.extract_subtree, for node_factory=None
        node = self.classes["Node"]
        f = find_method(node, "extract_subtree")
        body = strip_doc(f.body)
        want = ast.parse("if node_factory is None:\n    node_factory = self.__class__").body[0]
        idx = [i for i, st in enumerate(body) if dump(st) == dump(want)]
        if len(idx) != 1:
            raise Unsupported("Node.extract_subtree: `if node_factory is None: node_factory = self.__class__` not found")
        for st in body[:idx[0]]:
            if "node_factory" in {n.id for n in ast.walk(st) if isinstance(n, ast.Name)}:
                raise Unsupported("Node.extract_subtree: node_factory used before its default is set")
        for st in body:
            for n in ast.walk(st):
                if isinstance(n, ast.Name) and n.id == "node_factory" and isinstance(n.ctx, ast.Store) and st is not body[idx[0]]:
                    raise Unsupported("Node.extract_subtree: node_factory re-assigned")
        body = body[:idx[0]] + body[idx[0] + 1:]
        fn = XFn(self, "Node", f, "eff", NODE, XS_PTYPES, None, XS_LTYPES, body=body)
        self.emit(out, fn, "Node.extract_subtree with node_factory=None (new nodes are Node())")
        self.registry[("Node", "extract_subtree", ())] = {
            "coq": fn.name, "params": fn.params, "kind": "eff", "ret": NODE, "spec": (), "rebinds_kids": fn.rebinds_kids,
            "needs_fuel": fn.needs_fuel, "implicit": list(fn.implicit)}
        # ---- Tree.extract_tree
        tree = self.classes["Tree"]
        nf = find_method_cls(tree, "node_factory")
        f = find_method(tree, "extract_tree")
        body = strip_doc(f.body)
        tmpl = ast.parse(EXTRACT_TREE_TEMPLATE).body
        if len(body) != len(tmpl):
            raise Unsupported("Tree.extract_tree: statements changed")
        call = None
        for st, tp in zip(body, tmpl):
            if (isinstance(tp, ast.Assign) and isinstance(tp.value, ast.Constant) and tp.value.value is None
                    and isinstance(st, ast.Assign) and [dump(t) for t in st.targets] == [dump(t) for t in tp.targets]):
                call = st.value
            elif dump(st) != dump(tp):
                raise Unsupported("Tree.extract_tree: statement `%s` changed" % ast.unparse(tp).splitlines()[0])
        if call is None:
            raise Unsupported("Tree.extract_tree: no seed_node assignment")
        ptypes = dict(XS_PTYPES)
        ptypes["tree_factory"] = NODEFACTORY
        fn = XFn(self, "Tree", f, "eff", NODE, ptypes, None, None, body=[ast.Return(value=call)])
        self.emit(out, fn, "Tree.extract_tree with tree_factory=None, node_factory=None: the seed node of the new tree")
        self.registry[("Tree", "extract_tree", ())] = {
            "coq": fn.name, "params": fn.params, "kind": "eff", "ret": NODE, "spec": (), "rebinds_kids": fn.rebinds_kids,
            "needs_fuel": fn.needs_fuel, "implicit": list(fn.implicit)}
        # ---- the wrappers
        for name, extra in WRAPPERS:
            f = find_method(tree, name)
            ptypes = {"extraction_source_reference_attr_name": BOOL, "suppress_unifurcations": BOOL}
            ptypes.update(extra)
            fn = XFn(self, "Tree", f, "eff", NODE, ptypes, None, None)
            self.emit(out, fn, "Tree.%s" % name)
            self.registry[("Tree", name, ())] = {      # a later wrapper may delegate to an earlier one
                "coq": fn.name, "params": fn.params, "kind": "eff", "ret": NODE, "spec": (),
                "rebinds_kids": fn.rebinds_kids, "needs_fuel": fn.needs_fuel, "implicit": list(fn.implicit)}
        out.append("End Extract.")
        out.append("")
        return "\n".join(out)


def find_method_cls(cls, name):
    """@classmethod def node_factory(cls, **kwargs): return _node.Node(**kwargs)"""
    found = [n for n in cls.body if isinstance(n, ast.FunctionDef) and n.name == name]
    if len(found) != 1:
        raise Unsupported("%s.%s: %d definitions" % (cls.name, name, len(found)))
    f = found[0]
    if [dump(d) for d in f.decorator_list] != [dump(ast.parse("classmethod", mode="eval").body)]:
        raise Unsupported("Tree.node_factory: decorators")
    want = ast.parse("return _node.Node(**kwargs)").body[0]
    if [dump(x) for x in strip_doc(f.body)] != [dump(want)]:
        raise Unsupported("Tree.node_factory is not `return _node.Node(**kwargs)`")
    return f


def generate(repo):
    try:
        return XGenerator(repo).run()
    except Unsupported:
        raise
    except Exception as e:       # anything unexpected inside the compiler is a fail-closed condition too
        raise Unsupported("internal: %s: %s" % (type(e).__name__, e))


if __name__ == "__main__":
    import sys
    print(generate(sys.argv[1] if len(sys.argv) > 1 else "/repo"))
