"""C06 part (iii): several tree SOURCES read with a per-source burn-in (tree_offset).

The documented multi-source entry point TreeArray.read_from_files (what SumTrees' serial mode uses
with --log-frequency 0 / --quiet, and what every worker process uses for each file it fetches)
discards the first `tree_offset` trees of EACH source.  The property says that summarising the
sources in one serial pass gives what separately built sub-collections (one per source, some of
them empty) give when merged in any arrival order.  Routes compared on the same files:

  serial       one array, read_from_files(files=<all sources>, tree_offset=k)
               (sources given as paths and/or open file objects)
  sequential   one array, one call per source: read_from_path / read(path=) / read_from_stream /
               read_from_string / read_from_files([p])           (all with tree_offset=k)
  merged/<j>   one array per source, merged into a fresh array in a random arrival order by
               update / extend / +=
  sumtrees-quiet / sumtrees-logging
               TreeProcessor(num_processes=1, log_frequency=0 / 2).analyze_trees(tree_offset=k)
  naive        the definition: the trees of every source, each source read on its own with the
               plain tree yielder, its first k trees dropped, add_tree one by one

Sources that yield NO tree are generated in every position (NEXUS: TAXA block only, empty TREES
block, bare `#NEXUS`; sources with fewer trees than the burn-in; NEXUS sources with two TREES
blocks: the burn-in counts per source, not per block).  An empty Newick file is refused by the
reader in every route (UnexpectedEndOfStreamError), so Newick sources always hold >= 1 tree.

Model side (coq/Model/C06Read.v): the burn-in counter loop of read_from_files run on the sequence
of (file index, tree) pairs the yielder really delivered must reproduce the serial array exactly,
and so must add_all over the per-source lists with their first k trees dropped.
"""
import hashlib
import os
import random
import shutil
import time

from dv import core, trees
from dv.core import cz, cbool, clist, copt, cnat

SCRATCH = "/var/tmp/dv-C06"
HEADER = ("From DV Require Import Model.PyPrims Model.C06Model Model.C06Read.\n"
          "From Coq Require Import ZArith. Open Scope Z_scope.")

ZERO_FORMS = ("taxa-only", "empty-block", "bare")
SEQ_ENTRIES = ("read_from_path", "read", "read_from_stream", "read_from_string", "read_from_files")


# ----------------------------------------------------------------------------
# generation
# ----------------------------------------------------------------------------

def gen_case(rng, idx, shape=None):
    from dv import c06
    ntax = rng.randint(4, 6)
    schema = rng.choice(["nexus", "nexus", "nexus", "newick"])
    token = rng.choice(["[&R] ", "[&U] ", ""])
    use_w = rng.random() < 0.3
    n_distinct = rng.randint(1, 3)
    pool = c06.gen_tree_pool(rng, ntax, False, n_distinct)
    nsrc = rng.choice([1, 2, 2, 3, 3, 3, 4, 4, 5])
    offset = rng.choice([0, 1, 1, 2, 2, 3])
    sources = []
    for s in range(nsrc):
        if schema == "nexus" and rng.random() < 0.3:
            form = rng.choice(ZERO_FORMS)
            n = 0
        else:
            form = "two-blocks" if (schema == "nexus" and rng.random() < 0.15) else "trees"
            n = rng.choice([1, 1, 2, 3, 3, 4, 5])
            if form == "two-blocks":
                n = max(n, 2)
        occ = [{"tree": rng.randrange(n_distinct), "weight": rng.choice([512, 1024, 2048, 3072]) if use_w else None}
               for _ in range(n)]
        sources.append({"form": form, "trees": occ, "cut": rng.randint(1, n - 1) if form == "two-blocks" else None,
                        "as_file_object": rng.random() < 0.25,
                        "seq_entry": rng.choice(SEQ_ENTRIES)})
    arrivals = []
    for _ in range(2):
        p = list(range(nsrc))
        rng.shuffle(p)
        arrivals.append(p)
    ctor = {"[&R] ": True, "[&U] ": False, "": None}[token] if rng.random() < 0.3 else None
    return {"kind": "readfiles", "id": idx, "ntax": ntax, "schema": schema, "token": token, "use_w": use_w, "pool": pool,
            "sources": sources, "offset": offset, "arrivals": arrivals,
            "merge_op": rng.choice(["update", "update", "extend", "iadd"]), "ctor_rooting": ctor}


def exhaustive_cases():
    """three NEXUS sources of 3 trees each, every subset of them replaced by a source without trees (each
    zero-tree form), burn-in 0..3"""
    import itertools
    from dv import c06
    pool = [c06._quartet(0, 1, 2, 3, 1024), c06._quartet(0, 2, 1, 3, 512), c06._quartet(0, 3, 1, 2, 256)]
    k = 0
    for offset in (0, 1, 2, 3):
        for forms in itertools.product(("trees",) + ZERO_FORMS, repeat=3):
            sources = []
            for s, form in enumerate(forms):
                occ = [] if form != "trees" else [{"tree": (s + j) % 3, "weight": None} for j in range(3)]
                sources.append({"form": form, "trees": occ, "cut": None, "as_file_object": False, "seq_entry": SEQ_ENTRIES[s]})
            yield {"kind": "readfiles", "id": "x%d" % k, "ntax": 4, "schema": "nexus", "token": "[&R] ", "use_w": False,
                   "pool": pool, "sources": sources, "offset": offset, "arrivals": [[2, 0, 1], [1, 2, 0]],
                   "merge_op": "update", "ctor_rooting": None}
            k += 1


# ----------------------------------------------------------------------------
# files
# ----------------------------------------------------------------------------

def tree_string(case, occ):
    w = "" if occ["weight"] is None else "[&W %r] " % (occ["weight"] * trees.UNIT)
    return case["token"] + w + trees.newick(case["pool"][occ["tree"]])


def source_text(case, src):
    if case["schema"] == "newick":
        return "".join(tree_string(case, o) + "\n" for o in src["trees"])
    ntax = case["ntax"]
    taxa = "BEGIN TAXA;\n  DIMENSIONS NTAX=%d;\n  TAXLABELS %s;\nEND;\n" % (ntax, " ".join("t%d" % i for i in range(ntax)))

    def block(occs, start):
        lines = ["BEGIN TREES;"]
        for j, o in enumerate(occs):
            lines.append("  TREE tr%d = %s" % (start + j, tree_string(case, o)))
        lines.append("END;")
        return "\n".join(lines) + "\n"
    form = src["form"]
    if form == "bare":
        return "#NEXUS\n"
    if form == "taxa-only":
        return "#NEXUS\n" + taxa
    if form == "empty-block":
        return "#NEXUS\n" + taxa + "BEGIN TREES;\nEND;\n"
    if form == "two-blocks":
        c = src["cut"]
        return "#NEXUS\n" + taxa + block(src["trees"][:c], 0) + block(src["trees"][c:], c)
    return "#NEXUS\n" + taxa + block(src["trees"], 0)


def write_sources(case, d):
    paths = []
    for i, src in enumerate(case["sources"]):
        p = os.path.join(d, "s%d.%s" % (i, "nex" if case["schema"] == "nexus" else "tre"))
        with open(p, "w") as fh:
            fh.write(source_text(case, src))
        paths.append(p)
    return paths


# ----------------------------------------------------------------------------
# running the real library
# ----------------------------------------------------------------------------

class Env:
    def __init__(self, case):
        import dendropy
        self.dp = dendropy
        self.case = case
        self.ns, self.taxa = trees.make_namespace(case["ntax"])
        self.ns.is_mutable = False
        self.kw = {"store_tree_weights": True} if case["use_w"] else {}

    def array(self):
        return self.dp.TreeArray(taxon_namespace=self.ns, is_rooted_trees=self.case["ctor_rooting"],
                                 ignore_edge_lengths=False, ignore_node_ages=True, use_tree_weights=self.case["use_w"])


def route(fn):
    """run one route: the canonical dump of the array it returns, or the exception"""
    from dv import c06
    try:
        with core.alarm(60):
            ta = fn()
        return {"error": None, "state": c06.dump_state(ta), "summary": summary(ta)}
    except Exception as e:
        return {"error": c06.err_name(e), "error_text": "%s: %s" % (type(e).__name__, str(e)[:300])}


def summary(ta):
    from dv import c06_sumtrees
    return c06_sumtrees.summary_of(ta)


def per_source_trees(E, path):
    """the trees of ONE source, read on its own by the plain yielder (no burn-in logic involved)"""
    return list(E.dp.Tree.yield_from_files([path], schema=E.case["schema"], taxon_namespace=E.ns, **E.kw))


def record_of(E, t):
    from dv import c06
    seen = t.is_rooted
    weight = None if t.weight is None else c06.units(float(t.weight))
    ta = E.dp.TreeArray(taxon_namespace=E.ns, ignore_edge_lengths=False, ignore_node_ages=True, use_tree_weights=True)
    ta.add_tree(t)
    n = len(ta._tree_split_bitmasks[0])
    return {"splits": list(ta._tree_split_bitmasks[0]), "elens": [c06.units(x) for x in ta._tree_edge_lengths[0]],
            "leafset": ta._tree_leafset_bitmasks[0], "weight": weight, "rooting": seen, "ages_ok": True, "ages": [None] * n}


def observe(case):
    d = os.path.join(SCRATCH, "rf-%d-%s" % (os.getpid(), case["id"]))
    shutil.rmtree(d, ignore_errors=True)
    os.makedirs(d)
    try:
        return _observe(case, d)
    finally:
        shutil.rmtree(d, ignore_errors=True)


def _observe(case, d):
    from dendropy.application import sumtrees
    E = Env(case)
    paths = write_sources(case, d)
    schema, off = case["schema"], case["offset"]
    obs = {"routes": {}}
    # what every source holds (records of ALL its trees, burn-in ones included)
    try:
        obs["records"] = [[record_of(E, t) for t in per_source_trees(E, p)] for p in paths]
    except Exception as e:
        obs["records_error"] = "%s: %s" % (type(e).__name__, str(e)[:300])
        return obs
    # what the multi-source yielder delivers: (file index, position of the tree in its source)
    y = E.dp.Tree.yield_from_files(list(paths), schema=schema, taxon_namespace=E.ns, **E.kw)
    yielded, seen = [], {}
    for _t in y:
        fi = y.current_file_index
        yielded.append([fi, seen.get(fi, 0)])
        seen[fi] = seen.get(fi, 0) + 1
    obs["yielded"] = yielded

    opened = []

    def src_arg(i):
        if case["sources"][i]["as_file_object"]:
            fh = open(paths[i])
            opened.append(fh)
            return fh
        return paths[i]

    def serial():
        ta = E.array()
        ta.read_from_files(files=[src_arg(i) for i in range(len(paths))], schema=schema, tree_offset=off, **E.kw)
        return ta

    def read_one(ta, i):
        how = case["sources"][i]["seq_entry"]
        p = paths[i]
        if how == "read_from_path":
            ta.read_from_path(p, schema, tree_offset=off, **E.kw)
        elif how == "read":
            ta.read(path=p, schema=schema, tree_offset=off, **E.kw)
        elif how == "read_from_stream":
            with open(p) as fh:
                ta.read_from_stream(fh, schema, tree_offset=off, **E.kw)
        elif how == "read_from_string":
            ta.read_from_string(open(p).read(), schema, tree_offset=off, **E.kw)
        else:
            ta.read_from_files(files=[p], schema=schema, tree_offset=off, **E.kw)

    def sequential():
        ta = E.array()
        for i in range(len(paths)):
            read_one(ta, i)
        return ta

    def merged(order):
        def go():
            parts = []
            for i in range(len(paths)):
                part = E.array()
                read_one(part, i)
                parts.append(part)
            master = E.array()
            for i in order:
                if case["merge_op"] == "update":
                    master.update(parts[i])
                elif case["merge_op"] == "extend":
                    master.extend(parts[i])
                else:
                    master += parts[i]
            return master
        return go

    def naive():
        ta = E.array()
        for p in paths:
            for t in per_source_trees(E, p)[off:]:
                ta.add_tree(t)
        return ta

    def st(log_frequency):
        def go():
            tp = sumtrees.TreeProcessor(is_source_trees_rooted=case["ctor_rooting"], ignore_edge_lengths=False,
                                        ignore_node_ages=True, use_tree_weights=case["use_w"], ultrametricity_precision=1e-5,
                                        taxon_label_age_map=None, num_processes=1, log_frequency=log_frequency,
                                        messenger=None, debug_mode=True)
            return tp.analyze_trees(tree_sources=list(paths), schema=schema, taxon_namespace=E.ns, tree_offset=off)
        return go
    try:
        R = obs["routes"]
        R["serial"] = route(serial)
        R["sequential"] = route(sequential)
        for j, order in enumerate(case["arrivals"]):
            R["merged/%d" % j] = route(merged(order))
        R["naive"] = route(naive)
        R["sumtrees-quiet"] = route(st(0))
        R["sumtrees-logging"] = route(st(2))
    finally:
        for fh in opened:
            fh.close()
    return obs


# ----------------------------------------------------------------------------
# oracle: every route = the naive definition (drop the first k trees of EACH source, pool the rest)
# ----------------------------------------------------------------------------

def kept_records(case, obs):
    off = case["offset"]
    return [r for src in obs["records"] for r in src[off:]]


def oracle_all(case, obs):
    from dv import c06
    found = []
    if "records_error" in obs:
        return found          # a source the reader refuses on its own: nothing to compare (parsing is C02/C13 territory)
    off = case["offset"]
    # the harness's own reading of the files must be the trees that were written
    for i, (src, recs) in enumerate(zip(case["sources"], obs["records"])):
        if len(recs) != len(src["trees"]):
            found.append(("source %d (%s): %d trees written, the plain yielder delivers %d" % (i, src["form"], len(src["trees"]), len(recs)),
                          "readfiles-yielder-tree-count"))
            return found
    kept = kept_records(case, obs)
    flags = [False, True, case["use_w"]]
    exp = c06.pooled(kept, flags)
    sizes = [len(s["trees"]) for s in case["sources"]]
    ctx_txt = "%s sources of %s trees (%s), tree_offset=%d" % (case["schema"], sizes, [s["form"] for s in case["sources"]], off)
    rootings = {r["rooting"] for r in kept}
    expect_ok = len(rootings) <= 1
    for name, r in obs["routes"].items():
        rk = name.split("/")[0]
        if r["error"] is not None:
            if expect_ok:
                found.append(("%s: route %s raises %s" % (ctx_txt, name, r["error_text"]), "readfiles-raises:%s" % rk))
            continue
        st_ = r["state"]
        if len(st_["splits"]) != len(kept):
            found.append(("%s: route %s holds %d trees; dropping the first %d trees of EACH source leaves %d"
                          % (ctx_txt, name, len(st_["splits"]), off, len(kept)), "readfiles-burnin-per-source:%s" % rk))
            continue
        v = c06.compare_pooled(st_, exp, "%s: route %s" % (ctx_txt, name))
        if v:
            found.append((v[0], "readfiles-%s:%s" % (v[1], rk)))
    # route against route: serial pass == merged sub-collections (summary tree, supports, MCC)
    ser = obs["routes"].get("serial")
    if ser and ser["error"] is None:
        for name, r in obs["routes"].items():
            if name == "serial" or r["error"] is not None:
                continue
            rk = name.split("/")[0]
            a, b = r["summary"], ser["summary"]
            bad = False
            for fld in ("counts", "sel", "total", "sumw"):
                if r["state"][fld] != ser["state"][fld]:
                    found.append(("%s: %s of route %s differs from the serial read_from_files pass" % (ctx_txt, fld, name),
                                  "readfiles-serial-vs-%s:%s" % (rk, fld)))
                    bad = True
                    break
            if bad:
                continue
            for fld in ("consensus", "consensus_rooted", "consensus_error", "mcc_error"):
                if a.get(fld) != b.get(fld):
                    found.append(("%s: %s of route %s differs from the serial pass: %s vs %s"
                                  % (ctx_txt, fld, name, str(a.get(fld))[:160], str(b.get(fld))[:160]),
                                  "readfiles-serial-vs-%s:%s" % (rk, fld)))
            if "mcc_score" in a and "mcc_score" in b:
                if abs(a["mcc_score"] - b["mcc_score"]) > 1e-9 * max(1.0, abs(b["mcc_score"])):
                    found.append(("%s: maximum credibility score of route %s is %r, serial pass %r"
                                  % (ctx_txt, name, a["mcc_score"], b["mcc_score"]), "readfiles-serial-vs-%s:mcc-score" % rk))
                elif b.get("mcc_unique") and a.get("mcc_splits") != b.get("mcc_splits"):
                    found.append(("%s: maximum credibility topology of route %s differs from the serial pass" % (ctx_txt, name),
                                  "readfiles-serial-vs-%s:mcc-topology" % rk))
    return found


def oracle(case, obs):
    from dv import c06
    return c06.pick(oracle_all(case, obs))


# ----------------------------------------------------------------------------
# Coq terms
# ----------------------------------------------------------------------------

def to_coq(case, obs):
    from dv import c06
    lets, names = [], []
    for i, src in enumerate(obs["records"]):
        row = []
        for j, r in enumerate(src):
            nm = "r%d_%d" % (i, j)
            lets.append("let %s := %s in" % (nm, c06.c_trec(r)))
            row.append(nm)
        names.append(row)
    cfg = "(mkCfg %s %s %s %s)" % (copt(case["ctor_rooting"], cbool), cbool(False), cbool(True), cbool(case["use_w"]))
    yielded = clist(["(%s, %s)" % (cz(fi), names[fi][k]) for fi, k in obs["yielded"]])
    sources = clist([clist(row) for row in names])
    return "(%s mkRfCase %s %s %s %s %s %s)" % (" ".join(lets), cfg, cz(case["offset"]), yielded, sources,
                                                  c06.c_est(obs["routes"]["serial"]["state"]),
                                                  c06.c_est(obs["routes"]["naive"]["state"]))


def modelable(case, obs):
    if "records_error" in obs or "yielded" not in obs:
        return False
    for fi, k in obs["yielded"]:
        if not (0 <= fi < len(obs["records"]) and k < len(obs["records"][fi])):
            return False
    return all(obs["routes"].get(n, {}).get("error", 1) is None for n in ("serial", "naive"))


def nontrivial(case, obs):
    if "records" not in obs:
        return False
    return len(case["sources"]) >= 2 and len(kept_records(case, obs)) >= 1


def sample_fn(case, obs):
    return {"kind": "readfiles", "schema": case["schema"], "forms": [s["form"] for s in case["sources"]],
            "trees_per_source": [len(s["trees"]) for s in case["sources"]], "tree_offset": case["offset"],
            "merge_op": case["merge_op"], "arrivals": case["arrivals"],
            "trees_in_routes": {n: (len(r["state"]["splits"]) if r["error"] is None else r["error"]) for n, r in obs.get("routes", {}).items()}}


def slim(obs):
    out = {"yielded": obs.get("yielded"), "records_error": obs.get("records_error"),
           "trees_per_source_read": [len(s) for s in obs.get("records", [])]}
    out["routes"] = {n: ({"trees": len(r["state"]["splits"]), "total": r["state"]["total"], "counts": r["state"]["counts"]}
                         if r["error"] is None else {"error": r["error_text"]}) for n, r in obs.get("routes", {}).items()}
    return out


def count_case(ctx, case):
    ctx.count("readfiles:schema:" + case["schema"])
    ctx.count("readfiles:sources:%d" % len(case["sources"]))
    ctx.count("readfiles:tree_offset:%d" % case["offset"])
    ctx.count("readfiles:merge_op:" + case["merge_op"])
    zero_pos = [i for i, s in enumerate(case["sources"]) if not s["trees"]]
    n = len(case["sources"])
    for i, s in enumerate(case["sources"]):
        ctx.count("readfiles:source-form:" + s["form"])
        if not s["trees"]:
            ctx.count("readfiles:zero-tree-source-position:" + ("only" if n == 1 else "first" if i == 0 else "last" if i == n - 1 else "middle"))
        elif len(s["trees"]) <= case["offset"]:
            ctx.count("readfiles:source-shorter-than-burnin")
    if zero_pos and case["offset"] > 0 and any(i > z for z in zero_pos for i in range(n) if case["sources"][i]["trees"]):
        ctx.count("readfiles:burnin-with-tree-less-source-before-a-source-with-trees")


def search(ctx, budget_s, rng=None):
    """further cases of this shape through the oracle only"""
    t0 = time.time()
    rng = rng or random.Random(ctx.seed + 60603)
    n = 0
    os.makedirs(SCRATCH, exist_ok=True)
    while time.time() - t0 < budget_s and n < 5000:
        case = gen_case(rng, "srch%d" % n)
        obs = observe(case)
        n += 1
        for v in oracle_all(case, obs):
            ctx.violation(v[0], {"case": case, "observed": slim(obs)}, key=v[1])
        if ctx.violations:
            return
    ctx.notes.append("search: %d further multi-source burn-in cases through the oracle, no unlisted violation" % n)


def stage(ctx, tier):
    os.makedirs(SCRATCH, exist_ok=True)
    rng = random.Random(ctx.rng.getrandbits(48))
    n = 110 if tier == "quick" else 1500
    cases = [gen_case(rng, i) for i in range(n)]
    if tier != "quick":
        cases.extend(exhaustive_cases())
    terms = []
    t0 = time.time()
    explained = set()
    kept = []
    for c in cases:
        count_case(ctx, c)
        try:
            obs = observe(c)
        except Exception as e:
            import traceback
            ctx.violation("harness could not run the multi-source read on a case: %s: %s" % (type(e).__name__, e),
                          {"case": c, "traceback": traceback.format_exc()[-1500:]}, no_input=True)
            continue
        ctx.evaluations += 1
        if nontrivial(c, obs):
            ctx.distinct.add(hashlib.sha1(core.canon(c).encode()).hexdigest())
        if "records_error" in obs:
            ctx.count("readfiles:source-refused-by-reader")
        hit = False
        for v in oracle_all(c, obs):
            ctx.violation(v[0], {"case": c, "observed": slim(obs)}, key=v[1])
            hit = True
        if len([s for s in ctx.samples if s.get("kind") == "readfiles"]) < 3:
            ctx.samples.append(sample_fn(c, obs))
        if modelable(c, obs):
            if hit:
                explained.add(len(terms))
            terms.append(to_coq(c, obs))
            kept.append((c, obs))
    ctx.notes.append("readfiles: %d multi-source burn-in cases (7 routes each), %.1fs; %d handed to the model"
                     % (len(cases), time.time() - t0, len(terms)))
    if terms:
        vu = getattr(ctx, "variants", (False, False))[0]
        bad, errors = core.run_cases(ctx.pid, HEADER, "(rfcase_ok_v %s)" % cbool(vu), terms, shard=(30 if tier == "quick" else 120), tag="_rdfl")
        ctx.obligation("readfiles: model evaluates all %d cases (vm_compute)" % len(terms), not errors)
        for e in errors:
            ctx.notes.append(e[:1500])
        ctx.obligation("readfiles: burn-in loop of the model on the yielder's (file index, tree) sequence = serial array; "
                       "add_all over the per-source lists minus their first k trees = serial and naive arrays (%d cases)" % len(terms),
                       not errors and not bad)
        unexplained = [i for i in bad if i not in explained]
        if bad and not unexplained:
            ctx.notes.append("readfiles: %d model/implementation disagreements, all on cases where the oracle reported a violation" % len(bad))
        if errors or unexplained:
            before = len(ctx.violations)
            search(ctx, 40 if tier == "quick" else 300, rng=random.Random(ctx.seed + 7))
            if len(ctx.violations) == before:
                c, obs = kept[unexplained[0]] if unexplained else (None, None)
                ctx.violation("readfiles: model and implementation disagree on %d case(s) (or the model could not be evaluated); "
                              "the oracle found no failing input" % (len(unexplained) or len(errors)),
                              {"first_disagreeing_case": c, "observed": slim(obs) if obs else None,
                               "errors": [e[:800] for e in errors]}, no_input=True)
