"""Shared machinery for the DendroPy Coq verification checks.

Every property module (dv/cXX.py) builds a `Prop` description and hands it to
`run_check`.  The flow is the one of DESIGN.md section 2:

  1. regenerate coq/Gen from /repo/src (translator, fail closed)
  2. make the property's Coq cone (full .vo build)
  3. compile Props/Cxx.v, parse every `Print Assumptions`, compare with allow-list
  4. correspondence: implementation observations vs. the Coq model (vm_compute)
     + the property's oracle on every implementation observation
  5. on any break: search for a failing input, print VIOLATION lines
"""
import fcntl
import hashlib
import json
import os
import random
import re
import subprocess
import sys
import time
import traceback
from concurrent.futures import ThreadPoolExecutor

ROOT = os.path.dirname(os.path.dirname(os.path.dirname(os.path.abspath(__file__))))
REPO = os.environ.get("DV_REPO", "/repo")
COQ = os.path.join(ROOT, "coq")
CASES = os.path.join(COQ, "cases")
EVID = os.path.join(ROOT, "evidence")
REPLAY = os.path.join(ROOT, "replay")
KNOWN = os.path.join(ROOT, "known_findings.txt")

FORBIDDEN = re.compile(
    r"\b(Admitted|admit|Axiom|Axioms|Parameter|Parameters|Conjecture|Admit Obligations)\b"
    r"|Unset\s+Guard|bypass_check|type-in-type|impredicative-set|Unset\s+Universe\s+Checking"
    r"|Unset\s+Positivity")

# axioms of the Coq standard library that a property may rely on when it says so
STDLIB_AXIOMS = {
    "ClassicalDedekindReals.sig_forall_dec",
    "ClassicalDedekindReals.sig_not_dec",
    "FunctionalExtensionality.functional_extensionality_dep",
    "functional_extensionality_dep",
    "sig_forall_dec", "sig_not_dec",
    "Classical_Prop.classic", "classic",
    "Eqdep.Eq_rect_eq.eq_rect_eq", "JMeq.JMeq_eq",
    "ProofIrrelevance.proof_irrelevance",
}


def sh(cmd, timeout=900, cwd=None, env=None):
    """Run a shell command, return (rc, combined output). Never raises on timeout."""
    try:
        p = subprocess.run(cmd, shell=True, cwd=cwd, env=env, timeout=timeout,
                           stdout=subprocess.PIPE, stderr=subprocess.STDOUT, text=True)
        return p.returncode, p.stdout
    except subprocess.TimeoutExpired as e:
        out = e.stdout or ""
        if isinstance(out, bytes):
            out = out.decode("utf8", "replace")
        return 124, out + "\n[timeout after %ss]" % timeout


# ----------------------------------------------------------------------------
# Coq text helpers
# ----------------------------------------------------------------------------

def cz(i):
    """Coq Z literal"""
    i = int(i)
    return "(%d)%%Z" % i if i < 0 else "%d%%Z" % i


def cn(i):
    return "%d%%N" % int(i)


def cnat(i):
    return "%d%%nat" % int(i)


def cbool(b):
    return "true" if b else "false"


def clist(items):
    return "[" + "; ".join(items) + "]"


def copt(x, f=lambda s: s):
    return "None" if x is None else "(Some %s)" % f(x)


def cpair(a, b):
    return "(%s, %s)" % (a, b)


def cstr_codes(s):
    """Python str -> Coq list of code points (list Z)"""
    return clist([cz(ord(ch)) for ch in s])


def cq(fr):
    """fractions.Fraction -> Coq Q literal (num # den)"""
    from fractions import Fraction
    fr = Fraction(fr)
    return "(%s # %d)%%Q" % (("(%d)" % fr.numerator) if fr.numerator < 0 else str(fr.numerator),
                             fr.denominator)


# ----------------------------------------------------------------------------
# Build
# ----------------------------------------------------------------------------

class Lock:
    def __enter__(self):
        os.makedirs(COQ, exist_ok=True)
        self.f = open(os.path.join(COQ, ".lock"), "w")
        fcntl.flock(self.f, fcntl.LOCK_EX)
        return self

    def __exit__(self, *a):
        fcntl.flock(self.f, fcntl.LOCK_UN)
        self.f.close()


def write_if_changed(path, text):
    try:
        with open(path) as f:
            if f.read() == text:
                return False
    except FileNotFoundError:
        pass
    os.makedirs(os.path.dirname(path), exist_ok=True)
    with open(path, "w") as f:
        f.write(text)
    return True


def coq_sources():
    out = []
    for d in ("Gen", "Model", "Proofs", "Props"):
        p = os.path.join(COQ, d)
        if os.path.isdir(p):
            for fn in sorted(os.listdir(p)):
                if fn.endswith(".v"):
                    out.append("%s/%s" % (d, fn))
    return out


def refresh_coqproject():
    txt = "-Q . DV\n-arg -w -arg -notation-overridden,-deprecated-hint-without-locality,-deprecated-instance-without-locality\n" \
        + "\n".join(coq_sources()) + "\n"
    changed = write_if_changed(os.path.join(COQ, "_CoqProject"), txt)
    if changed or not os.path.exists(os.path.join(COQ, "Makefile.coq")):
        rc, out = sh("coq_makefile -f _CoqProject -o Makefile.coq", cwd=COQ, timeout=120)
        if rc != 0:
            raise RuntimeError("coq_makefile failed: " + out)


def regenerate_gen():
    """Run the translator. Returns (ok, list of (genfile, error)) - fail closed."""
    from dv import py2coq
    return py2coq.regenerate(REPO, os.path.join(COQ, "Gen"))


def coq_make(targets, timeout=3000, jobs=16, regenerate=False):
    """make the given .vo targets (relative to coq/). Returns (ok, log).

    regenerate=True re-runs the translators under the same lock hold, so that a concurrent check
    working on another source tree (DV_REPO) cannot swap coq/Gen between regeneration and build."""
    with Lock():
        if regenerate:
            regenerate_gen()
        refresh_coqproject()
        rc, out = sh("timeout %d make -f Makefile.coq -j%d %s" % (timeout, jobs, " ".join(targets)),
                     cwd=COQ, timeout=timeout + 30)
    return rc == 0, out


def failing_file(log):
    m = re.search(r'File "\./([^"]+)", line (\d+)', log)
    if m:
        return "%s:%s" % (m.group(1), m.group(2))
    m = re.search(r"\*\*\* \[([^\]]+)\]", log)
    return m.group(1) if m else "unknown"


def forbidden_scan(pid=None):
    """grep gate over the Coq sources (comments stripped).

    Files named C<nn>*.v belong to one property; all other files are shared.  The gate for
    property `pid` covers the shared files and that property's own files (pid None: everything)."""
    hits = []
    for rel in coq_sources():
        base = os.path.basename(rel)
        m = re.match(r"(C\d\d)", base)
        if pid and m and m.group(1) != pid:
            continue
        with open(os.path.join(COQ, rel)) as f:
            src = f.read()
        src = strip_coq_comments(src)
        for i, line in enumerate(src.split("\n"), 1):
            if FORBIDDEN.search(line):
                hits.append("%s:%d: %s" % (rel, i, line.strip()))
    return hits


def strip_coq_comments(src):
    out = []
    depth = 0
    i = 0
    n = len(src)
    instr = False
    while i < n:
        if depth == 0 and src[i] == '"':
            instr = not instr
            out.append(src[i]); i += 1; continue
        if not instr and src.startswith("(*", i):
            depth += 1; i += 2; continue
        if not instr and depth > 0 and src.startswith("*)", i):
            depth -= 1; i += 2; continue
        if depth == 0:
            out.append(src[i])
        elif src[i] == "\n":
            out.append("\n")
        i += 1
    return "".join(out)


def props_check(pid, props_file=None):
    """Compile Props/<pid>.v directly and parse Print Assumptions.

    returns dict(ok, theorems=[names], assumptions={name: [axioms]}, log)
    """
    rel = props_file or ("Props/%s.v" % pid)
    path = os.path.join(COQ, rel)
    with open(path) as f:
        src = strip_coq_comments(f.read())
    theorems = re.findall(r"^\s*(?:Theorem|Corollary)\s+([A-Za-z0-9_']+)", src, re.M)
    printed = re.findall(r"Print\s+Assumptions\s+([A-Za-z0-9_'.]+)\s*\.", src)
    with Lock():
        rc, out = sh("timeout 600 coqc -Q . DV -w -notation-overridden,-deprecated-hint-without-locality,-deprecated-instance-without-locality %s" % rel, cwd=COQ, timeout=630)
    res = {"ok": rc == 0, "theorems": theorems, "printed": printed, "assumptions": {}, "log": out}
    if rc != 0:
        return res
    blocks = []
    cur = None
    for line in out.split("\n"):
        if line.startswith("Closed under the global context"):
            blocks.append([]); cur = None
        elif line.startswith("Axioms:"):
            cur = []; blocks.append(cur)
        elif cur is not None:
            m = re.match(r"^([A-Za-z_][A-Za-z0-9_.']*)\s*(:|$)", line)
            if m:
                cur.append(m.group(1))
            elif line and not line[0].isspace():
                cur = None
    if len(blocks) != len(printed):
        res["ok"] = False
        res["log"] += "\n[Print Assumptions blocks %d != statements %d]" % (len(blocks), len(printed))
        return res
    for name, ax in zip(printed, blocks):
        res["assumptions"][name] = ax
    missing = [t for t in theorems if t not in printed]
    res["unprinted"] = missing
    return res


# ----------------------------------------------------------------------------
# cases.v evaluation
# ----------------------------------------------------------------------------

def _write_case_file(name, header, terms, tail):
    os.makedirs(CASES, exist_ok=True)
    body = [header, "From Coq Require Import List. Import ListNotations.",
            "Definition dv_cases := [", ";\n".join("  " + t for t in terms), "].",
            "Fixpoint dv_bad {A} (f : A -> bool) (l : list A) (i : nat) : list nat :="
            " match l with [] => [] | x :: r => if f x then dv_bad f r (S i) else i :: dv_bad f r (S i) end."]
    body.extend(tail)
    with open(os.path.join(CASES, name + ".v"), "w") as f:
        f.write("\n".join(body) + "\n")


def _coqc_case(name, timeout):
    return sh("ulimit -s unlimited 2>/dev/null; timeout %d coqc -Q . DV -w none cases/%s.v"
              % (timeout, name), cwd=COQ, timeout=timeout + 20)


def header_targets(header):
    """.vo targets of the DV modules a cases.v header imports (so a clean checkout builds them:
    the case/model file of a property is usually not in the cone of its Props file)."""
    out = []
    txt = strip_coq_comments(header)
    for m in re.finditer(r"(From\s+DV\s+)?Require\s+(?:Import|Export)\s+", txt):
        rest = txt[m.end():]
        e = re.search(r"\.(\s|$)", rest)
        sentence = rest[:e.start()] if e else rest
        for mod in sentence.split():
            if m.group(1):
                out.append(mod.replace(".", "/") + ".vo")
            elif mod.startswith("DV."):
                out.append(mod[3:].replace(".", "/") + ".vo")
    res = []
    for t in out:
        if t not in res and os.path.exists(os.path.join(COQ, t[:-1])):
            res.append(t)
    return res


def run_cases(pid, header, check_fn, case_terms, shard=250, timeout=900, tag=""):
    """Evaluate the model's `check_fn : case -> bool` on each Coq case term (vm_compute).

    Returns (bad_global_indices, errors)."""
    tg = header_targets(header)
    if tg:
        ok, log = coq_make(tg)
        if not ok:
            return [], ["building the modules imported by the cases header failed (%s): %s"
                        % (failing_file(log), log[-1500:])]
    shards = [case_terms[i:i + shard] for i in range(0, len(case_terms), shard)]
    jobs = []
    for k, terms in enumerate(shards):
        name = "%s%s_%d" % (pid, tag, k)
        _write_case_file(name, header, terms,
                         ["Definition dv_result := dv_bad (%s) dv_cases 0." % check_fn,
                          "Eval vm_compute in (length dv_cases, dv_result)."])
        jobs.append((k, name))

    def one(job):
        k, name = job
        rc, out = _coqc_case(name, timeout)
        return k, rc, out

    bad = []
    errors = []
    with ThreadPoolExecutor(max_workers=8) as ex:
        for k, rc, out in ex.map(one, jobs):
            if rc != 0:
                errors.append("shard %d: rc=%d %s" % (k, rc, out[-3000:]))
                continue
            flat = " ".join(out.split()).replace("%nat", "")
            m = re.search(r"= \((\d+), \[(.*?)\]\) : nat \* list nat", flat)
            if not m:
                errors.append("shard %d: cannot parse %s" % (k, flat[:500]))
                continue
            if int(m.group(1)) != len(shards[k]):
                errors.append("shard %d: length mismatch" % k)
            for x in m.group(2).split(";"):
                if x.strip():
                    bad.append(k * shard + int(x))
    return sorted(bad), errors


def show_cases(pid, header, show_fn, case_terms, timeout=300, tag="_show"):
    """Print what the model computes for the given case terms (diagnostics for replays)."""
    name = "%s%s" % (pid, tag)
    _write_case_file(name, header, case_terms, ["Eval vm_compute in (map (%s) dv_cases)." % show_fn])
    rc, out = _coqc_case(name, timeout)
    return " ".join(out.split())[:6000]


# ----------------------------------------------------------------------------
# Known findings
# ----------------------------------------------------------------------------

def load_known(pid):
    """returns dict key -> description for `finding:` lines of this property."""
    res = {}
    try:
        with open(KNOWN) as f:
            for line in f:
                line = line.strip()
                m = re.match(r"finding:\s+property=(\S+)\s+key=(\S+)\s+(.*)", line)
                if m and m.group(1) == pid:
                    res[m.group(2)] = m.group(3)
    except FileNotFoundError:
        pass
    return res


# ----------------------------------------------------------------------------
# The check driver
# ----------------------------------------------------------------------------

class Ctx:
    def __init__(self, pid, tier, seed):
        self.pid = pid
        self.tier = tier
        self.seed = seed
        self.rng = random.Random(seed * 1000003 + int(hashlib.sha1(pid.encode()).hexdigest()[:6], 16))
        self.t0 = time.time()
        self.violations = []       # list of (replay_path, text, no_input)
        self.known_hits = {}       # key -> description
        self.violation_keys = set()
        self.suppressed_same_key = 0
        self.known = load_known(pid)
        self.notes = []
        self.coverage = {}
        self.assumptions = []
        self.obligations = []      # (name, discharged bool)
        self.trusted = []
        self.samples = []
        self.evaluations = 0
        self.distinct = set()
        self.dist = {}

    # --- reporting -------------------------------------------------------
    def count(self, key, n=1):
        self.dist[key] = self.dist.get(key, 0) + n

    def replay_path(self, tag):
        os.makedirs(os.path.join(REPLAY, self.pid), exist_ok=True)
        h = hashlib.sha1(tag.encode()).hexdigest()[:10]
        return os.path.join(REPLAY, self.pid, "%s_%s.json" % (self.tier, h))

    def violation(self, what, replay_obj, key=None, no_input=False):
        """Report a property violation (or a broken obligation with no failing input)."""
        if key is not None and key in self.known and not no_input:
            if key not in self.known_hits:
                self.known_hits[key] = self.known[key]
            return False
        for (_p, w, _n) in self.violations:
            if w == what:
                return True
        if key is not None:
            if key in self.violation_keys:
                self.suppressed_same_key += 1
                return True
            self.violation_keys.add(key)
        path = self.replay_path(what + json.dumps(replay_obj, sort_keys=True, default=str)[:2000])
        with open(path, "w") as f:
            json.dump({"property": self.pid, "what": what, "key": key,
                       "no_failing_input_found": no_input, "replay": replay_obj,
                       "how_to_replay": "./check %s --replay %s" % (self.pid, path)},
                      f, indent=1, default=str)
        self.violations.append((path, what, no_input))
        return True

    def obligation(self, name, ok):
        self.obligations.append((name, bool(ok)))

    def finish(self, level="proof", rule="", checker_cmd="", extra=None):
        und = [n for n, ok in self.obligations if not ok]
        if und and not self.violations:
            # an obligation that is not discharged means the property is no longer shown to hold
            self.violation("obligations not discharged: %s" % "; ".join(und)[:600],
                           {"undischarged": und, "notes": self.notes}, no_input=True)
        for key, desc in sorted(self.known_hits.items()):
            print("KNOWN-FINDING: property=%s %s %s" % (self.pid, key, desc))
        cov = {
            "obligations": len(self.obligations),
            "discharged": sum(1 for _n, ok in self.obligations if ok),
            "obligation_names": [n for n, _ok in self.obligations],
            "undischarged": [n for n, ok in self.obligations if not ok],
            "checker_cmd": checker_cmd or "coqc (Coq 8.16.1) full .vo build of coq/Props/%s.v and its dependencies; Print Assumptions under every theorem" % self.pid,
            "trusted_base": sorted(set(self.trusted)),
            "evaluations": self.evaluations,
            "distinct_nontrivial": len(self.distinct),
            "rule": rule,
            "samples": self.samples[:8],
            "input_distribution": self.dist,
            "known_findings_reproduced": sorted(self.known_hits),
            "notes": self.notes,
        }
        if getattr(self, "coverage_extra", None):
            cov.update(self.coverage_extra)
        if extra:
            cov.update(extra)
        ev = {
            "property_id": self.pid,
            "tier": self.tier,
            "seed": self.seed,
            "level": level,
            "coverage": cov,
            "assumptions": self.assumptions,
            "wall_s": round(time.time() - self.t0, 2),
            "violations": len(self.violations),
        }
        os.makedirs(EVID, exist_ok=True)
        with open(os.path.join(EVID, "%s.json" % self.pid), "w") as f:
            json.dump(ev, f, indent=1, default=str)
        for path, what, no_input in self.violations:
            print("VIOLATION property=%s replay=%s%s" % (self.pid, path, " no-failing-input-found" if no_input else ""))
            print("  " + what[:400])
        print("%s %s: obligations %d/%d, correspondence evaluations %d (distinct non-trivial %d), violations %d, known findings %d, %.1fs"
              % (self.pid, self.tier, cov["discharged"], cov["obligations"], self.evaluations,
                 len(self.distinct), len(self.violations), len(self.known_hits), time.time() - self.t0))
        return 1 if self.violations else 0


def canon(obj):
    return json.dumps(obj, sort_keys=True, default=str)


def proof_stage(ctx, targets, allow_axioms=(), props_file=None, gen_needed=()):
    """Steps 1-3. Returns True when every obligation is discharged."""
    ok_all = True
    gen_ok, gen_errs = regenerate_gen()
    for name, err in gen_errs:
        relevant = (not gen_needed) or any(name.startswith(g) for g in gen_needed)
        if relevant:
            ctx.obligation("Gen:%s re-derivable from source" % name, False)
            ctx.notes.append("translator failed closed on %s: %s" % (name, err))
            ctx.broken.append(("translator", name, err)) if hasattr(ctx, "broken") else None
            ok_all = False
    hits = forbidden_scan(ctx.pid)
    ctx.obligation("no Admitted/admit/Axiom/Parameter/Conjecture/unsafe flag in coq/", not hits)
    if hits:
        ctx.notes.append("forbidden constructs: " + "; ".join(hits[:10]))
        ok_all = False
    ok, log = coq_make(targets, regenerate=True)
    ctx.obligation("make " + " ".join(targets), ok)
    if not ok:
        ctx.notes.append("coq build failed at %s" % failing_file(log))
        ctx.build_log = log[-6000:]
        return False
    res = props_check(ctx.pid, props_file)
    if not res["ok"]:
        ctx.obligation("Props/%s.v compiles" % ctx.pid, False)
        ctx.build_log = res["log"][-6000:]
        ctx.notes.append("Props file failed: %s" % failing_file(res["log"]))
        return False
    allowed = set(allow_axioms)
    for th in res["theorems"]:
        if th not in res["assumptions"]:
            ctx.obligation("theorem %s (Print Assumptions missing)" % th, False)
            ok_all = False
            continue
        ax = res["assumptions"][th]
        bad = [a for a in ax if a not in allowed and a.split(".")[-1] not in {x.split(".")[-1] for x in allowed}]
        ctx.obligation("theorem %s" % th, not bad)
        for a in ax:
            ctx.trusted.append("axiom (Coq stdlib) %s used by %s" % (a, th))
        if bad:
            ctx.notes.append("theorem %s depends on non-allow-listed axioms %s" % (th, bad))
            ok_all = False
    ctx.theorems = res["theorems"]
    if ctx.tier == "thorough" and ok_all and os.environ.get("DV_NO_COQCHK") != "1":
        ok_chk, listing = coqchk(ctx.pid)
        ctx.obligation("coqchk -o re-checks Props/%s.vo and everything it depends on" % ctx.pid, ok_chk)
        ctx.coverage_extra = {"coqchk_axioms": listing}
        for a in listing:
            ctx.trusted.append("coqchk -o: " + a)
        if not ok_chk:
            ok_all = False
    return ok_all


def coqchk(pid, timeout=2400):
    """Independent re-check of the compiled property file; returns (ok, axiom listing lines)."""
    with Lock():
        rc, out = sh("timeout %d coqchk -silent -o -Q . DV DV.Props.%s" % (timeout, pid), cwd=COQ, timeout=timeout + 30)
    lines = []
    grab = False
    for line in out.split("\n"):
        if line.startswith("* Axioms:") or line.startswith("* Theory") or line.startswith("* Constants/Inductives") or line.startswith("* Inductives") or line.startswith("* Impredicative") :
            grab = line.startswith("* Axioms:")
            lines.append(line.strip())
            continue
        if grab and line.strip():
            lines.append("  " + line.strip())
    ok = rc == 0 and "CONTEXT SUMMARY" in out
    if not ok:
        lines.append("coqchk rc=%d tail: %s" % (rc, out[-800:]))
    return ok, lines[:60]


def main_wrapper(fn):
    """Parse CLI: <tier>. Seed from VERIF_SEED."""
    import argparse
    ap = argparse.ArgumentParser()
    ap.add_argument("--tier", default=os.environ.get("VERIF_TIER", "quick"))
    ap.add_argument("--replay", default=None)
    ap.add_argument("--seed", type=int, default=None)
    a = ap.parse_args(sys.argv[2:])
    seed = a.seed if a.seed is not None else int(os.environ.get("VERIF_SEED", "1") or 1)
    tier = a.tier if a.tier in ("quick", "thorough") else "quick"
    return fn(tier, seed, a.replay)


def corr_stage(ctx, cases, observe, to_coq, header, check_fn, oracle=None, show_fn=None,
               nontrivial=None, search=None, shard=250, label="correspondence", sample_fn=None):
    """Step 4/5: implementation vs. model on `cases`.

    observe(case) -> observation (JSON-able; exceptions already mapped to the enum)
    oracle(case, obs) -> None | (what, key)   independent statement of the property on the
                                             implementation's behaviour
    to_coq(case, obs) -> Coq term of the model's case type (input and expected observation)
    search(ctx, budget_s) -> runs the oracle over a wider scope; reports via ctx.violation
    """
    terms = []
    kept = []
    explained = set()     # indices of cases on which the oracle itself reported a violation (listed or not)
    explained_listed = set()   # ... of these, the ones whose key is a listed known finding
    for case in cases:
        try:
            obs = observe(case)
        except Exception as e:   # harness bug or un-mapped behaviour: never silently dropped
            ctx.violation("harness could not observe the implementation on a case: %s: %s"
                          % (type(e).__name__, e),
                          {"case": case, "traceback": traceback.format_exc()[-1500:]}, no_input=True)
            continue
        ctx.evaluations += 1
        if nontrivial is None or nontrivial(case, obs):
            ctx.distinct.add(hashlib.sha1(canon(case).encode()).hexdigest())
        if len(ctx.samples) < 6 and (ctx.evaluations % 37 == 1):
            ctx.samples.append(sample_fn(case, obs) if sample_fn else {"case": case, "observed": obs})
        if oracle is not None:
            v = oracle(case, obs)
            if v:
                what, key = v
                listed = ctx.violation(what, {"case": case, "observed": obs}, key=key) is False
                explained.add(len(terms))
                if listed:
                    explained_listed.add(len(terms))
        terms.append(to_coq(case, obs))
        kept.append((case, obs))
    if not terms:
        return
    bad, errors = run_cases(ctx.pid, header, check_fn, terms, shard=shard, tag="_" + label[:4])
    ctx.obligation("%s: model evaluates all %d cases (vm_compute)" % (label, len(terms)), not errors)
    for e in errors:
        ctx.notes.append(e[:1500])
    if errors:
        if search:
            search(ctx, 60 if ctx.tier == "quick" else 600)
        if not ctx.violations:
            ctx.violation("%s cases could not be evaluated by the model (model build broken?)" % label,
                          {"errors": [e[:1500] for e in errors]}, no_input=True)
        return
    # a disagreement on a case that IS a listed finding (the model states the property, the implementation
    # is known to deviate there) does not undo the tie; every other disagreement does
    ctx.obligation("%s: model = implementation on %d cases" % (label, len(terms)),
                   not [i for i in bad if i not in explained_listed])
    unexplained = [i for i in bad if i not in explained]
    if bad and not unexplained:
        ctx.notes.append("%d model/implementation disagreements, all on cases where the oracle reported a property violation" % len(bad))
    bad = unexplained
    if bad:
        before = len(ctx.violations)
        shown = ""
        if show_fn:
            shown = show_cases(ctx.pid, header, show_fn, [terms[i] for i in bad[:3]])
        # was the disagreement already explained by an oracle-detected violation on the same case?
        if search:
            search(ctx, 60 if ctx.tier == "quick" else 600)
        if len(ctx.violations) == before:
            case, obs = kept[bad[0]]
            ctx.violation("%s: model and implementation disagree on %d case(s); the property's oracle "
                          "found no failing input" % (label, len(bad)),
                          {"correspondence": label, "first_disagreeing_case": case,
                           "implementation_observed": obs, "model_computed": shown,
                           "n_disagreements": len(bad)}, no_input=True)


def broken_proof(ctx, search=None):
    """Called when proof_stage returned False: look for a concrete failing input."""
    before = len(ctx.violations)
    if search:
        search(ctx, 60 if ctx.tier == "quick" else 900)
    if len(ctx.violations) == before:
        und = [n for n, ok in ctx.obligations if not ok]
        ctx.violation("proof obligations no longer check: %s" % "; ".join(und)[:600],
                      {"undischarged": und, "notes": ctx.notes,
                       "build_log_tail": getattr(ctx, "build_log", "")}, no_input=True)


def exc_enum(e):
    """Map a Python exception raised by the library to the model's error enum."""
    try:
        from dendropy.utility import error as dperr
        if isinstance(e, dperr.DataParseError):
            return "ParseErr"
    except Exception:
        pass
    if isinstance(e, RecursionError):
        return "RecursionErr"
    if isinstance(e, TimeoutError):
        return "Hang"
    for cls, name in ((KeyError, "KeyErr"), (IndexError, "IndexErr"), (LookupError, "LookupErr"),
                      (AssertionError, "AssertErr"), (AttributeError, "AttrErr"), (TypeError, "TypeErr"),
                      (ValueError, "ValueErr")):
        if isinstance(e, cls):
            return name
    return "OtherErr"


class alarm:
    """with alarm(3): ...  raises TimeoutError inside the block once the block has used n seconds of CPU time
    (ITIMER_VIRTUAL: a library call that loops burns CPU; a process that is merely descheduled on a busy machine
    does not), with a wall-clock backstop of max(12 n, 120) s for calls that block without using CPU.
    (A plain wall-clock limit raised `hang:` false alarms when the thorough tier ran next to other jobs.)"""
    def __init__(self, seconds):
        self.seconds = seconds

    def _h(self, *a):
        raise TimeoutError("alarm")

    def __enter__(self):
        import signal
        self.old = signal.signal(signal.SIGALRM, self._h)
        self.oldv = signal.signal(signal.SIGVTALRM, self._h)
        signal.setitimer(signal.ITIMER_REAL, max(12 * self.seconds, 120))
        signal.setitimer(signal.ITIMER_VIRTUAL, self.seconds)

    def __exit__(self, *a):
        import signal
        signal.setitimer(signal.ITIMER_VIRTUAL, 0)
        signal.setitimer(signal.ITIMER_REAL, 0)
        signal.signal(signal.SIGVTALRM, self.oldv)
        signal.signal(signal.SIGALRM, self.old)
        return False
