"""C13 (wave 8) - SHARED-NAMESPACE route histories.

The property: "... attached to the same taxa whenever a namespace is shared across calls", for "all reader options
accepted by every route".  A history here is ONE source text, ONE set of options and ONE TaxonNamespace object that
is handed to a sequence of route calls.  The namespace is EMPTY (brand new: `len(tns) == 0`, hence falsy) or
pre-populated when the first call is made; later calls see what the earlier ones left in it.  Routes:

  ds_read     DataSet.read(.., taxon_namespace=tns) into an existing DataSet: unattached (the namespace is only passed
              to the call), attached with DataSet.attach_taxon_namespace(tns) (keyword passed as well or not), a fresh
              DataSet or the one an earlier ds_read of the history filled (incremental second read)
  ds_get      DataSet.get(.., taxon_namespace=tns)
  list_get    TreeList.get(.., taxon_namespace=tns)
  list_read   TreeList(taxon_namespace=tns).read(..)  (fresh list, or the list of an earlier list_read)
  tree_get    Tree.get(.., taxon_namespace=tns, collection_offset=c, tree_offset=k)
  yield       Tree.yield_from_files([stream], schema, taxon_namespace=tns)
  array_read  TreeArray(taxon_namespace=tns).read(..)
  matrix_get  DnaCharacterMatrix.get(.., taxon_namespace=tns)  (documents with a CHARACTERS block; CharacterMatrix has
              no read-into-existing: it is NonMultiReadable)

Observed (implementation only; every delivered object is kept alive until the end of the history, then Taxon OBJECT
identities are canonicalised as positions in the shared namespace, -1 = not a member object of it):
  * per call: error or, per delivered container (tree list, tree, tree array, matrix), whether its .taxon_namespace IS
    the shared object; per tree the taxon identity of every node that has one, and c13.pack's rich form; per matrix row
    the identity of its taxon and the symbols; for data sets whether every namespace of ds.taxon_namespaces IS the
    shared object; the labels of the shared namespace after the call.
Oracle (the property's own terms, deliberately naive; keys new and narrow, all start with `shared-namespace:`):
  <Route>:other-namespace     a delivered container is attached to another namespace object than the one passed
  <Route>:foreign-taxon       a node / row refers to a Taxon object that is not a member of the shared namespace
  <Route>:extra-namespace     a data set given the shared namespace holds another namespace object afterwards
  <Route>:taxa                the same tree delivered by two routes refers to different Taxon objects
  <Route>:<aspect>            ... differs in label / rooting / weight / newick / comments / annotations / nodes / count
  <Route>:matrix-taxa|matrix  the matrix rows of two routes are keyed by different Taxon objects / differ in content
  DataSet.read:error          DataSet.read and DataSet.get, given the same namespace, do not fail alike
Reference for the pairwise clauses: the first call of the history that delivers the whole text (ds_read / ds_get /
list_get / list_read / yield), block structure from the first data-set call.
"""
import io

from dv import core

PREFIX = "shared-namespace:"
ROUTE_NAMES = {"ds_read": "DataSet.read", "ds_get": "DataSet.get", "list_get": "TreeList.get", "list_read": "TreeList.read",
               "tree_get": "Tree.get", "yield": "Tree.yield_from_files", "array_read": "TreeArray.read",
               "matrix_get": "CharacterMatrix.get"}
WHOLE = ("ds_read", "ds_get", "list_get", "list_read", "yield")

DEMO_DOC = ("#NEXUS\nBEGIN TAXA;\n    DIMENSIONS NTAX=4;\n    TAXLABELS a b c d;\nEND;\nBEGIN CHARACTERS;\n    DIMENSIONS NCHAR=6;\n"
            "    FORMAT DATATYPE=DNA GAP=- MISSING=?;\n    MATRIX\n        a ACGTAC\n        b ACGTAA\n        c AC-TAG\n        d A?GTAT\n    ;\nEND;\n"
            "BEGIN TREES;\n    TREE one = [&R] ((a:1,b:2):3,(c:4,d:5):6);\n    TREE two = [&U] (a:1,(b:2,(c:3,d:4):5):6);\nEND;\n")
TREES_ONLY_DOC = ("#NEXUS\nBEGIN TREES;\n  TRANSLATE 1 x, 2 y, 3 z;\n  TREE t1 = (1,(2,3));\nEND;\nBEGIN TREES;\n  TREE t2 = [&R] ((x,y),z);\n"
                  "  TREE t3 = (z,x,y);\nEND;\n")


# ----------------------------------------------------------------------------------------------
# generation
# ----------------------------------------------------------------------------------------------

def gen_call(rng, case, n_ds, n_tl):
    chars = bool(case["feats"].get("chars"))
    routes = ["ds_read", "ds_read", "ds_read", "ds_get", "list_get", "list_read", "tree_get", "yield", "array_read"]
    if chars:
        routes += ["matrix_get", "matrix_get"]
    r = rng.choice(routes)
    call = {"route": r}
    if r == "ds_read":
        call["attach"] = rng.choice(["none", "none", "none", "before", "before_nokw"])
        call["into"] = rng.randrange(n_ds) if n_ds and rng.random() < 0.3 else None       # an earlier data set, else a new one
        if case["schema"] == "nexus" and rng.random() < 0.25:
            call["exclude_chars"] = True
    elif r == "ds_get":
        if case["schema"] == "nexus" and rng.random() < 0.3:
            call["exclude_chars"] = True
    elif r == "list_read":
        call["into"] = rng.randrange(n_tl) if n_tl and rng.random() < 0.3 else None
    elif r == "tree_get":
        call["c"] = rng.choice([None, 0, 0, 1, -1])
        call["k"] = rng.choice([None, 0, 0, 1, -1])
    return call


def gen_case(rng, base):
    schema = rng.choice(["newick", "nexus", "nexus", "nexus", "nexml"])
    c0 = base.gen_case(rng, schema)
    case = {"kind": "shared", "schema": schema, "doc": c0["doc"], "feats": c0["feats"],
            "kw": c0["kw2"] if rng.random() < 0.5 else {},
            "ns0": c0["ns0"] if rng.random() < 0.45 else [], "calls": []}
    n = rng.randint(2, 5)
    n_ds = n_tl = 0
    for i in range(n):
        call = gen_call(rng, case, n_ds, n_tl)
        if i == 0 and rng.random() < 0.5:
            call = {"route": "ds_read", "attach": rng.choice(["none", "none", "before"]), "into": None}
        if call["route"] == "ds_read" and call.get("into") is None:
            n_ds += 1
        if call["route"] == "list_read" and call.get("into") is None:
            n_tl += 1
        case["calls"].append(call)
    return case


def fixed_cases():
    """the shape of the reviewers' demo: an EMPTY shared namespace handed first to DataSet.read on an unattached data
    set, then to the other routes; the same with the data set attached, pre-populated, and with the order reversed"""
    out = []

    def mk(schema, doc, ns0, calls, chars):
        out.append({"kind": "shared", "schema": schema, "doc": doc, "ns0": ns0, "kw": {}, "calls": calls,
                    "feats": {"schema": schema, "chars": chars, "nstmts": doc.count("TREE ") or doc.count(";"), "fixed_shared": True}})
    dsr = {"route": "ds_read", "attach": "none", "into": None}
    for ns0 in ([], ["b", "zz"]):
        mk("nexus", DEMO_DOC, ns0, [dsr, {"route": "list_get"}, {"route": "matrix_get"}], True)
        mk("nexus", DEMO_DOC, ns0, [{"route": "list_get"}, dsr, {"route": "ds_read", "attach": "none", "into": 0}], True)
        mk("nexus", DEMO_DOC, ns0, [{"route": "ds_read", "attach": "before", "into": None}, {"route": "ds_get"},
                                    {"route": "tree_get", "c": 0, "k": 1}, {"route": "array_read"}], True)
        mk("nexus", DEMO_DOC, ns0, [{"route": "ds_read", "attach": "before_nokw", "into": None}, {"route": "yield"},
                                    {"route": "list_read", "into": None}], True)
        mk("nexus", TREES_ONLY_DOC, ns0, [dsr, {"route": "yield"}, {"route": "tree_get", "c": 1, "k": 0}], False)
        mk("newick", "(a,(b,c));[&R] ((a:1,c:2):1,b:3);", ns0, [dsr, {"route": "list_read", "into": None}, {"route": "tree_get", "c": None, "k": 1}], False)
    return out


# ----------------------------------------------------------------------------------------------
# implementation side
# ----------------------------------------------------------------------------------------------

def err_obs(e):
    return {"err": core.exc_enum(e), "msg": "%s: %s" % (type(e).__name__, str(e)[:150])}


def run_history(case, base):
    """performs the calls; returns (tns, results); results hold the delivered OBJECTS"""
    import dendropy
    tns = dendropy.TaxonNamespace()
    for l in case["ns0"]:
        tns.new_taxon(l)
    schema, doc = case["schema"], case["doc"]
    datasets, lists = [], []
    results = []
    for call in case["calls"]:
        r = call["route"]
        res = {"call": call, "err": None, "blocks": None, "trees": None, "containers": [], "matrices": [], "dataset": None,
               "array": None, "returned": None}
        kw = dict(case["kw"])
        try:
            with core.alarm(base.ALARM_S):
                if r == "ds_read":
                    if call.get("into") is not None and call["into"] < len(datasets):
                        ds = datasets[call["into"]]
                    else:
                        ds = dendropy.DataSet()
                        datasets.append(ds)
                    res["dataset"] = ds
                    if call["attach"] != "none" and ds.attached_taxon_namespace is None:
                        ds.attach_taxon_namespace(tns)
                    if call["attach"] != "before_nokw" or ds.attached_taxon_namespace is None:
                        kw["taxon_namespace"] = tns
                    if call.get("exclude_chars"):
                        kw["exclude_chars"] = True
                    n_tl, n_cm = len(ds.tree_lists), len(ds.char_matrices)
                    res["returned"] = list(ds.read(data=doc, schema=schema, **kw))
                    new_tls = list(ds.tree_lists)[n_tl:]
                    res["blocks"] = [list(tl) for tl in new_tls]
                    res["containers"] = [("tree list %d" % i, tl) for i, tl in enumerate(new_tls)]
                    res["matrices"] = list(ds.char_matrices)[n_cm:]
                elif r == "ds_get":
                    if call.get("exclude_chars"):
                        kw["exclude_chars"] = True
                    ds = dendropy.DataSet.get(data=doc, schema=schema, taxon_namespace=tns, **kw)
                    res["dataset"] = ds
                    res["blocks"] = [list(tl) for tl in ds.tree_lists]
                    res["containers"] = [("tree list %d" % i, tl) for i, tl in enumerate(ds.tree_lists)]
                    res["matrices"] = list(ds.char_matrices)
                elif r == "list_get":
                    tl = dendropy.TreeList.get(data=doc, schema=schema, taxon_namespace=tns, **kw)
                    res["trees"] = list(tl)
                    res["containers"] = [("tree list", tl)]
                elif r == "list_read":
                    if call.get("into") is not None and call["into"] < len(lists):
                        tl = lists[call["into"]]
                    else:
                        tl = dendropy.TreeList(taxon_namespace=tns)
                        lists.append(tl)
                    n0 = len(tl)
                    res["returned"] = tl.read(file=io.StringIO(doc), schema=schema, **kw)
                    res["trees"] = list(tl)[n0:]
                    res["containers"] = [("tree list", tl)]
                elif r == "tree_get":
                    if call["c"] is not None:
                        kw["collection_offset"] = call["c"]
                    if call["k"] is not None:
                        kw["tree_offset"] = call["k"]
                    t = dendropy.Tree.get(data=doc, schema=schema, taxon_namespace=tns, **kw)
                    res["trees"] = [] if t is None else [t]
                    res["containers"] = [] if t is None else [("tree", t)]
                elif r == "yield":
                    res["trees"] = []
                    for t in dendropy.Tree.yield_from_files([io.StringIO(doc)], schema, taxon_namespace=tns, **kw):
                        res["trees"].append(t)
                elif r == "array_read":
                    ta = dendropy.TreeArray(taxon_namespace=tns)
                    ta.read(data=doc, schema=schema, **kw)
                    res["array"] = ta
                    res["containers"] = [("tree array", ta)]
                elif r == "matrix_get":
                    cm = dendropy.DnaCharacterMatrix.get(data=doc, schema=schema, taxon_namespace=tns, **kw)
                    res["matrices"] = [cm]
                else:
                    raise ValueError(r)
        except Exception as e:
            res["err"] = err_obs(e)
        if res["blocks"] is not None:
            res["trees"] = [t for b in res["blocks"] for t in b]
        res["ns_after"] = [t.label for t in tns]
        results.append(res)
    return tns, results


def observe(case, base):
    import dendropy
    tns, results = run_history(case, base)
    idx = {id(t): i for i, t in enumerate(tns)}          # every delivered object is still alive here
    obs = {"calls": [], "ns": [t.label for t in tns], "ns0": list(case["ns0"])}
    for res in results:
        o = {"route": res["call"]["route"], "err": res["err"], "ns_after": res["ns_after"], "returned": res["returned"]}
        if res["err"] is None:
            o["not_shared"] = [name for name, c in res["containers"] if c.taxon_namespace is not tns]
            for t in res["trees"] or []:
                if t.taxon_namespace is not tns and "a delivered tree" not in o["not_shared"]:
                    o["not_shared"].append("a delivered tree")
            for i, cm in enumerate(res["matrices"]):
                if cm.taxon_namespace is not tns:
                    o["not_shared"].append("matrix %d" % i)
            if res["trees"] is not None:
                o["packed"] = base.pack(res["trees"], tns)
                o["foreign"] = sorted(set(n.taxon.label for t in res["trees"] for n in t.preorder_node_iter()
                                          if n.taxon is not None and id(n.taxon) not in idx))
            if res["blocks"] is not None:
                o["sizes"] = [len(b) for b in res["blocks"]]
            if res["matrices"]:
                o["mats"] = []
                for cm in res["matrices"]:
                    o["mats"].append({"type": type(cm).__name__, "label": cm.label,
                                      "rows": [[idx.get(id(t), -1), t.label, "".join(str(s) for s in cm[t])] for t in cm]})
            if res["dataset"] is not None:
                o["ds_namespaces"] = [ns is tns for ns in res["dataset"].taxon_namespaces]
            if res["array"] is not None:
                o["array"] = base.dump_array(res["array"])
        obs["calls"].append(o)
    # a tree array filled tree by tree from the reference trees over the SAME namespace object
    ref = next((r for r in results if r["err"] is None and r["call"]["route"] in WHOLE), None)
    obs["array_want"] = None
    if ref is not None and any(r["array"] is not None for r in results):
        try:
            with core.alarm(base.ALARM_S):
                ta = dendropy.TreeArray(taxon_namespace=tns)
                for t in ref["trees"]:
                    ta.add_tree(t)
                obs["array_want"] = base.dump_array(ta)
        except Exception as e:
            obs["array_want"] = err_obs(e)
    del results
    return obs


# ----------------------------------------------------------------------------------------------
# oracle
# ----------------------------------------------------------------------------------------------

def describe(call):
    r = ROUTE_NAMES[call["route"]]
    if call["route"] == "ds_read":
        r += {"none": " on an unattached DataSet, taxon_namespace=tns", "before": " on a DataSet attached to tns, taxon_namespace=tns",
              "before_nokw": " on a DataSet attached to tns, no keyword"}[call["attach"]]
        if call.get("into") is not None:
            r += " (second read into data set %d)" % call["into"]
    elif call["route"] == "tree_get":
        r += "(collection_offset=%s, tree_offset=%s, taxon_namespace=tns)" % (call["c"], call["k"])
    elif call["route"] in ("list_read", "array_read"):
        r += " on an object constructed with taxon_namespace=tns"
    else:
        r += "(taxon_namespace=tns)"
    return r


def oracle_all(case, obs, base):
    out = []
    seen = set()
    ctxt = "; shared namespace %s; calls %s; options %s; document: %r" % (
        "EMPTY at the first call" if not case["ns0"] else "pre-populated with %s" % case["ns0"],
        [describe(c) for c in case["calls"]], case["kw"], case["doc"][:400])
    valid = base.is_valid_doc(case)

    def viol(what, key):
        if key not in seen:
            seen.add(key)
            out.append((what + ctxt, PREFIX + key))

    def numbered(what):
        """the listed finding: taxa referenced by NUMBER resolve against the target namespace as it is at the time of the call"""
        if "taxon-number-resolution" not in seen:
            seen.add("taxon-number-resolution")
            out.append((what + ": taxa referenced by number resolve against the whole target namespace as it is at the time of the call"
                        + ctxt, "taxon-number-resolution"))

    calls = list(zip(case["calls"], obs["calls"]))
    # membership / attachment: stated per call, needs no second route
    for i, (c, o) in enumerate(calls):
        R = ROUTE_NAMES[c["route"]]
        if o["err"] is not None:
            continue
        if o["not_shared"]:
            viol("call %d, %s: %s is attached to ANOTHER namespace object than the one given (the shared namespace holds %s afterwards)"
                 % (i, describe(c), ", ".join(o["not_shared"]), o["ns_after"]), R + ":other-namespace")
        elif o.get("foreign"):
            viol("call %d, %s: nodes refer to Taxon objects %s that are not members of the shared namespace %s"
                 % (i, describe(c), o["foreign"], o["ns_after"]), R + ":foreign-taxon")
        if o.get("ds_namespaces") is not None and not all(o["ds_namespaces"]) and not o["not_shared"]:
            viol("call %d, %s: the data set holds a namespace object other than the one given (%s)"
                 % (i, describe(c), o["ds_namespaces"]), R + ":extra-namespace")
        for m in o.get("mats", []):
            if any(r[0] < 0 for r in m["rows"]) and not o["not_shared"]:
                viol("call %d, %s: matrix rows are keyed by Taxon objects that are not members of the shared namespace"
                     % (i, describe(c)), R + ":foreign-taxon")
    # pairwise: every route against the first whole delivery
    ref_i = next((i for i, (c, o) in enumerate(calls) if o["err"] is None and c["route"] in WHOLE), None)
    blk_i = next((i for i, (c, o) in enumerate(calls) if o["err"] is None and "sizes" in o), None)
    numeric = case["feats"].get("numeric_refs") or case["feats"].get("numbered")
    if ref_i is not None:
        rc, ro = calls[ref_i]
        want = ro["packed"]
        for i, (c, o) in enumerate(calls):
            if i == ref_i or o["err"] is not None or c["route"] not in WHOLE:
                continue
            R = ROUTE_NAMES[c["route"]]
            got = o["packed"]
            for d in base.diff_lists(want["rich"], got["rich"]):
                if d in ("newick", "nodes") and numeric:
                    numbered("call %d, %s differs from call %d, %s in %s" % (i, describe(c), ref_i, describe(rc), d))
                else:
                    viol("call %d, %s differs from call %d, %s in %s" % (i, describe(c), ref_i, describe(rc), d), "%s:%s" % (R, d))
            if len(want["rich"]) == len(got["rich"]) and want["taxa"] != got["taxa"] and not o["not_shared"] and not ro["not_shared"] \
                    and not base.diff_lists(want["rich"], got["rich"]):
                viol("call %d, %s and call %d, %s deliver the same trees on DIFFERENT Taxon objects of the shared namespace: %s vs %s"
                     % (i, describe(c), ref_i, describe(rc), got["taxa"], want["taxa"]), R + ":taxa")
        # single trees
        for i, (c, o) in enumerate(calls):
            if c["route"] != "tree_get" or o["err"] is not None or not o["packed"]["rich"]:
                continue
            if blk_i is not None:
                bo = calls[blk_i][1]
                blocks, pos = [], 0
                for n in bo["sizes"]:
                    blocks.append(list(range(pos, pos + n)))
                    pos += n
                src = bo["packed"]
            elif case["schema"] == "newick":
                blocks, src = [list(range(len(want["rich"])))], want
            else:
                continue
            try:
                j = blocks[c["c"] or 0][c["k"] or 0]
            except IndexError:
                continue
            for d in base.diff_trees(src["rich"][j], o["packed"]["rich"][0]):
                if d in ("newick", "nodes") and numeric:
                    numbered("call %d, %s differs in %s" % (i, describe(c), d))
                else:
                    viol("call %d, %s differs from tree %d of the whole delivery in %s" % (i, describe(c), j, d), "Tree.get:" + d)
            if not base.diff_trees(src["rich"][j], o["packed"]["rich"][0]) and src["taxa"][j] != o["packed"]["taxa"][0] \
                    and not o["not_shared"] and not calls[blk_i if blk_i is not None else ref_i][1]["not_shared"]:
                viol("call %d, %s delivers tree %d on different Taxon objects: %s vs %s" % (i, describe(c), j, o["packed"]["taxa"][0], src["taxa"][j]),
                     "Tree.get:taxa")
        # tree arrays
        W = obs.get("array_want")
        for i, (c, o) in enumerate(calls):
            if c["route"] != "array_read" or o["err"] is not None or W is None or base.is_err(W):
                continue
            for f in ("n", "rooted", "splits", "lens", "weights"):
                if o["array"][f] != W[f]:
                    if numeric and f in ("splits", "lens"):
                        numbered("call %d, %s differs in %s" % (i, describe(c), f))
                    else:
                        viol("call %d, %s differs in %s from an array over the same namespace filled from the trees of call %d: %s vs %s"
                             % (i, describe(c), f, ref_i, o["array"][f], W[f]), "TreeArray.read:" + f)
    # matrices: the first data-set call that read characters is the reference
    mref = next((i for i, (c, o) in enumerate(calls) if o["err"] is None and o.get("mats") and c["route"] in ("ds_read", "ds_get")), None)
    if mref is not None:
        mw = calls[mref][1]["mats"]
        for i, (c, o) in enumerate(calls):
            if i == mref or o["err"] is not None or not o.get("mats"):
                continue
            R = ROUTE_NAMES[c["route"]]
            if c["route"] == "matrix_get" and len(mw) != 1:
                continue
            a, b = mw, o["mats"]
            if [[m["type"], m["label"], [r[1:] for r in m["rows"]]] for m in a] != [[m["type"], m["label"], [r[1:] for r in m["rows"]]] for m in b]:
                viol("call %d, %s: matrices differ from those of call %d, %s: %s vs %s" % (i, describe(c), mref, describe(calls[mref][0]), b, a),
                     R + ":matrix")
            elif [[r[0] for r in m["rows"]] for m in a] != [[r[0] for r in m["rows"]] for m in b] and not o["not_shared"] \
                    and not calls[mref][1]["not_shared"]:
                viol("call %d, %s: matrix rows are keyed by different Taxon objects than in call %d, %s" % (i, describe(c), mref, describe(calls[mref][0])),
                     R + ":matrix-taxa")
    # DataSet.read vs DataSet.get, same namespace: fail alike (valid documents only)
    if valid:
        dr = [(i, c, o) for i, (c, o) in enumerate(calls) if c["route"] == "ds_read" and not c.get("exclude_chars")]
        dg = [(i, c, o) for i, (c, o) in enumerate(calls) if c["route"] == "ds_get" and not c.get("exclude_chars")]
        if dr and dg:
            (i, c, o), (j, c2, o2) = dr[0], dg[0]
            e1 = None if o["err"] is None else o["err"]["err"]
            e2 = None if o2["err"] is None else o2["err"]["err"]
            if e1 != e2:
                viol("call %d, %s gives %s; call %d, %s gives %s" % (i, describe(c), o["err"] and o["err"]["msg"], j, describe(c2),
                                                                  o2["err"] and o2["err"]["msg"]), "DataSet.read:error")
    return out


def count_case(ctx, case, obs):
    ctx.count("schema:shared-namespace")
    ctx.count("shared namespace at first call:%s" % ("empty" if not case["ns0"] else "pre-populated"))
    for c, o in zip(case["calls"], obs["calls"]):
        tag = c["route"]
        if c["route"] == "ds_read":
            tag += ":" + ("unattached" if c["attach"] == "none" else "attached") + (":second" if c.get("into") is not None else "")
        ctx.count("shared route:%s" % tag)
        ctx.count("shared outcome:%s" % (o["err"]["err"] if o["err"] else "ok"))
    c0 = case["calls"][0]
    if not case["ns0"] and c0["route"] == "ds_read" and c0["attach"] == "none":
        ctx.count("shared: EMPTY namespace first handed to DataSet.read on an unattached data set")
